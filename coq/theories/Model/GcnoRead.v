(* src/reader.rs, reading half: GcovReaderBuf (read_u32, read_counter, read_string, skip, read_version),
   guess_endianness, read_gcno / read_functions / read_blocks / read_edges / read_lines, read_gcda.
   Byte level; the tree WITH the reader hardening (block-index guards `<`, checked destination block, arc count
   and block count bounded by the buffer, all-zero string = Err, arcs length 0 = Err).
   Executable definitions only.

   Representation.  The Rust reader is (buffer, pos); every read advances pos by a multiple of 4 from pos = 4.
   The model keeps the REMAINING bytes [l] (buffer[pos..]), so
     read_u32 succeeds      <->  pos + 4 <= len        <->  l has four bytes,
     skip(n) succeeds       <->  pos + n <  len        <->  drop n l is not empty,
     read_string payload ok <->  pos + 4*len <= len    <->  l has 4*len bytes.
   A reader whose read failed is never used again by the code (`?` or end of the `while let Ok` loop), so the
   position after a failed read is not represented.  Release-mode arithmetic: `+=` on counters wraps. *)
From Grcov Require Export Base.Prelude Model.Cov.

(* ---- N-indexed list access (indices come from the file: never convert an unchecked N to nat) ---- *)
Fixpoint nthN {A} (l : list A) (i : N) : option A :=
  match l with
  | [] => None
  | x :: l' => if i =? 0 then Some x else nthN l' (N.pred i)
  end.
Fixpoint alterN {A} (f : A -> A) (i : N) (l : list A) : list A :=
  match l with
  | [] => []
  | x :: l' => if i =? 0 then f x :: l' else x :: alterN f (N.pred i) l'
  end.
Definition lenN {A} (l : list A) : N := N.of_nat (length l).
(* n <= length l, walking at most n cells *)
Fixpoint le_length {A} (n : N) (l : list A) : bool :=
  match l with
  | [] => n =? 0
  | _ :: l' => if n =? 0 then true else le_length (N.pred n) l'
  end.
(* first n elements and the rest, None when l is shorter than n *)
Fixpoint split_at {A} (n : N) (l : list A) : option (list A * list A) :=
  if n =? 0 then Some ([], l) else
  match l with
  | [] => None
  | x :: l' => match split_at (N.pred n) l' with
               | Some (a, b) => Some (x :: a, b)
               | None => None
               end
  end.
Fixpoint memN (x : N) (l : list N) : bool :=
  match l with [] => false | y :: l' => (x =? y) || memN x l' end.
Fixpoint bytes_eqb (a b : bytes) : bool :=
  match a, b with
  | [], [] => true
  | x :: a', y :: b' => (x =? y) && bytes_eqb a' b'
  | _, _ => false
  end.

Fixpoint count_from (n : nat) (start : N) : list N :=
  match n with O => [] | S n => start :: count_from n (start + 1) end.

(* ---- constants ---- *)
Definition ARC_ON_TREE : N := 1.
Definition ARC_FAKE : N := 2.
Definition TAG_FUNCTION : N := 16777216.          (* 0x01000000 *)
Definition TAG_BLOCKS : N := 21037056.            (* 0x01410000 *)
Definition TAG_ARCS : N := 21168128.              (* 0x01430000 *)
Definition TAG_LINES : N := 21299200.             (* 0x01450000 *)
Definition TAG_COUNTER_ARCS : N := 27328512.      (* 0x01a10000 *)
Definition TAG_OBJECT_SUMMARY : N := 2701131776.  (* 0xa1000000 *)
Definition TAG_PROGRAM_SUMMARY : N := 2734686208. (* 0xa3000000 *)

(* ---- structures (GcovBlock, GcovEdge, GcovFunction, Gcno) ---- *)
Record gblock := mkBlock {
  b_no : N;                 (* loop index of the BLOCKS record that created it *)
  b_src : list N;           (* incoming edge ids, push order *)
  b_dst : list N;           (* outgoing edge ids, kept sorted by destination block *)
  b_lines : list N;
  b_line_max : N;
  b_counter : N }.
Record gedge := mkEdge { e_src : N; e_dst : N; e_flags : N; e_counter : N; e_cycles : N }.
Record gfun := mkFun {
  f_ident : N; f_start_line : N; f_end_line : N; f_line_sum : N; f_cfg_sum : N;
  f_file : name; f_name : name;
  f_blocks : list gblock; f_edges : list gedge; f_real : N }.
Record gcno := mkGcno {
  g_version : N; g_checksum : N;
  g_funs : list gfun;       (* in push order; ident_to_fun = index of the LAST function with that identifier *)
  g_runs : N; g_programs : N }.

Definition new_block (no : N) : gblock := mkBlock no [] [] [] 0 0.
Definition is_on_tree (e : gedge) : bool := negb (N.land (e_flags e) ARC_ON_TREE =? 0).
Definition is_fake (e : gedge) : bool := negb (N.land (e_flags e) ARC_FAKE =? 0).

Definition set_blocks (f : gfun) bl := mkFun (f_ident f) (f_start_line f) (f_end_line f) (f_line_sum f) (f_cfg_sum f) (f_file f) (f_name f) bl (f_edges f) (f_real f).
Definition set_graph (f : gfun) bl ed re := mkFun (f_ident f) (f_start_line f) (f_end_line f) (f_line_sum f) (f_cfg_sum f) (f_file f) (f_name f) bl ed re.
Definition set_funs (g : gcno) fs := mkGcno (g_version g) (g_checksum g) fs (g_runs g) (g_programs g).

(* ---- the buffer reader ---- *)
Definition word (le : bool) (b0 b1 b2 b3 : N) : N :=
  if le then b0 + 256 * b1 + 65536 * b2 + 16777216 * b3
  else b3 + 256 * b2 + 65536 * b1 + 16777216 * b0.
Definition read_u32 (le : bool) (l : bytes) : option (N * bytes) :=
  match l with
  | b0 :: b1 :: b2 :: b3 :: r => Some (word le b0 b1 b2 b3, r)
  | _ => None
  end.
(* (hi << 32) | lo *)
Definition read_counter (le : bool) (l : bytes) : option (N * bytes) :=
  match read_u32 le l with
  | Some (lo, l1) => match read_u32 le l1 with
                     | Some (hi, l2) => Some (hi * two32 + lo, l2)
                     | None => None
                     end
  | None => None
  end.
(* skip!(n): pos += n; Ok iff pos < len *)
Definition skip (n : N) (l : bytes) : option bytes :=
  match split_at n l with
  | Some (_, (_ :: _) as r) => Some r
  | _ => None
  end.
(* bytes[..i] with i = len - (number of trailing zero bytes); None = all zero (Err since the hardening) *)
Fixpoint strip_zeros (p : bytes) : option bytes :=
  match p with
  | [] => None
  | x :: r => match strip_zeros r with
              | Some r' => Some (x :: r')
              | None => if x =? 0 then None else Some [x]
              end
  end.
Definition read_string (le : bool) (l : bytes) : outcome (name * bytes) :=
  match read_u32 le l with
  | None => Err
  | Some (len, l1) =>
      if len =? 0 then Ok ([], l1) else
      match split_at (4 * len) l1 with
      | None => Err
      | Some (payload, l2) =>
          match strip_zeros payload with
          | None => Err
          | Some s => Ok (s, l2)
          end
      end
  end.
(* u8 subtraction, release mode *)
Definition sub8 (a b : N) : N := (a + 256 - b) mod 256.
Definition get_version (x0 x1 x2 : N) : N :=
  if 65 <=? x2 then 100 * (x2 - 65) + 10 * sub8 x1 48 + sub8 x0 48
  else 10 * sub8 x2 48 + sub8 x0 48.
Definition read_version (le : bool) (l : bytes) : outcome (N * bytes) :=
  match l with
  | b0 :: b1 :: b2 :: b3 :: r =>
      if le && (b0 =? 42) then Ok (get_version b1 b2 b3, r)
      else if negb le && (b3 =? 42) then Ok (get_version b2 b1 b0, r)
      else Err
  | _ => Err
  end.
(* guess_endianness: Some true = little endian; the type bytes are "oncg" / "adcg" *)
Definition guess_endianness (t0 t1 t2 t3 : N) (buf : bytes) : option (bool * bytes) :=
  match buf with
  | b0 :: b1 :: b2 :: b3 :: r =>
      if (b0 =? t0) && (b1 =? t1) && (b2 =? t2) && (b3 =? t3) then Some (true, r)
      else if (b0 =? t3) && (b1 =? t2) && (b2 =? t1) && (b3 =? t0) then Some (false, r)
      else None
  | _ => None
  end.

(* ---- slice::binary_search_by of the toolchain's std (rustc 1.95: the branch-free loop), as used on the
        destination list: compare edges[x].destination with dst.  Result = the index at which the code inserts
        (`Ok(i) => i, Err(i) => i`).  [key x] = None stands for an out-of-range `edges[*x]` (panic). ---- *)
Fixpoint bs_loop (fuel : nat) (key : N -> option N) (l : list N) (dst : N) (size base : N) : outcome N :=
  match fuel with
  | O => OutOfFuel
  | S fuel =>
      if 1 <? size then
        let half := size / 2 in
        let mid := base + half in
        match nthN l mid with
        | None => Panic
        | Some x => match key x with
                    | None => Panic
                    | Some d => bs_loop fuel key l dst (size - half) (if dst <? d then base else mid)
                    end
        end
      else
        match nthN l base with
        | None => Panic
        | Some x => match key x with
                    | None => Panic
                    | Some d => Ok (if d =? dst then base else if d <? dst then base + 1 else base)
                    end
        end
  end.
Definition bsearch_pos (key : N -> option N) (l : list N) (dst : N) : outcome N :=
  match l with
  | [] => Ok 0
  | _ => bs_loop (S (length l)) key l dst (lenN l) 0
  end.
(* SmallVec::insert(i, x): panics when i > len *)
Definition insert_at {A} (i : N) (x : A) (l : list A) : outcome (list A) :=
  match split_at i l with
  | Some (a, b) => Ok (a ++ x :: b)
  | None => Panic
  end.
Definition edge_dst (edges : list gedge) (x : N) : option N := e_dst <$> nthN edges x.

(* push one arc (read_edges loop body after the reads and the destination check; also count_on_tree's extra arc) *)
Definition push_arc (blocks : list gblock) (edges : list gedge) (src dst flags : N)
  : outcome (list gblock * list gedge) :=
  let id := lenN edges in
  let edges' := edges ++ [mkEdge src dst flags 0 0] in
  match nthN blocks src with
  | None => Panic
  | Some bs =>
      let* i := bsearch_pos (edge_dst edges') (b_dst bs) dst in
      let* dl := insert_at i id (b_dst bs) in
      let blocks1 := alterN (fun b => mkBlock (b_no b) (b_src b) dl (b_lines b) (b_line_max b) (b_counter b)) src blocks in
      match nthN blocks1 dst with
      | None => Panic
      | Some _ =>
          Ok (alterN (fun b => mkBlock (b_no b) (b_src b ++ [id]) (b_dst b) (b_lines b) (b_line_max b) (b_counter b)) dst blocks1,
              edges')
      end
  end.

(* ---- read_gcno ---- *)
Section reader.
Context (le : bool) (version : N) (blen : N).   (* endianness, gcno version, total buffer length *)

(* read_blocks.  version < 80: `length` times (skip_u32; push): every skip succeeds iff the last one does, i.e. iff
   more than 4*length bytes remain.  version >= 80: one count word, bounded (hardening) by the words of the file. *)
Definition new_blocks (n : N) : list gblock := map new_block (count_from (N.to_nat n) 0).
Definition read_blocks (f : gfun) (length : N) (total : N) (l : bytes) : outcome (gfun * N * bytes) :=
  if version <? 80 then
    if length =? 0 then Ok (f, total, l) else
    match skip (4 * length) l with
    | None => Err
    | Some l' => Ok (set_blocks f (f_blocks f ++ new_blocks length), total, l')
    end
  else
    match read_u32 le l with
    | None => Err
    | Some (n, l') =>
        let total' := total + n in
        if blen / 4 <? total' then Err
        else Ok (set_blocks f (f_blocks f ++ new_blocks n), total', l')
    end.

Fixpoint read_arcs (n : nat) (src : N) (blocks : list gblock) (edges : list gedge) (real : N) (l : bytes)
  : outcome (list gblock * list gedge * N * bytes) :=
  match n with
  | O => Ok (blocks, edges, real, l)
  | S n =>
      match read_u32 le l with
      | None => Err
      | Some (dst, l1) =>
          match read_u32 le l1 with
          | None => Err
          | Some (flags, l2) =>
              if lenN blocks <=? dst then Err else
              let* p_ := push_arc blocks edges src dst flags in let '(blocks', edges') := p_ in
              read_arcs n src blocks' edges' (if N.land flags ARC_ON_TREE =? 0 then real + 1 else real) l2
          end
      end
  end.
Definition read_edges (f : gfun) (length : N) (l : bytes) : outcome (gfun * bytes) :=
  if length =? 0 then Err else
  let count := (length - 1) / 2 in
  match read_u32 le l with
  | None => Err
  | Some (block_no, l1) =>
      if negb (le_length (8 * count) l1) then Err else
      if block_no <? lenN (f_blocks f) then
        let* p_ := read_arcs (N.to_nat count) block_no (f_blocks f) (f_edges f) (f_real f) l1 in let '(bl, ed, re, l2) := p_ in
        Ok (set_graph f bl ed re, l2)
      else Err
  end.

(* read_lines loop: (lines pushed so far in reverse, line_max, must_take) *)
Fixpoint read_lines_loop (fuel : nat) (f : gfun) (acc : list N) (lmax : N) (must_take : bool) (l : bytes)
  : outcome (list N * N * bytes) :=
  match fuel with
  | O => OutOfFuel
  | S fuel =>
      match read_u32 le l with
      | None => Err
      | Some (line, l1) =>
          if negb (line =? 0) then
            if negb must_take || ((80 <=? version) && ((line <? f_start_line f) || (f_end_line f <? line)))
            then read_lines_loop fuel f acc lmax must_take l1
            else read_lines_loop fuel f (line :: acc) (if lmax <? line then line else lmax) must_take l1
          else
            let* p_ := read_string le l1 in let '(fname, l2) := p_ in
            match fname with
            | [] => Ok (rev acc, lmax, l2)
            | _ => read_lines_loop fuel f acc lmax (bytes_eqb fname (f_file f)) l2
            end
      end
  end.
Definition read_lines (fuel : nat) (f : gfun) (l : bytes) : outcome (gfun * bytes) :=
  match read_u32 le l with
  | None => Err
  | Some (block_no, l1) =>
      match (if block_no <? lenN (f_blocks f) then nthN (f_blocks f) block_no else None) with
      | None => Err
      | Some b =>
          let* p_ := read_lines_loop fuel f [] (b_line_max b) true l1 in let '(ls, lmax, l2) := p_ in
          Ok (set_blocks f (alterN (fun b => mkBlock (b_no b) (b_src b) (b_dst b) (b_lines b ++ ls) lmax (b_counter b)) block_no (f_blocks f)), l2)
      end
  end.

(* the FUNCTION record body *)
Definition read_function (l : bytes) : outcome (gfun * bytes) :=
  match read_u32 le l with None => Err | Some (ident, l1) =>
  match read_u32 le l1 with None => Err | Some (lsum, l2) =>
  let* p_ := (if 47 <=? version then match read_u32 le l2 with None => Err | Some r => Ok r end else Ok (0, l2)) in let '(csum, l3) := p_ in
  let* p_ := read_string le l3 in let '(nm, l4) := p_ in
  if version <? 80 then
    let* p_ := read_string le l4 in let '(file, l5) := p_ in
    match read_u32 le l5 with None => Err | Some (start, l6) =>
    Ok (mkFun ident start 0 lsum csum file nm [] [] 0, l6) end
  else
    match read_u32 le l4 with None => Err | Some (_, l5) =>
    let* p_ := read_string le l5 in let '(file, l6) := p_ in
    match read_u32 le l6 with None => Err | Some (start, l7) =>
    match read_u32 le l7 with None => Err | Some (_, l8) =>
    match read_u32 le l8 with None => Err | Some (endl, l9) =>
    if 90 <=? version then
      match read_u32 le l9 with None => Err | Some (_, l10) => Ok (mkFun ident start endl lsum csum file nm [] [] 0, l10) end
    else Ok (mkFun ident start endl lsum csum file nm [] [] 0, l9)
    end end end end
  end end.

(* read_functions: [funs] holds the functions in REVERSE push order (head = functions.last_mut()) *)
Fixpoint read_functions (fuel : nat) (funs : list gfun) (total : N) (l : bytes) : outcome (list gfun) :=
  match fuel with
  | O => OutOfFuel
  | S fuel =>
      match read_u32 le l with
      | None => Ok funs
      | Some (tag, l1) =>
          if tag =? 0 then Ok funs else
          match read_u32 le l1 with
          | None => Err
          | Some (length, l2) =>
              if tag =? TAG_FUNCTION then
                let* p_ := read_function l2 in let '(f, l3) := p_ in read_functions fuel (f :: funs) total l3
              else if tag =? TAG_BLOCKS then
                match funs with
                | [] => read_functions fuel funs total l2
                | f :: fs => let* p_ := read_blocks f length total l2 in let '(f', total', l3) := p_ in read_functions fuel (f' :: fs) total' l3
                end
              else if tag =? TAG_ARCS then
                match funs with
                | [] => read_functions fuel funs total l2
                | f :: fs => let* p_ := read_edges f length l2 in let '(f', l3) := p_ in read_functions fuel (f' :: fs) total l3
                end
              else if tag =? TAG_LINES then
                match funs with
                | [] => read_functions fuel funs total l2
                | f :: fs => let* p_ := read_lines fuel f l2 in let '(f', l3) := p_ in read_functions fuel (f' :: fs) total l3
                end
              else read_functions fuel funs total l2
          end
      end
  end.
End reader.

(* Gcno::read(FileType::Gcno, ..) *)
Definition read_gcno (buf : bytes) : outcome gcno :=
  match guess_endianness 111 110 99 103 buf with        (* "oncg" *)
  | None => Err
  | Some (le, l0) =>
      let* p_ := read_version le l0 in let '(version, l1) := p_ in
      match read_u32 le l1 with
      | None => Err
      | Some (checksum, l2) =>
          let* l3 := (if 90 <=? version then let* p_ := read_string le l2 in let '(_, l) := p_ in Ok l else Ok l2) in
          let* l4 := (if 80 <=? version then match skip 4 l3 with Some l => Ok l | None => Err end else Ok l3) in
          let* funs := read_functions le version (lenN buf) (S (length buf)) [] 0 l4 in
          Ok (mkGcno version checksum (rev funs) 0 0)
      end
  end.

(* ---- read_gcda ---- *)
(* ident_to_fun.get(&id): index of the last function pushed with that identifier *)
Fixpoint find_ident_aux (id : N) (fs : list gfun) (i : N) (found : option N) : option N :=
  match fs with
  | [] => found
  | f :: fs' => find_ident_aux id fs' (i + 1) (if f_ident f =? id then Some i else found)
  end.
Definition find_ident (id : N) (fs : list gfun) : option N := find_ident_aux id fs 0 None.

(* u64 `+=` is the parameter W: wrap64 for the release build (the instance every check runs), the identity for the
   statements that exclude overflow by hypothesis *)
Section arith.
Context (W : N -> N).
Definition add_block_counter (c : N) (b : gblock) : gblock :=
  mkBlock (b_no b) (b_src b) (b_dst b) (b_lines b) (b_line_max b) (W (b_counter b + c)).
(* `for edge in edges.iter_mut()`: a counter for every arc not on the tree, added to the arc and to its source block *)
Fixpoint add_counters (le : bool) (todo : list gedge) (done : list gedge) (blocks : list gblock) (l : bytes)
  : outcome (list gedge * list gblock * bytes) :=
  match todo with
  | [] => Ok (rev done, blocks, l)
  | e :: todo' =>
      if is_on_tree e then add_counters le todo' (e :: done) blocks l else
      match read_counter le l with
      | None => Err
      | Some (c, l') =>
          match nthN blocks (e_src e) with
          | None => Panic
          | Some _ =>
              add_counters le todo' (mkEdge (e_src e) (e_dst e) (e_flags e) (W (e_counter e + c)) (e_cycles e) :: done)
                           (alterN (add_block_counter c) (e_src e) blocks) l'
          end
      end
  end.

(* after each record: pos += 4*length counted from the position after the length word, whatever was read
   (release mode: `skip(pos - get_pos())` wraps to exactly that position), then the strict `pos < len` test *)
Definition next_record (length : N) (body : bytes) : option bytes := skip (4 * length) body.

Fixpoint read_gcda_loop (le : bool) (version : N) (fuel : nat) (g : gcno) (cur : option N) (l : bytes) : outcome gcno :=
  match fuel with
  | O => OutOfFuel
  | S fuel =>
      match read_u32 le l with
      | None => Ok g
      | Some (tag, l1) =>
          if tag =? 0 then Ok g else
          match read_u32 le l1 with
          | None => Err
          | Some (length, body) =>
              let continue g cur := match next_record length body with
                                    | None => Err
                                    | Some l' => read_gcda_loop le version fuel g cur l'
                                    end in
              if tag =? TAG_FUNCTION then
                if length =? 0 then read_gcda_loop le version fuel g cur body
                else if length =? 1 then Err
                else
                  match read_u32 le body with None => Err | Some (id, b1) =>
                  match read_u32 le b1 with None => Err | Some (lsum, b2) =>
                  let* csum := (if 47 <=? version then match read_u32 le b2 with None => Err | Some (c, _) => Ok c end else Ok 0) in
                  match find_ident id (g_funs g) with
                  | None => Err
                  | Some fid =>
                      match nthN (g_funs g) fid with
                      | None => Panic
                      | Some f => if negb (lsum =? f_line_sum f) || negb (csum =? f_cfg_sum f) then Err
                                  else continue g (Some fid)
                      end
                  end end end
              else if tag =? TAG_COUNTER_ARCS then
                match cur with
                | None => read_gcda_loop le version fuel g cur body
                | Some fid =>
                    match nthN (g_funs g) fid with
                    | None => Panic
                    | Some f =>
                        if negb (wrap32 (f_real f) =? length / 2) then Err else
                        let* p_ := add_counters le (f_edges f) [] (f_blocks f) body in let '(ed, bl, _) := p_ in
                        continue (set_funs g (alterN (fun f => set_graph f bl ed (f_real f)) fid (g_funs g))) cur
                    end
                end
              else if tag =? TAG_OBJECT_SUMMARY then
                match read_u32 le body with None => Err | Some (runcounts, b1) =>
                match skip 4 b1 with None => Err | Some b2 =>
                let* r := (if length =? 9 then match read_u32 le b2 with None => Err | Some (r, _) => Ok r end else Ok runcounts) in
                continue (mkGcno (g_version g) (g_checksum g) (g_funs g) (wrap32 (g_runs g + r)) (g_programs g)) cur
                end end
              else if tag =? TAG_PROGRAM_SUMMARY then
                let* g1 := (if 0 <? length then
                              match skip 4 body with None => Err | Some b1 =>
                              match skip 4 b1 with None => Err | Some b2 =>
                              match read_u32 le b2 with None => Err | Some (r, _) =>
                              Ok (mkGcno (g_version g) (g_checksum g) (g_funs g) (wrap32 (g_runs g + r)) (g_programs g))
                              end end end
                            else Ok g) in
                continue (mkGcno (g_version g1) (g_checksum g1) (g_funs g1) (g_runs g1) (wrap32 (g_programs g1 + 1))) cur
              else continue g cur
          end
      end
  end.

Definition read_gcda (g : gcno) (buf : bytes) : outcome gcno :=
  match guess_endianness 97 100 99 103 buf with         (* "adcg" *)
  | None => Err
  | Some (le, l0) =>
      let* p_ := read_version le l0 in let '(version, l1) := p_ in
      if negb (version =? g_version g) then Err else
      match read_u32 le l1 with
      | None => Err
      | Some (checksum, l2) =>
          if negb (checksum =? g_checksum g) then Err
          else read_gcda_loop le version (S (length buf)) g None l2
      end
  end.
End arith.
