(* Unix std::path as grcov uses it (DESIGN Appendix D).  Executable definitions only.
   A path is its component sequence: (has_root, segments).  `PathBuf` keeps raw bytes, but every
   operation of path_rewriting.rs looks at components only, and its results are rebuilt by `push`
   in normalize_path, so the component sequence determines them (checked by engine `pathfacts`). *)
From Grcov Require Export Base.Prelude.

Inductive seg := Cur | Up | Name (n : bytes).
Global Instance seg_eq_dec : EqDecision seg.
Proof. solve_decision. Defined.
Record path := mkPath { p_abs : bool; p_segs : list seg }.
Global Instance path_eq_dec : EqDecision path.
Proof. solve_decision. Defined.

(* boolean equalities (the decision procedures of stdpp compute proofs under vm_compute) *)
Fixpoint list_eqb {A} (e : A -> A -> bool) (a b : list A) : bool :=
  match a, b with
  | [], [] => true
  | x :: a, y :: b => e x y && list_eqb e a b
  | _, _ => false
  end.
Definition bytes_eqb : bytes -> bytes -> bool := list_eqb N.eqb.
Definition names_eqb : list bytes -> list bytes -> bool := list_eqb bytes_eqb.
Definition seg_eqb (s t : seg) : bool :=
  match s, t with
  | Cur, Cur => true
  | Up, Up => true
  | Name a, Name b => bytes_eqb a b
  | _, _ => false
  end.
Definition oseg_eqb (s t : option seg) : bool :=
  match s, t with
  | None, None => true
  | Some a, Some b => seg_eqb a b
  | _, _ => false
  end.

Definition SLASH : N := 47.
Definition DOT : N := 46.
Definition BACKSLASH : N := 92.

(* text between separators, left to right; always at least one piece *)
Fixpoint split_slash (b : bytes) : list bytes :=
  match b with
  | [] => [[]]
  | c :: b => if c =? SLASH then [] :: split_slash b
              else match split_slash b with
                   | w :: ws => (c :: w) :: ws
                   | [] => [[c]]
                   end
  end.

(* one piece as a component: empty pieces and "." vanish *)
Definition seg_of_raw (w : bytes) : option seg :=
  if bytes_eqb w [] then None
  else if bytes_eqb w [DOT] then None
  else if bytes_eqb w [DOT; DOT] then Some Up
  else Some (Name w).

Definition has_root (b : bytes) : bool := match b with c :: _ => c =? SLASH | [] => false end.

(* Path::components: RootDir for a leading '/', a leading "." of a relative path is kept as CurDir *)
Definition components (b : bytes) : path :=
  let raw := split_slash b in
  let lead := if negb (has_root b) && match raw with w :: _ => bytes_eqb w [DOT] | [] => false end then [Cur] else [] in
  mkPath (has_root b) (lead ++ omap seg_of_raw raw).

Definition seg_bytes (s : seg) : bytes := match s with Cur => [DOT] | Up => [DOT; DOT] | Name n => n end.
Fixpoint intercalate (ws : list bytes) : bytes :=
  match ws with
  | [] => []
  | [w] => w
  | w :: ws => w ++ SLASH :: intercalate ws
  end.
(* the bytes `push` builds *)
Definition render (p : path) : bytes :=
  (if p_abs p then [SLASH] else []) ++ intercalate (map seg_bytes (p_segs p)).

Definition is_empty (p : path) : bool := negb (p_abs p) && match p_segs p with [] => true | _ => false end.
Definition drop_cur (l : list seg) : list seg := match l with Cur :: t => t | _ => l end.

(* Path::join / PathBuf::push: an absolute right operand replaces; otherwise bytes are appended
   after a separator, so a leading "." of the right operand becomes interior and disappears *)
Definition pjoin (a b : path) : path :=
  if p_abs b then b
  else if is_empty a then b
  else mkPath (p_abs a) (p_segs a ++ drop_cur (p_segs b)).

(* the component list with RootDir as a component (None) *)
Definition clist (p : path) : list (option seg) := (if p_abs p then [None] else []) ++ map Some (p_segs p).
Definition of_clist (l : list (option seg)) : path :=
  match l with
  | None :: t => mkPath true (omap id t)
  | _ => mkPath false (omap id l)
  end.
Fixpoint prefix_b (l k : list (option seg)) : bool :=
  match l, k with
  | [], _ => true
  | x :: l, y :: k => oseg_eqb x y && prefix_b l k
  | _ :: _, [] => false
  end.
(* a.starts_with(b), a.ends_with(b), a.strip_prefix(b): whole components *)
Definition starts_with (a b : path) : bool := prefix_b (clist b) (clist a).
Definition ends_with (a b : path) : bool := prefix_b (rev (clist b)) (rev (clist a)).
Definition strip_pfx (a b : path) : option path :=
  if starts_with a b then Some (of_clist (drop (length (clist b)) (clist a))) else None.

(* Path::parent / PathBuf::pop *)
Definition parent (p : path) : option path :=
  match p_segs p with
  | [] => None
  | _ => Some (mkPath (p_abs p) (removelast (p_segs p)))
  end.
Fixpoint anc_rev (abs : bool) (rs : list seg) : list path :=
  mkPath abs (rev rs) :: match rs with [] => [] | _ :: t => anc_rev abs t end.
(* Path::ancestors: the path, its parent, ... down to "" or "/" *)
Definition ancestors (p : path) : list path := anc_rev (p_abs p) (rev (p_segs p)).

(* has_no_parent (path_rewriting.rs:40): parent() == Some("") *)
Definition has_no_parent (p : path) : bool :=
  match parent p with Some q => match clist q with [] => true | _ => false end | None => false end.

(* normalize_path (path_rewriting.rs:44-76).  `st` is `ret` without its root, last component first.
   CurDir is skipped, ParentDir pops (failing when nothing but the root or nothing at all is left),
   Normal pushes. *)
Fixpoint norm_go (st : list bytes) (l : list seg) : option (list bytes) :=
  match l with
  | [] => Some st
  | Cur :: l => norm_go st l
  | Up :: l => match st with [] => None | _ :: st' => norm_go st' l end
  | Name n :: l => norm_go (n :: st) l
  end.
Definition normalize_path (p : path) : option path :=
  match norm_go [] (p_segs p) with
  | Some st => Some (mkPath (p_abs p) (map Name (rev st)))
  | None => None
  end.

(* well-formedness of component sequences produced from bytes *)
Definition good_name (n : bytes) : bool :=
  negb (bytes_eqb n []) && negb (bytes_eqb n [DOT]) && negb (bytes_eqb n [DOT; DOT])
  && forallb (fun c => negb (c =? SLASH)) n.
Definition is_name (s : seg) : bool := match s with Name n => good_name n | _ => false end.
Definition seg_ok (s : seg) : bool := match s with Name n => good_name n | Up => true | Cur => false end.
(* Cur only as the first component of a relative path *)
Definition wf_path (p : path) : bool :=
  match p_segs p with
  | Cur :: t => negb (p_abs p) && forallb seg_ok t
  | l => forallb seg_ok l
  end.
(* normal form: names only *)
Definition normal (p : path) : bool := forallb is_name (p_segs p).

Definition is_up (s : seg) : bool := match s with Up => true | _ => false end.
Definition is_nm (s : seg) : bool := match s with Name _ => true | _ => false end.
Fixpoint count_b {A} (f : A -> bool) (l : list A) : nat :=
  match l with [] => O | x :: l => if f x then S (count_b f l) else count_b f l end.
Definition count_up (l : list seg) : nat := count_b is_up l.
Definition count_name (l : list seg) : nat := count_b is_nm l.
