(* parse_gcov_gz of src/parser.rs (gcov >= 9 JSON format), from the JSON value tree that
   serde_json's parser produced (gzip and JSON tokenising are not modelled: trusted, the harness
   reports the tree it saw).  Executable definitions only.

   A JSON number as serde_json::Number holds it (no arbitrary_precision feature):
   PosInt(u64) for integer literals that fit u64, NegInt(i64) for negative ones that fit i64,
   Float(f64) for everything else, including integer literals too large for u64/i64, "-0",
   and literals with fraction or exponent.  A finite binary64 is (-1)^neg * mant * 2^exp2
   exactly (NaN/inf cannot come out of the JSON parser: "number out of range"). *)
From Grcov Require Export Model.Cov.

Inductive jnum :=
  | JU (u : N)                          (* PosInt(u),  u < 2^64 *)
  | JI (a : N)                          (* NegInt(-a), 0 < a <= 2^63 *)
  | JF (neg : bool) (mant : N) (exp2 : Z).   (* Float *)

(* `value >= 0.0` : true for -0.0 *)
Definition f_ge0 (neg : bool) (mant : N) : bool := negb neg || (mant =? 0).
(* `value < u64::MAX as f64` for value >= 0 ; `u64::MAX as f64` rounds to 2^64 *)
Definition f_lt_two64 (mant : N) (exp2 : Z) : bool :=
  match exp2 with
  | Z.neg p => mant <? two64 * 2 ^ (Npos p)
  | _ => mant * 2 ^ (Z.to_N exp2) <? two64
  end.
(* `value as u64` for value >= 0: truncation toward zero, saturating at u64::MAX *)
Definition f_trunc (mant : N) (exp2 : Z) : N :=
  match exp2 with
  | Z.neg p => mant / 2 ^ (Npos p)
  | _ => mant * 2 ^ (Z.to_N exp2)
  end.
Definition f_as_u64 (mant : N) (exp2 : Z) : N := N.min (f_trunc mant exp2) U64_MAX.

(* deserialize_counter *)
Definition counter_of_number (n : jnum) : outcome N :=
  match n with
  | JF neg m e =>
      if f_ge0 neg m && f_lt_two64 m e then Ok (f_as_u64 m e)
      else Err                          (* falls through to n.as_u64() = None *)
  | JU u => Ok u
  | JI _ => Err
  end.

(* serde's u32 from a JSON number (visit_u64 with range check; visit_i64 / visit_f64 are type
   errors).  This is serde behaviour, included so that the boundary cases can be compared. *)
Definition u32_of_number (n : jnum) : outcome N :=
  match n with
  | JU u => if u <=? U32_MAX then Ok u else Err
  | _ => Err
  end.

(* the fields of the serde structs that parse_gcov_gz reads *)
Record jline := mkJLine { jl_number : jnum; jl_count : jnum; jl_branches : list jnum }.
Record jfun := mkJFun { jf_name : name (* demangled_name *); jf_start : jnum; jf_count : jnum }.
Record jfile := mkJFile { jfile_name : name; jfile_funs : list jfun; jfile_lines : list jline }.

(* after serde: GcovLine / GcovFunction / GcovFile with u32 / u64 fields *)
Record dline := mkDLine { dl_number : N; dl_count : N; dl_branches : list N }.
Record dfun := mkDFun { df_name : name; df_start : N; df_count : N }.
Record dfile := mkDFile { dfile_name : name; dfile_funs : list dfun; dfile_lines : list dline }.

Fixpoint omapM {A B} (f : A -> outcome B) (l : list A) : outcome (list B) :=
  match l with
  | [] => Ok []
  | x :: r => let* y := f x in let* ys := omapM f r in Ok (y :: ys)
  end.

Definition deser_line (l : jline) : outcome dline :=
  let* n := u32_of_number (jl_number l) in
  let* c := counter_of_number (jl_count l) in
  let* bs := omapM counter_of_number (jl_branches l) in
  Ok (mkDLine n c bs).
Definition deser_fun (f : jfun) : outcome dfun :=
  let* s := u32_of_number (jf_start f) in
  let* c := counter_of_number (jf_count f) in
  Ok (mkDFun (jf_name f) s c).
Definition deser_file (f : jfile) : outcome dfile :=
  let* fs := omapM deser_fun (jfile_funs f) in
  let* ls := omapM deser_line (jfile_lines f) in
  Ok (mkDFile (jfile_name f) fs ls).
Definition deser (t : list jfile) : outcome (list dfile) := omapM deser_file t.

(* the two loops over file.lines and file.functions.  A line shared by several functions is listed once per
   function: `let count = lines.entry(n).or_insert(0); *count = count.saturating_add(line.count)`, and, for a
   non-empty branch list, `branches.entry(n).or_insert_with(Vec::new).extend(branches.map(|b| b.count > 0))` *)
Definition add_line (acc : gmap N N * gmap N (list bool)) (l : dline) : gmap N N * gmap N (list bool) :=
  (<[dl_number l := sat_add64 (default 0 (acc.1 !! dl_number l)) (dl_count l)]> acc.1,
   match dl_branches l with
   | [] => acc.2
   | bs => <[dl_number l := default [] (acc.2 !! dl_number l) ++ map (fun c => 0 <? c) bs]> acc.2
   end).
(* the fold before the fix of C20/gcov-json-line-in-several-functions (the last entry of a line stood); kept for the
   regression statement only *)
Definition add_line_last_wins (acc : gmap N N * gmap N (list bool)) (l : dline) : gmap N N * gmap N (list bool) :=
  (<[dl_number l := dl_count l]> acc.1,
   match dl_branches l with
   | [] => acc.2
   | bs => <[dl_number l := map (fun c => 0 <? c) bs]> acc.2
   end).
Definition add_fun (m : gmap name func) (f : dfun) : gmap name func :=
  <[df_name f := mkFunc (df_start f) (0 <? df_count f)]> m.
Definition lines_empty_j (m : gmap N N) : bool := bool_decide (map_to_list m = []).
Definition conv_file (f : dfile) : list (name * cov) :=
  let '(lines, branches) := fold_left add_line (dfile_lines f) (∅, ∅) in
  if lines_empty_j lines then []
  else [(dfile_name f, mkCov lines branches (fold_left add_fun (dfile_funs f) ∅))].
Definition conv (t : list dfile) : list (name * cov) := concat (map conv_file t).

(* `serde_json::from_reader(gz).map_err(|e| ParserError::Parse(..))?`: a deserialisation error is an Err *)
Definition parse_gcov_gz_tree (t : list jfile) : outcome (list (name * cov)) :=
  match deser t with
  | Ok d => Ok (conv d)
  | _ => Err
  end.
