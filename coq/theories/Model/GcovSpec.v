(* What a well-formed gcov intermediate report SAYS (C09), independently of how grcov reads it.
   Text form (gcov <= 7): records, rendering to bytes, well-formedness, declarative meaning of a
   file section.  JSON form: declarative meaning of a deserialised file object and the exact value
   of a JSON number.  Executable definitions only (plus the Prop-valued specifications). *)
From Grcov Require Export Model.GcovText Model.GcovJson Base.Dec.
Import Coq.Strings.String.StringSyntax.

(* ------------------------------------------------------------------ text form *)
Inductive bkind := BTaken | BNotTaken | BNotExec.
Inductive grec :=
  | GFunction (start count : bytes) (nm : name)      (* function:<start>,[-]<count>,<nm> *)
  | GLcount (line : bytes) (neg : bool) (count : bytes)   (* lcount:<line>,[-]<count> *)
  | GBranch (line : bytes) (k : bkind)               (* branch:<line>,taken|nottaken|notexec *)
  | GOther (key text : bytes).                       (* <key>:<text>, a key grcov does not use (version:, ...) *)

Definition geol (crlf : bool) : bytes := if crlf then [13; 10] else [10].
Definition kind_text (k : bkind) : bytes :=
  match k with BTaken => bs "taken" | BNotTaken => bs "nottaken" | BNotExec => bs "notexec" end.
Definition render_grec (r : grec) : bytes :=
  match r with
  | GFunction s c nm => bs "function:" ++ s ++ [44] ++ c ++ [44] ++ nm
  | GLcount l neg c => bs "lcount:" ++ l ++ [44] ++ (if neg then [45] else []) ++ c
  | GBranch l k => bs "branch:" ++ l ++ [44] ++ kind_text k
  | GOther key text => key ++ [58] ++ text
  end.
Definition render_gline (r : grec * bool) : bytes := render_grec r.1 ++ geol r.2.

(* a section = one `file:` record and what follows it up to the next `file:` *)
Record gsection := mkGSection { gs_name : name; gs_crlf : bool; gs_recs : list (grec * bool) }.
(* a report: lines before the first `file:` (only unused keys, e.g. `version:`), then sections *)
Record greport := mkGReport { gr_pre : list (grec * bool); gr_sections : list gsection }.
Definition render_gsection (s : gsection) : bytes :=
  bs "file:" ++ gs_name s ++ geol (gs_crlf s) ++ concat (map render_gline (gs_recs s)).
Definition render_greport (f : greport) : bytes :=
  concat (map render_gline (gr_pre f)) ++ concat (map render_gsection (gr_sections f)).

(* --- well-formedness (decidable) --- *)
Definition gdigits (d : bytes) : bool := negb (bool_decide (d = [])) && forallb g_is_digit d.
(* decimal without leading zeros, as printf prints it *)
Definition canon_dec (d : bytes) : bool :=
  gdigits d && (bool_decide (d = [48]) || negb (bool_decide (head d = Some 48))).
(* a function's call count as gcov prints it: a canonical decimal, or - old gcov printing a counter above 2^63 through a
   signed type - a minus sign followed by a non-zero canonical decimal *)
Definition canon_signed (c : bytes) : bool :=
  canon_dec c || match c with x :: d => (x =? 45) && canon_dec d && negb (bool_decide (d = [48])) | [] => false end.
(* "the call count is not zero" (the negative-reads-as-zero rule is for line counts only) *)
Definition count_nonzero (c : bytes) : bool :=
  match c with x :: d => if x =? 45 then negb (dec_val d =? 0) else negb (dec_val c =? 0) | [] => false end.
Definition not_lf (c : N) : bool := negb (c =? 10).
(* text of a line: no LF inside, and it does not end with CR (remove_newline would eat it) *)
Definition text_ok (t : bytes) : bool :=
  forallb not_lf t && match last t with Some c => negb (is_nl c) | None => true end.
Definition key_ok (k : bytes) : bool :=
  forallb (fun c => not_lf c && negb (c =? 58)) k &&
  negb (bool_decide (k ∈ [k_file; k_function; k_lcount; k_branch])).
Definition wf_grec (r : grec) : bool :=
  match r with
  | GFunction s c nm => gdigits s && (dec_val s <? two32) && canon_signed c && text_ok nm
  | GLcount l neg c => gdigits l && (dec_val l <? two32) && gdigits c && (neg || (dec_val c <? two64))
  | GBranch l k => gdigits l && (dec_val l <? two32)
  | GOther key text => key_ok key && text_ok text
  end.
Definition is_other (r : grec) : bool := match r with GOther _ _ => true | _ => false end.
Definition wf_gsection (s : gsection) : bool :=
  text_ok (gs_name s) && forallb (fun r => wf_grec r.1) (gs_recs s).
Definition wf_greport (f : greport) : bool :=
  forallb (fun r => wf_grec r.1 && is_other r.1) (gr_pre f) && forallb wf_gsection (gr_sections f).

(* --- meaning of the records of one section --- *)
Definition is_taken (k : bkind) : bool := match k with BTaken => true | _ => false end.
Definition lcount_at (n : N) (r : grec) : option N :=
  match r with
  | GLcount l neg c => if dec_val l =? n then Some (if neg then 0 else dec_val c) else None
  | _ => None
  end.
Definition branch_at (n : N) (r : grec) : option bool :=
  match r with
  | GBranch l k => if dec_val l =? n then Some (is_taken k) else None
  | _ => None
  end.
Definition function_at (f : name) (r : grec) : option func :=
  match r with
  | GFunction s c nm => if bool_decide (nm = f) then Some (mkFunc (dec_val s) (count_nonzero c)) else None
  | _ => None
  end.
(* the count of line n: what its lcount record says, a negative count being 0
   (gcov lists a line once per section; were it listed twice, the later record stands) *)
Definition spec_gline (rs : list grec) (n : N) : option N := last (omap (lcount_at n) rs).
(* the outcomes of the branch records of line n, in record order *)
Definition spec_gbranch (rs : list grec) (n : N) : option (list bool) :=
  match omap (branch_at n) rs with [] => None | v => Some v end.
Definition spec_gfunc (rs : list grec) (f : name) : option func := last (omap (function_at f) rs).

Definition gsec_spec (rs : list grec) (c : cov) : Prop :=
  (forall n, c_lines c !! n = spec_gline rs n) /\
  (forall n, c_branches c !! n = spec_gbranch rs n) /\
  (forall f, c_funcs c !! f = spec_gfunc rs f).
Definition is_lcount (r : grec) : bool := match r with GLcount _ _ _ => true | _ => false end.
Definition has_lcount (s : gsection) : bool := existsb (fun r => is_lcount r.1) (gs_recs s).
(* the results a report stands for: its sections that list at least one line, in order, each with
   the record its records describe *)
Definition greport_spec (f : greport) (rs : list (name * cov)) : Prop :=
  Forall2 (fun s r => r.1 = gs_name s /\ gsec_spec (gs_recs s).*1 r.2) (filter (fun s => has_lcount s = true) (gr_sections f)) rs.

(* executable form for the correspondence check and the Examples *)
Definition gdenote (rs : list grec) : cov :=
  mkCov (list_to_map (omap (fun r => match r with GLcount l _ _ => (fun c => (dec_val l, c)) <$> spec_gline rs (dec_val l) | _ => None end) rs))
        (list_to_map (omap (fun r => match r with GBranch l _ => (fun v => (dec_val l, v)) <$> spec_gbranch rs (dec_val l) | _ => None end) rs))
        (list_to_map (omap (fun r => match r with GFunction _ _ nm => (fun g => (nm, g)) <$> spec_gfunc rs nm | _ => None end) rs)).
Definition greport_denote (f : greport) : list (name * cov) :=
  omap (fun s => if has_lcount s then Some (gs_name s, gdenote (gs_recs s).*1) else None) (gr_sections f).

(* ------------------------------------------------------------------ JSON form *)
(* meaning of a deserialised file object (counters already u64) *)
Definition jline_at (n : N) (l : dline) : option N := if dl_number l =? n then Some (dl_count l) else None.
Definition jbranch_at (n : N) (l : dline) : option (list bool) :=
  if dl_number l =? n then match dl_branches l with [] => None | b => Some (map (fun c => 0 <? c) b) end else None.
Definition jfunc_at (f : name) (g : dfun) : option func :=
  if bool_decide (df_name g = f) then Some (mkFunc (df_start g) (0 <? df_count g)) else None.
(* gcov lists a line of a file once per function that contains it (several functions on one line, template
   instances, inlined copies): the line ran as often as all of them together, clamped at 2^64-1, and its branches
   are those of every entry, in entry order *)
Definition sum_N (l : list N) : N := fold_right N.add 0 l.
Definition spec_jline (ls : list dline) (n : N) : option N :=
  match omap (jline_at n) ls with [] => None | cs => Some (N.min (sum_N cs) U64_MAX) end.
Definition spec_jbranch (ls : list dline) (n : N) : option (list bool) :=
  match omap (jbranch_at n) ls with [] => None | vs => Some (concat vs) end.
(* a function listed twice under one demangled name: the later entry stands *)
Definition spec_jfunc (fs : list dfun) (f : name) : option func := last (omap (jfunc_at f) fs).
Definition jfile_spec (f : dfile) (c : cov) : Prop :=
  (forall n, c_lines c !! n = spec_jline (dfile_lines f) n) /\
  (forall n, c_branches c !! n = spec_jbranch (dfile_lines f) n) /\
  (forall g, c_funcs c !! g = spec_jfunc (dfile_funs f) g).
(* the entries of line n, in entry order *)
Definition entries_of (n : N) (ls : list dline) : list dline := filter (fun l => dl_number l = n) ls.
(* witness of the repaired finding C20/gcov-json-line-in-several-functions: `int f(..){..} int g(..){..}` on line 1,
   f run 3 times, g never; gcov lists line 1 once for f and once for g *)
Definition witness_two_functions_one_line : list dline := [mkDLine 1 3 [3; 0]; mkDLine 1 0 [0; 0]].
Definition has_jline (f : dfile) : bool := match dfile_lines f with [] => false | _ => true end.
Definition jreport_spec (t : list dfile) (rs : list (name * cov)) : Prop :=
  Forall2 (fun f r => r.1 = dfile_name f /\ jfile_spec f r.2) (filter (fun f => has_jline f = true) t) rs.

(* what serde_json::Number can hold *)
Definition jnum_wf (n : jnum) : bool :=
  match n with JU u => u <=? U64_MAX | JI a => (0 <? a) && (a <=? 9223372036854775808) | JF _ _ _ => true end.
(* what serde left of a tree: field by field *)
Definition line_rel (j : jline) (d : dline) : Prop :=
  u32_of_number (jl_number j) = Ok (dl_number d) /\ counter_of_number (jl_count j) = Ok (dl_count d) /\
  Forall2 (fun x y => counter_of_number x = Ok y) (jl_branches j) (dl_branches d).
Definition fun_rel (j : jfun) (d : dfun) : Prop :=
  df_name d = jf_name j /\ u32_of_number (jf_start j) = Ok (df_start d) /\ counter_of_number (jf_count j) = Ok (df_count d).
Definition file_rel (j : jfile) (d : dfile) : Prop :=
  dfile_name d = jfile_name j /\ Forall2 fun_rel (jfile_funs j) (dfile_funs d) /\ Forall2 line_rel (jfile_lines j) (dfile_lines d).

(* exact value of a JSON number, as far as a counter is concerned: floor of the value when it is
   non-negative ([None] when negative) *)
Definition jnum_floor (n : jnum) : option N :=
  match n with
  | JU u => Some u
  | JI _ => None
  | JF neg m e => if f_ge0 neg m then Some (f_trunc m e) else None
  end.
