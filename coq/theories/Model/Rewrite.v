(* rewrite_paths (src/path_rewriting.rs:232-406), is_covered (src/filter.rs), the keying of add_results
   (src/lib.rs:109-119), over an explicit finite filesystem value.  Executable definitions only.
   Outside the model (see the check's trusted base): glob matching (verdict functions are parameters),
   the Java/Kotlin partial-path lookup (no key ends in .java/.kt), Windows branches, Unicode case
   mapping of a non-ASCII first character in apply_mapping, exclusion markers (C16). *)
From Grcov Require Export Model.Paths Model.Cov Model.Merge.

(* ---- the filesystem: absolute name lists of directories and regular files, symlinks, cwd ---- *)
Record fsys := mkFs {
  fs_dirs : list (list bytes);              (* "/" itself is always a directory *)
  fs_files : list (list bytes);
  fs_links : list (list bytes * path);      (* location -> target as written in the link *)
  fs_cwd : list bytes                       (* the process' working directory *)
}.
Definition is_dir_at (fs : fsys) (l : list bytes) : bool := match l with [] => true | _ => existsb (names_eqb l) (fs_dirs fs) end.
Definition is_file_at (fs : fsys) (l : list bytes) : bool := existsb (names_eqb l) (fs_files fs).
Fixpoint assoc_by {A B} (e : A -> A -> bool) (k : A) (l : list (A * B)) : option B :=
  match l with [] => None | (k', v) :: l => if e k k' then Some v else assoc_by e k l end.
Definition assoc {B} := @assoc_by bytes B bytes_eqb.

(* POSIX path walk with symlink expansion; fuel bounds the number of steps (ELOOP / give up) *)
Fixpoint walk (fs : fsys) (fuel : nat) (cur : list bytes) (todo : list seg) : option (list bytes) :=
  match fuel with
  | O => None
  | S fuel =>
    match todo with
    | [] => Some cur
    | Cur :: t => walk fs fuel cur t
    | Up :: t => walk fs fuel (removelast cur) t
    | Name n :: t =>
      let c' := cur ++ [n] in
      match assoc_by names_eqb c' (fs_links fs) with
      | Some tgt => walk fs fuel (if p_abs tgt then [] else cur) (p_segs tgt ++ t)
      | None =>
        if is_dir_at fs c' then walk fs fuel c' t
        else if is_file_at fs c' then (match t with [] => Some c' | _ => None end)
        else None
      end
    end
  end.
Definition WALK_FUEL : nat := N.to_nat 4000.
Definition resolve (fs : fsys) (p : path) : option (list bytes) :=
  if is_empty p then None
  else walk fs WALK_FUEL (if p_abs p then [] else fs_cwd fs) (p_segs p).
(* fs::canonicalize, Path::is_file, Path::exists (all follow symlinks) *)
Definition canonicalize (fs : fsys) (p : path) : option path :=
  match resolve fs p with Some l => Some (mkPath true (map Name l)) | None => None end.
Definition is_file (fs : fsys) (p : path) : bool :=
  match resolve fs p with Some l => is_file_at fs l | None => false end.
Definition exists_ (fs : fsys) (p : path) : bool :=
  match resolve fs p with Some _ => true | None => false end.

(* ---- is_covered (filter.rs) ---- *)
Definition TOP_LEVEL : bytes := [116; 111; 112; 45; 108; 101; 118; 101; 108].   (* "top-level" *)
Definition is_covered (c : cov) : bool :=
  let any_line := existsb (fun '(_, n) => negb (n =? 0)) (map_to_list (c_lines c)) in
  if negb any_line then false
  else
    let fl := map_to_list (c_funcs c) in
    (length fl <=? 1)%nat || existsb (fun '(n, f) => f_exec f && negb (bytes_eqb n TOP_LEVEL)) fl.
Definition filter_ok (f : option bool) (c : cov) : bool :=
  match f with
  | Some true => is_covered c
  | Some false => negb (is_covered c)
  | None => true
  end.

(* ---- options of one rewrite_paths call ---- *)
Record opts := mkOpts {
  o_mapping : option (list (bytes * bytes));   (* the JSON object of --path-mapping: key -> string value *)
  o_source : option path;                      (* source_dir *)
  o_prefix : option path;                      (* prefix_dir *)
  o_ine : bool;                                (* --ignore-not-existing *)
  o_ignore : bytes -> bool;                    (* to_ignore_globset.is_match, on the bytes of the path *)
  o_keep : option (bytes -> bool);             (* None: to_keep_globset is empty *)
  o_filter : option bool                       (* --filter covered = Some true / uncovered = Some false *)
}.
Definition no_glob : bytes -> bool := fun _ => false.
Definition with_ignore (o : opts) (g : bytes -> bool) : opts :=
  mkOpts (o_mapping o) (o_source o) (o_prefix o) (o_ine o) g (o_keep o) (o_filter o).
Definition with_keep (o : opts) (k : option (bytes -> bool)) : opts :=
  mkOpts (o_mapping o) (o_source o) (o_prefix o) (o_ine o) (o_ignore o) k (o_filter o).
Definition with_filter (o : opts) (f : option bool) : opts :=
  mkOpts (o_mapping o) (o_source o) (o_prefix o) (o_ine o) (o_ignore o) (o_keep o) f.

Definition replace_bs (b : bytes) : bytes := map (fun c => if c =? BACKSLASH then SLASH else c) b.
Definition lower_first (b : bytes) : bytes :=
  match b with c :: t => (if (65 <=? c) && (c <=? 90) then c + 32 else c) :: t | [] => [] end.
Definition upper_first (b : bytes) : bytes :=
  match b with c :: t => (if (97 <=? c) && (c <=? 122) then c - 32 else c) :: t | [] => [] end.

(* apply_mapping (79-89) *)
Definition apply_mapping (m : option (list (bytes * bytes))) (k : bytes) : path :=
  match m with
  | Some m =>
    match assoc (lower_first k) m with
    | Some v => components v
    | None => match assoc (upper_first k) m with Some v => components v | None => components k end
    end
  | None => components k
  end.

(* remove_prefix (108-116) *)
Definition remove_prefix (pd : option path) (p : path) : path :=
  match pd with
  | Some d => match strip_pfx p d with Some r => r | None => p end
  | None => p
  end.

Section WithFs.
Variable fs : fsys.

(* guess_abs_path (94-105) *)
Definition guess_abs_path (sd p : path) : path :=
  let full := pjoin sd p in
  if is_file fs full then full
  else match List.find (fun a => ends_with sd a && negb (is_empty a)) (ancestors p) with
       | Some a => match strip_pfx p a with
                   | Some r => pjoin sd r
                   | None => full            (* unreachable: a is an ancestor of p *)
                   end
       | None => full
       end.

(* fixup_rel_path (118-128) *)
Definition fixup_rel_path (sd : option path) (abs rel : path) : path :=
  match sd with
  | Some d => match strip_pfx abs d with
              | Some r => r
              | None => if p_abs rel then abs else rel
              end
  | None => rel
  end.

(* get_abs_path (131-160), split so that theorems can name the intermediate absolute path *)
Definition abs_candidate (sd : option path) (rel : path) : path :=
  let a0 := if p_abs rel then rel
            else match sd with Some d => guess_abs_path d rel | None => rel end in
  match canonicalize fs a0 with Some c => c | None => a0 end.
Definition get_abs_path (sd : option path) (rel : path) : option (path * path) :=
  let a1 := abs_candidate sd rel in
  let r1 := fixup_rel_path sd a1 rel in
  match normalize_path a1, normalize_path r1 with
  | Some a, Some r => Some (a, r)
  | _, _ => None
  end.

(* the two paths of a key before any selection: (abs_path, rel_path) of line 356 *)
Definition rewritten (o : opts) (key : bytes) : option (path * path) :=
  get_abs_path (o_source o) (remove_prefix (o_prefix o) (apply_mapping (o_mapping o) (replace_bs key))).

(* the selection decisions of lines 358-400 for a rewritten key *)
Definition selected (o : opts) (a r : path) (c : cov) : bool :=
  negb (o_ignore o (render r))
  && match o_keep o with None => true | Some g => g (render r) end
  && (negb (o_ine o) || exists_ fs a)
  && filter_ok (o_filter o) c.

(* the closure of lines 335-403 for one (key, result) pair; the reported rel path is a string *)
Definition rewrite_one (o : opts) (key : bytes) (c : cov) : option (path * bytes * cov) :=
  match rewritten o key with
  | None => None
  | Some (a, r) =>
    if o_ignore o (render r) then None
    else if match o_keep o with None => false | Some g => negb (g (render r)) end then None
    else if o_ine o && negb (exists_ fs a) then None
    else if filter_ok (o_filter o) c then Some (a, replace_bs (render r), c)
    else None
  end.
Definition rewrite_list (o : opts) (kvs : list (bytes * cov)) : list (path * bytes * cov) :=
  omap (fun '(k, c) => rewrite_one o k c) kvs.

(* the whole call: the assert on source_dir and the unwrap in to_lowercase_first("") *)
Definition rewrite_paths (o : opts) (m : gmap bytes cov) : outcome (list (path * bytes * cov)) :=
  if match o_source o with Some d => negb (p_abs d) | None => false end then Panic
  else if match o_mapping o with Some _ => bool_decide (is_Some (m !! [])) | None => false end then Panic
  else Ok (rewrite_list o (map_to_list m)).

(* add_results (lib.rs:109-119): the key under which a parsed record is stored *)
Definition add_key (sd : option path) (k : bytes) : bytes :=
  match sd with
  | Some d => match canonicalize fs (pjoin d (components k)) with Some p => render p | None => k end
  | None => k
  end.
Definition add_results_sd (sd : option path) (m : filemap) (rs : list (bytes * cov)) : filemap :=
  add_results m (map (fun '(k, c) => (add_key sd k, c)) rs).

(* ---- merge_same_paths (path_rewriting.rs, after rewrite_paths; main.rs calls
   `merge_same_paths(rewrite_paths(.., None, ..), filter_option)`): one record per rewritten path, data merged
   by merge_results, --filter decided on the merged record.  The index is keyed by PathBuf, whose equality
   is equality of components: `ckey` is the canonical spelling of the component sequence.  The first record of
   a group (in the order of the input vector, which is hash order) lends its abs_path and rel_path. ---- *)
Definition ckey (r : bytes) : bytes := render (components r).
Definition merge_step (m : gmap bytes (path * bytes * cov)) (t : path * bytes * cov) : gmap bytes (path * bytes * cov) :=
  let '(a, r, c) := t in
  match m !! ckey r with
  | Some (a0, r0, c0) => <[ckey r := (a0, r0, merge c0 c)]> m
  | None => <[ckey r := (a, r, c)]> m
  end.
Definition merge_by_rel (rs : list (path * bytes * cov)) : gmap bytes (path * bytes * cov) := foldl merge_step ∅ rs.
Definition merge_same_paths (rs : list (path * bytes * cov)) (f : option bool) : list (path * bytes * cov) :=
  List.filter (fun '(_, _, c) => filter_ok f c) (map snd (map_to_list (merge_by_rel rs))).
(* what a report is made of: the composition as main.rs writes it *)
Definition report_list (o : opts) (kvs : list (bytes * cov)) : list (path * bytes * cov) :=
  merge_same_paths (rewrite_list (with_filter o None) kvs) (o_filter o).
Definition report_paths (o : opts) (m : gmap bytes cov) : outcome (list (path * bytes * cov)) :=
  match rewrite_paths (with_filter o None) m with
  | Ok rs => Ok (merge_same_paths rs (o_filter o))
  | Err => Err | Panic => Panic | OutOfFuel => OutOfFuel
  end.
End WithFs.
