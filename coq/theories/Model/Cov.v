(* The coverage record of grcov (src/defs.rs: CovResult, Function) and the
   result map (CovResultMap).  Executable definitions only. *)
From Grcov Require Export Base.Prelude.

Record func := mkFunc { f_start : N; f_exec : bool }.
Record cov := mkCov {
  c_lines : gmap N N;                 (* BTreeMap<u32,u64> *)
  c_branches : gmap N (list bool);    (* BTreeMap<u32,Vec<bool>> *)
  c_funcs : gmap name func            (* FxHashMap<String,Function> *)
}.
Definition empty_cov : cov := mkCov ∅ ∅ ∅.
Notation filemap := (gmap name cov).

Global Instance func_eq_dec : EqDecision func.
Proof. solve_decision. Defined.

(* The aggregate C01 talks about: line counts, branch outcomes, function flags.
   The start line is kept apart (inputs may disagree about it). *)
Record ocov := mkOcov {
  o_lines : gmap N N;
  o_branches : gmap N (list bool);
  o_exec : gmap name bool
}.
Definition obs (c : cov) : ocov := mkOcov (c_lines c) (c_branches c) (f_exec <$> c_funcs c).
Definition obs_map (m : filemap) : gmap name ocov := obs <$> m.

(* Plain-list interchange form used by the correspondence check. *)
Definition cov_l : Type := list (N * N) * list (N * list bool) * list (name * (N * bool)).
Definition cov_of_l (c : cov_l) : cov :=
  let '(ls, bs, fs) := c in
  mkCov (list_to_map ls) (list_to_map bs)
        (list_to_map (map (fun '(n, (s, e)) => (n, mkFunc s e)) fs)).
Definition cov_to_l (c : cov) : cov_l :=
  (map_to_list (c_lines c), map_to_list (c_branches c),
   map (fun '(n, f) => (n, (f_start f, f_exec f))) (map_to_list (c_funcs c))).
