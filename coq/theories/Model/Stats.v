(* Summary figures of the reports (C13): the integer parts exactly, the rates as exact rationals followed by the
   format's rounding, and the decision each format takes when the denominator is zero.
   Sources: src/output.rs (output_lcov 241-314, output_markdown 621-688, output_activedata_etl 74-182),
   src/covdir.rs (CDStats, CDFileStats::get_coverage, CDDirStats::set_stats), src/cobertura.rs (CoverageStats),
   src/html.rs (get_stats, HtmlStats::add, get_percentage_of_covered_lines, gen_badge, gen_coverage_json).
   Executable definitions only. *)
From Grcov Require Export Model.Cov Model.LcovOut.
From Coq Require Export QArith Qround.
Open Scope N_scope.

Definition nlen {A} (l : list A) : N := N.of_nat (length l).
(* .filter(|v| *v > 0).count() over the (line, count) pairs *)
Definition covered_lines (ls : list (N * N)) : N := nlen (filter (fun p => 0 <? p.2 = true) ls).
Definition branch_total (bl : list (N * list bool)) : N := nlen (concat (map snd bl)).
Definition branch_hit (bl : list (N * list bool)) : N := count_true (concat (map snd bl)).
Definition funcs_hit (fs : list (name * func)) : N := nlen (filter (fun p => f_exec p.2 = true) fs).

(* --- lcov: the six numbers written by output_lcov (FNF/FNH only when there is a function) --- *)
Record lcov_summ := mkLcovSumm { s_LF : N; s_LH : N; s_BRF : N; s_BRH : N; s_FN : option (N * N) }.
Definition lcov_summary (c : cov) : lcov_summ :=
  let fs := map_to_list (c_funcs c) in
  mkLcovSumm (nlen (map_to_list (c_lines c))) (covered_lines (map_to_list (c_lines c)))
             (branch_total (map_to_list (c_branches c))) (branch_hit (map_to_list (c_branches c)))
             (match fs with [] => None | _ => Some (nlen fs, funcs_hit fs) end).

(* --- rates ---------------------------------------------------------------------------------- *)
(* what a float computation can yield here: a number, or NaN (0/0) *)
Inductive rate := RNum (q : Q) | RNaN.
Definition is_finite (r : rate) : bool := match r with RNum _ => true | RNaN => false end.
Definition NQ (n : N) : Q := inject_Z (Z.of_N n).
Definition pow10 (p : N) : Q := inject_Z (Z.of_N (10 ^ p)).
(* x / y as a float division: NaN for 0/0 (x <= y in all uses, so no infinity arises) *)
Definition fdiv (x y : N) : rate := if y =? 0 then RNaN else RNum (NQ x / NQ y)%Q.
(* round half away from zero of a non-negative rational to an integer: f64::round *)
Definition qround (q : Q) : Z := Qfloor (q + (1 # 2))%Q.
(* `round(x * 10^k) / 10^p`, and `{:.p$}` printing: the nearest multiple of 10^-p *)
Definition round_to (p : N) (q : Q) : Q := (inject_Z (qround (q * pow10 p)) / pow10 p)%Q.

(* covdir: CDStats::get_percent(x, y, precision): round(x / y * 10^(p+2)) / 10^p, 0.0 when y = 0 *)
Definition covdir_percent (x y p : N) : rate :=
  if y =? 0 then RNum 0 else RNum (inject_Z (qround (NQ x / NQ y * pow10 (p + 2))) / pow10 p)%Q.
(* cobertura: line_rate / branch_rate: covered / valid, 0.0 when valid = 0 (printed by f64 Display) *)
Definition cobertura_rate (x y : N) : rate := if 0 <? y then RNum (NQ x / NQ y)%Q else RNum 0.
(* html: get_percentage_of_covered_lines, 100.0 when the total is 0; the templates print round(precision) of it *)
Definition html_percent (x y : N) : rate := if y =? 0 then RNum 100 else RNum (NQ x / NQ y * 100)%Q.
Definition html_shown (x y p : N) : rate := match html_percent x y with RNum q => RNum (round_to p q) | RNaN => RNaN end.
(* badge: the same number `as usize` *)
Definition badge_percent (x y : N) : option Z := match html_percent x y with RNum q => Some (Qfloor q) | RNaN => None end.
(* markdown: percentage(covered, total) = 100.0 when total = 0 (fix: commit 340319e), else
   covered as f32 * 100.0 / total as f32; printed with {:.p$} *)
Definition markdown_percent (x y p : N) : rate :=
  if y =? 0 then RNum (round_to p 100) else RNum (round_to p (NQ (x * 100) / NQ y)).
(* ActiveData-ETL: covered.len() as f32 / (covered.len() + uncovered.len()) as f32, no guard *)
Definition ade_percent (cov_ unc : N) : rate := fdiv cov_ (cov_ + unc).

(* the printed number as an integer count of units 10^-p (what the correspondence check compares) *)
Definition rate_units (p : N) (r : rate) : option Z :=
  match r with RNum q => Some (qround (q * pow10 p)%Q) | RNaN => None end.

(* --- covdir --------------------------------------------------------------------------------- *)
Record cdstats := mkCD { cd_total : N; cd_covered : N; cd_missed : N }.
Definition cd0 : cdstats := mkCD 0 0 0.
(* CDStats::new: missed = total - covered *)
Definition cdstats_new (total covered : N) : cdstats := mkCD total covered (total - covered).
(* CDStats::add *)
Definition cdstats_add (a b : cdstats) : cdstats :=
  mkCD (cd_total a + cd_total b) (cd_covered a + cd_covered b) (cd_missed a + cd_missed b).
(* CDFileStats::get_coverage: total = coverage.len(); covered counts the lines with count > 0 that have a slot in the
   array, i.e. line number >= 1 (line 0 computes index 0 - 1, which wraps and is out of range) *)
Definition cd_file_stats (m : gmap N N) : cdstats :=
  cdstats_new (nlen (map_to_list m)) (nlen (filter (fun p => (1 <=? p.1) && (0 <? p.2) = true) (map_to_list m))).

(* the directory tree built by output_covdir, and CDDirStats::set_stats over it *)
Inductive cdtree := CDNode (nm : name) (files : list (name * gmap N N)) (dirs : list cdtree).
Definition cdt_name (t : cdtree) : name := match t with CDNode nm _ _ => nm end.
Fixpoint cd_set_stats (t : cdtree) : cdstats :=
  match t with
  | CDNode _ fs ds =>
      foldl cdstats_add (foldl cdstats_add cd0 (map (fun f => cd_file_stats f.2) fs)) (map cd_set_stats ds)
  end.
(* every file below a node *)
Fixpoint cd_all_files (t : cdtree) : list (gmap N N) :=
  match t with CDNode _ fs ds => map snd fs ++ concat (map cd_all_files ds) end.
Definition sumN (l : list N) : N := foldr N.add 0 l.

(* --- cobertura ------------------------------------------------------------------------------ *)
(* CoverageStats (the f64 fields hold integers), from the class lines: (number, hits, Some conditions | None) *)
Record cobstats := mkCob { lines_covered : N; lines_valid : N; branches_covered : N; branches_valid : N }.
Definition cob0 : cobstats := mkCob 0 0 0 0.
Definition cob_add (a b : cobstats) : cobstats :=
  mkCob (lines_covered a + lines_covered b) (lines_valid a + lines_valid b)
        (branches_covered a + branches_covered b) (branches_valid a + branches_valid b).
Definition cob_from_lines (ls : list (N * N * option (list bool))) : cobstats :=
  mkCob (nlen (filter (fun l => 0 <? l.1.2 = true) ls)) (nlen ls)
        (count_true (concat (omap snd ls))) (nlen (concat (omap snd ls))).

(* --- html ----------------------------------------------------------------------------------- *)
Record hstats := mkHS { h_tl : N; h_cl : N; h_tf : N; h_cf : N; h_tb : N; h_cb : N }.
Definition hs0 : hstats := mkHS 0 0 0 0 0 0.
Definition hs_add (a b : hstats) : hstats :=
  mkHS (h_tl a + h_tl b) (h_cl a + h_cl b) (h_tf a + h_tf b) (h_cf a + h_cf b) (h_tb a + h_tb b) (h_cb a + h_cb b).
(* get_stats *)
Definition html_get_stats (c : cov) : hstats :=
  mkHS (nlen (map_to_list (c_lines c))) (covered_lines (map_to_list (c_lines c)))
       (nlen (map_to_list (c_funcs c))) (funcs_hit (map_to_list (c_funcs c)))
       (branch_total (map_to_list (c_branches c))) (branch_hit (map_to_list (c_branches c))).
(* get_dirs_result, for the files that are reported (relative path, readable source), in any processing order:
   global.stats.add(stats); dirs.entry(parent): Vacant -> stats.clone(), Occupied -> add *)
Definition html_dir_step (ds : gmap name hstats) (f : name * hstats) : gmap name hstats :=
  partial_alter (fun o => match o with Some d => Some (hs_add d f.2) | None => Some f.2 end) f.1 ds.
Definition html_dirs (fs : list (name * hstats)) : gmap name hstats := foldl html_dir_step ∅ fs.
Definition html_global (fs : list (name * hstats)) : hstats := foldl hs_add hs0 (map snd fs).
