(* parse_jacoco_xml_report and its helpers (src/parser.rs:626-871) over the EVENT list that quick-xml 0.37
   produces (Reader with expand_empty_elements = true, trim_text(false)).  Tokenising, attribute splitting and
   unescaping are quick-xml's and enter as data (recorded by the harness engine `jacoco`); the recursive descent,
   the attribute look-ups, the integer parsing, the class -> file mapping, the name construction and the result
   assembly are transcribed.  Executable definitions only. *)
From Grcov Require Export Model.Cov Base.Dec.
Import Coq.Strings.String.StringSyntax.

(* One item of `e.attributes()` (an iterator of Result<Attribute, AttrError>, with_checks = true):
   AOk key raw un : key bytes (qualified name), the raw value bytes between the quotes, and the result of
                    `decode_and_unescape_value(reader.decoder())` (None = Err: bad UTF-8 or bad entity);
   ABad           : the iterator returned Err (syntax error, duplicate key).  Every consumer returns on it. *)
Inductive xattr := AOk (k raw : bytes) (un : option bytes) | ABad.
(* One `read_event_into` result.  Names are `local_name()` (namespace prefix removed).  Empty elements do not
   occur (expanded into Start/End).  Text = Text/CData; Other = Comment, Decl, PI, DocType.  After Eof or an
   error the reader is Done and returns Eof for ever: an exhausted list reads as Eof. *)
Inductive xev := EStart (name : bytes) (attrs : list xattr) | EEnd (name : bytes) | Text | Other | Eof | XmlErr.

(* Result of a descent function.  JFuel is the model artefact.  Every loop of the Rust code calls
   read_event_into once per iteration and every arm either returns, breaks or goes on to the next event; since
   fix 0b9ca48 each of the four inner loops has an `Ok(Event::Eof) => return Err(..)` arm (before it they had
   none and span for ever on a Done reader), so there is no other way not to terminate. *)
Inductive jres (A : Type) := JOk (a : A) | JErr | JPanic | JFuel.
Global Arguments JOk {A} a.
Global Arguments JErr {A}.
Global Arguments JPanic {A}.
Global Arguments JFuel {A}.
Definition jbind {A B} (o : jres A) (f : A -> jres B) : jres B :=
  match o with JOk a => f a | JErr => JErr | JPanic => JPanic | JFuel => JFuel end.
Notation "'let+' x := o 'in' k" := (jbind o (fun x => k)) (at level 200, x pattern, o at level 100, k at level 200, right associativity).
(* `?` on a Result whose Err is all we keep *)
Definition jtry {A} (o : option A) : jres A := match o with Some a => JOk a | None => JErr end.

Definition n_package := bs "package".
Definition n_class := bs "class".
Definition n_sourcefile := bs "sourcefile".
Definition n_method := bs "method".
Definition n_counter := bs "counter".
Definition n_line := bs "line".
Definition k_name := bs "name".
Definition k_line := bs "line".
Definition k_type := bs "type".
Definition k_covered := bs "covered".
Definition k_sourcefilename := bs "sourcefilename".
Definition k_ci := bs "ci".
Definition k_cb := bs "cb".
Definition k_mb := bs "mb".
Definition k_nr := bs "nr".
Definition v_METHOD := bs "METHOD".
Definition s_java := bs ".java".
Definition SLASH : N := 47.
Definition DOLLAR : N := 36.
Definition HASH : N := 35.

(* str::parse::<u64>/<u32>: optional single '+', then one or more ASCII digits, value <= max *)
Definition is_digit (d : N) : bool := (48 <=? d) && (d <=? 57).
Fixpoint digits_val (ds : bytes) (acc : N) : option N :=
  match ds with
  | [] => Some acc
  | d :: ds => if is_digit d then digits_val ds (acc * 10 + (d - 48)) else None
  end.
Definition parse_uint (max : N) (s : bytes) : option N :=
  let ds := match s with 43 :: r => r | _ => s end in
  match ds with
  | [] => None
  | _ => match digits_val ds 0 with
         | Some v => if v <=? max then Some v else None
         | None => None
         end
  end.

(* get_xml_attribute (626-641): first item whose key matches; an Err item before it, a value that does not
   decode/unescape, or no match -> Err *)
Fixpoint get_attr (k : bytes) (l : list xattr) : option bytes :=
  match l with
  | [] => None
  | ABad :: _ => None
  | AOk k' _ un :: l => if bool_decide (k' = k) then un else get_attr k l
  end.

(* the attribute loop of a <line> (654-663): all items are visited, raw values are parsed.  `line_key` is the
   `match a.key` (which variable, which integer type); the four variables (ci, cb, mb, nr) are slots 0..3. *)
Definition line_key (k : bytes) : option (nat * N) :=
  if bool_decide (k = k_ci) then Some (0%nat, U64_MAX)
  else if bool_decide (k = k_cb) then Some (1%nat, U64_MAX)
  else if bool_decide (k = k_mb) then Some (2%nat, U64_MAX)
  else if bool_decide (k = k_nr) then Some (3%nat, U32_MAX)
  else None.
Fixpoint line_attrs (l : list xattr) (acc : list (option N)) : option (list (option N)) :=
  match l with
  | [] => Some acc
  | ABad :: _ => None
  | AOk k raw _ :: l =>
      match line_key k with
      | Some (i, mx) => match parse_uint mx raw with Some v => line_attrs l (<[i := Some v]> acc) | None => None end
      | None => line_attrs l acc
      end
  end.

(* `let mut v = vec![true; cb as usize]; v.extend(vec![false; mb as usize]);` (678-679).
   Vec capacity is limited to isize::MAX bytes: a larger request panics ("capacity overflow").
   Below that bound the request is made whatever its size (DESIGN F16: the allocation is cb + mb bytes, chosen
   by the input, not bounded by the input's length; the real process aborts when the allocator refuses). *)
Definition ISIZE_MAX : N := 9223372036854775807.
Definition alloc_request (cb mb : N) : N := cb + mb.
Definition branch_vec (cb mb : N) : jres (list bool) :=
  if ISIZE_MAX <? cb then JPanic
  else if ISIZE_MAX <? mb then JPanic
  else if ISIZE_MAX <? cb + mb then JPanic
  else JOk (repeat true (N.to_nat cb) ++ repeat false (N.to_nat mb)).

Definition lb : Type := gmap N N * gmap N (list bool).
Definition parse_line (attrs : list xattr) (st : lb) : jres lb :=
  let '(ls, brs) := st in
  match line_attrs attrs [None; None; None; None] with
  | Some [ci; cb; mb; nr] =>
      let+ ci := jtry ci in
      let+ cb := jtry cb in
      let+ mb := jtry mb in
      let+ nr := jtry nr in
      if (0 <? mb) || (0 <? cb) then
        let+ v := branch_vec cb mb in JOk (ls, <[nr := v]> brs)
      else JOk (<[nr := (if 0 <? ci then 1 else 0)]> ls, brs)
  | _ => JErr
  end.

(* parse_jacoco_report_sourcefile (643-699) *)
Fixpoint sourcefile_loop (evs : list xev) (st : lb) : jres (lb * list xev) :=
  match evs with
  | [] => JErr                                  (* reader is Done: Eof *)
  | ev :: rest =>
      match ev with
      | EStart n attrs =>
          if bool_decide (n = n_line) then let+ st' := parse_line attrs st in sourcefile_loop rest st'
          else sourcefile_loop rest st
      | EEnd n => if bool_decide (n = n_sourcefile) then JOk (st, rest) else sourcefile_loop rest st
      | XmlErr => JErr
      | Eof => JErr
      | _ => sourcefile_loop rest st
      end
  end.

(* parse_jacoco_report_method (701-723) *)
Fixpoint method_loop (evs : list xev) (executed : bool) : jres (bool * list xev) :=
  match evs with
  | [] => JErr                                  (* reader is Done: Eof *)
  | ev :: rest =>
      match ev with
      | EStart n attrs =>
          if bool_decide (n = n_counter) then
            let+ t := jtry (get_attr k_type attrs) in
            if bool_decide (t = v_METHOD) then
              let+ c := jtry (get_attr k_covered attrs) in
              let+ v := jtry (parse_uint U32_MAX c) in
              method_loop rest (0 <? v)
            else method_loop rest executed
          else method_loop rest executed
      | EEnd n => if bool_decide (n = n_method) then JOk (executed, rest) else method_loop rest executed
      | XmlErr => JErr
      | Eof => JErr
      | _ => method_loop rest executed
      end
  end.

(* parse_jacoco_report_class (725-750) *)
Fixpoint class_loop (fuel : nat) (cls : bytes) (evs : list xev) (fs : gmap name func) : jres (gmap name func * list xev) :=
  match evs with
  | [] => JErr                                  (* reader is Done: Eof *)
  | ev :: rest =>
      match fuel with
      | O => JFuel
      | S fuel =>
          match ev with
          | EStart n attrs =>
              if bool_decide (n = n_method) then
                let+ nm := jtry (get_attr k_name attrs) in
                let full := cls ++ HASH :: nm in
                let+ l := jtry (get_attr k_line attrs) in
                let+ start := jtry (parse_uint U32_MAX l) in
                let+ (ex, rest') := method_loop rest false in
                class_loop fuel cls rest' (<[full := mkFunc start ex]> fs)
              else class_loop fuel cls rest fs
          | EEnd n => if bool_decide (n = n_class) then JOk (fs, rest) else class_loop fuel cls rest fs
          | XmlErr => JErr
          | Eof => JErr
          | _ => class_loop fuel cls rest fs
          end
      end
  end.

(* fq_class.split('/').next_back() and class.split('$').next() *)
Fixpoint last_seg (s acc : bytes) : bytes :=
  match s with
  | [] => acc
  | c :: r => if c =? SLASH then last_seg r [] else last_seg r (acc ++ [c])
  end.
Fixpoint before_dollar (s : bytes) : bytes :=
  match s with
  | [] => []
  | c :: r => if c =? DOLLAR then [] else c :: before_dollar r
  end.
(* format!("{}/{}", package, file).trim_start_matches('/') *)
Fixpoint trim_slashes (s : bytes) : bytes :=
  match s with
  | c :: r => if c =? SLASH then trim_slashes r else s
  | [] => []
  end.
Definition join_name (pkg file : bytes) : bytes := trim_slashes (pkg ++ SLASH :: file).

Definition add_class (m : gmap name cov) (file : bytes) (fs : gmap name func) : gmap name cov :=
  match m !! file with
  | Some c => <[file := mkCov (c_lines c) (c_branches c) (fs ∪ c_funcs c)]> m       (* functions.extend: new wins *)
  | None => <[file := mkCov ∅ ∅ fs]> m
  end.
Definition add_sourcefile (m : gmap name cov) (file : bytes) (st : lb) : gmap name cov :=
  match m !! file with
  | Some c => <[file := mkCov st.1 st.2 (c_funcs c)]> m                              (* lines/branches replaced *)
  | None => <[file := mkCov st.1 st.2 ∅]> m
  end.

(* parse_jacoco_report_package (752-842); the hash map is iterated in unspecified order at the end *)
Fixpoint package_loop (fuel : nat) (pkg : bytes) (evs : list xev) (m : gmap name cov) : jres (list (name * cov) * list xev) :=
  match evs with
  | [] => JErr                                  (* reader is Done: Eof *)
  | ev :: rest =>
      match fuel with
      | O => JFuel
      | S fuel =>
          match ev with
          | EStart n attrs =>
              if bool_decide (n = n_class) then
                let+ fq := jtry (get_attr k_name attrs) in
                let cls := last_seg fq [] in
                let top := before_dollar cls in
                let file := match get_attr k_sourcefilename attrs with Some f => f | None => top ++ s_java end in
                let+ (fs, rest') := class_loop fuel cls rest ∅ in
                package_loop fuel pkg rest' (add_class m file fs)
              else if bool_decide (n = n_sourcefile) then
                let+ file := jtry (get_attr k_name attrs) in
                let+ (st, rest') := sourcefile_loop rest (∅, ∅) in
                package_loop fuel pkg rest' (add_sourcefile m file st)
              else package_loop fuel pkg rest m
          | EEnd n =>
              if bool_decide (n = n_package) then JOk (map (fun '(f, c) => (join_name pkg f, c)) (map_to_list m), rest)
              else package_loop fuel pkg rest m
          | XmlErr => JErr
          | Eof => JErr
          | _ => package_loop fuel pkg rest m
          end
      end
  end.

(* parse_jacoco_xml_report (844-871) *)
Fixpoint report_loop (fuel : nat) (evs : list xev) (acc : list (name * cov)) : jres (list (name * cov)) :=
  match evs with
  | [] => JOk acc
  | ev :: rest =>
      match fuel with
      | O => JFuel
      | S fuel =>
          match ev with
          | EStart n attrs =>
              if bool_decide (n = n_package) then
                let+ pkg := jtry (get_attr k_name attrs) in
                let+ (rs, rest') := package_loop fuel pkg rest ∅ in
                report_loop fuel rest' (acc ++ rs)
              else report_loop fuel rest acc
          | Eof => JOk acc
          | XmlErr => JErr
          | _ => report_loop fuel rest acc
          end
      end
  end.

Definition parse_jacoco (evs : list xev) : jres (list (name * cov)) := report_loop (length evs) evs [].
