(* parse_gcov of src/parser.rs (gcov intermediate TEXT format, gcov <= 7), byte level.
   Executable definitions only.

   The Rust loop is
       loop { l.clear(); if file.read_until(b'\n', &mut l)? == 0 { break }
              remove_newline(&mut l); let l = from_utf8_unchecked(&l);
              let mut key_value = l.splitn(2, ':'); key = try_next!; value = try_next!;
              match key { "file" | "function" | "lcount" | "branch" | _ } }
       if !cur_lines.is_empty() { match cur_file { Some(f) => results.push((f, ..)), None => return Err(InvalidRecord) } }
   The lines are bytes here (the code never looks at them as anything else: `splitn` with an
   ASCII pattern, `==` with ASCII literals, `starts_with('-')`, `str::parse`, `to_owned`). *)
From Grcov Require Export Model.Cov Base.Dec.
Import Coq.Strings.String.StringSyntax.

Definition gLF : N := 10.  Definition gCR : N := 13.
Definition gColon : N := 58.  Definition gComma : N := 44.
Definition gPlus : N := 43.  Definition gMinus : N := 45.  Definition gZero : N := 48.
Definition g_is_digit (c : N) : bool := (48 <=? c) && (c <=? 57).
Definition is_nl (c : N) : bool := (c =? gLF) || (c =? gCR).

(* The successive results of `read_until(b'\n', ..)` until it returns 0 bytes: every chunk
   ends with LF except possibly the last one; no chunk is empty.  Structural form of the
   loop "take bytes up to and including the next LF". *)
Fixpoint lines_of (l : bytes) : list bytes :=
  match l with
  | [] => []
  | c :: r =>
      if c =? gLF then [c] :: lines_of r
      else match lines_of r with
           | [] => [[c]]
           | ln :: lns => (c :: ln) :: lns
           end
  end.

(* remove_newline: pop while the last byte is LF or CR *)
Fixpoint remove_newline (l : bytes) : bytes :=
  match l with
  | [] => []
  | c :: r => match remove_newline r with
              | [] => if is_nl c then [] else [c]
              | r' => c :: r'
              end
  end.

(* the first two items of `s.splitn(2, sep)`: the text before the first separator, and the
   text after it if there is one ("".splitn(..) yields one empty item) *)
Fixpoint split_once (sep : N) (l : bytes) : bytes * option bytes :=
  match l with
  | [] => ([], None)
  | c :: r => if c =? sep then ([], Some r)
              else let '(a, b) := split_once sep r in (c :: a, b)
  end.

(* str::parse::<uN>() (core::num from_str_radix, radix 10, unsigned):
   "" -> Err(Empty); "+" / "-" alone -> Err(InvalidDigit); one leading '+' is skipped;
   every remaining byte must be an ASCII digit ('-' is not one for unsigned types);
   result = checked_mul(10) then checked_add(digit), None -> Err(PosOverflow). *)
Definition parse_digits (max : N) (ds : bytes) : option N :=
  fold_left (fun acc c =>
               match acc with
               | None => None
               | Some r => if g_is_digit c
                           then (let v := r * 10 + (c - gZero) in if v <=? max then Some v else None)
                           else None
               end) ds (Some 0).
Definition parse_uint (max : N) (s : bytes) : option N :=
  let ds := match s with c :: r => if c =? gPlus then r else s | [] => s end in
  match ds with
  | [] => None
  | _ => parse_digits max ds
  end.
Definition parse_u32 := parse_uint U32_MAX.
Definition parse_u64 := parse_uint U64_MAX.

Definition k_file : bytes := bs "file".
Definition k_function : bytes := bs "function".
Definition k_lcount : bytes := bs "lcount".
Definition k_branch : bytes := bs "branch".
Definition v_taken : bytes := bs "taken".

Record gstate := mkG {
  g_file : option name;
  g_lines : gmap N N;
  g_branches : gmap N (list bool);
  g_funcs : gmap name func;
  g_results : list (name * cov)        (* push order *)
}.
Definition g_init : gstate := mkG None ∅ ∅ ∅ [].
Definition lines_empty (m : gmap N N) : bool := bool_decide (map_to_list m = []).

(* one loop iteration on the line [l] (terminator already removed) *)
Definition gstep (l : bytes) (st : gstate) : outcome gstate :=
  match split_once gColon l with
  | (_, None) => Err                                   (* try_next!(key_value): no ':' *)
  | (key, Some value) =>
      if bool_decide (key = k_file) then
        (* cur_file.filter(|_| !cur_lines.is_empty()) *)
        let results :=
          match g_file st with
          | Some f => if lines_empty (g_lines st) then g_results st
                      else g_results st ++ [(f, mkCov (g_lines st) (g_branches st) (g_funcs st))]
          | None => g_results st
          end in
        Ok (mkG (Some value) ∅ ∅ ∅ results)
      else if bool_decide (key = k_function) then
        (* value.splitn(3, ',') *)
        let '(a, r1) := split_once gComma value in
        match parse_u32 a with
        | None => Err
        | Some start =>
            match r1 with
            | None => Err
            | Some r1 =>
                let '(b, r2) := split_once gComma r1 in
                let executed := negb (bool_decide (b = [gZero])) in
                match r2 with
                | None => Err
                | Some nm => Ok (mkG (g_file st) (g_lines st) (g_branches st)
                                     (<[nm := mkFunc start executed]> (g_funcs st)) (g_results st))
                end
            end
        end
      else if bool_decide (key = k_lcount) then
        let '(a, r1) := split_once gComma value in
        match parse_u32 a with
        | None => Err
        | Some line_no =>
            match r1 with
            | None => Err
            | Some ec =>
                let count :=
                  if bool_decide (ec = [gZero]) || (match ec with c :: _ => c =? gMinus | [] => false end)
                  then Some 0 else parse_u64 ec in
                match count with
                | None => Err
                | Some c => Ok (mkG (g_file st) (<[line_no := c]> (g_lines st)) (g_branches st)
                                    (g_funcs st) (g_results st))
                end
            end
        end
      else if bool_decide (key = k_branch) then
        let '(a, r1) := split_once gComma value in
        match parse_u32 a with
        | None => Err
        | Some line_no =>
            match r1 with
            | None => Err
            | Some k =>
                let taken := bool_decide (k = v_taken) in
                let v := match g_branches st !! line_no with
                         | Some v => v ++ [taken]
                         | None => [taken]
                         end in
                Ok (mkG (g_file st) (g_lines st) (<[line_no := v]> (g_branches st))
                        (g_funcs st) (g_results st))
            end
        end
      else Ok st
  end.

Fixpoint gloop (ls : list bytes) (st : gstate) : outcome gstate :=
  match ls with
  | [] => Ok st
  | l :: ls => match gstep (remove_newline l) st with
               | Ok st' => gloop ls st'
               | Err => Err
               | Panic => Panic
               | OutOfFuel => OutOfFuel
               end
  end.

(* after the loop: `if !cur_lines.is_empty() { match cur_file { Some(f) => push, None => return Err } }` *)
Definition gfinish (st : gstate) : outcome (list (name * cov)) :=
  if lines_empty (g_lines st) then Ok (g_results st)
  else match g_file st with
       | None => Err
       | Some f => Ok (g_results st ++ [(f, mkCov (g_lines st) (g_branches st) (g_funcs st))])
       end.

(* over the chunks delivered by read_until *)
Definition parse_gcov_lines (ls : list bytes) : outcome (list (name * cov)) :=
  match gloop ls g_init with
  | Ok st => gfinish st
  | Err => Err
  | Panic => Panic
  | OutOfFuel => OutOfFuel
  end.
(* over the bytes of the file *)
Definition parse_gcov (buffer : bytes) : outcome (list (name * cov)) := parse_gcov_lines (lines_of buffer).
