(* SPEC side of C10: JaCoCo report models, which event lists are serialisations of a model (any attribute
   order, extra attributes, any ignorable events between the elements the property talks about), and what a model
   means (denote).  Definitions only. *)
From Grcov Require Export Model.Jacoco.
Import Coq.Strings.String.StringSyntax.

Record jmethod := mkM { m_name : bytes; m_line : N; m_covered : N }.            (* covered of the METHOD counter *)
Record jclass := mkC { c_name : bytes;                                           (* org/example/Outer$Inner *)
                       c_sourcefilename : option bytes;                         (* attribute, absent in old reports *)
                       c_methods : list jmethod }.
Record jline := mkL { l_nr : N; l_mi : N; l_ci : N; l_mb : N; l_cb : N }.
Record jsourcefile := mkSF { sf_name : bytes; sf_lines : list jline }.
(* children of a package in document order: classes and sourcefiles may interleave *)
Inductive jchild := JC (c : jclass) | JS (s : jsourcefile).
Record jpackage := mkP { p_name : bytes; p_children : list jchild }.
(* packages in document order; <group> nesting, <sessioninfo>, <counter> are noise at this level *)
Definition jreport := list jpackage.

(* ---- attributes of a well-formed start tag -------------------------------------------------------------- *)
Definition akey (a : xattr) : option bytes := match a with AOk k _ _ => Some k | ABad => None end.
Definition attrs_ok (l : list xattr) : Prop := Forall (fun a => a <> ABad) l /\ NoDup (omap akey l).
(* attribute k is present with (unescaped) value v, wherever it stands and however it was escaped *)
Definition has_attr (l : list xattr) (k v : bytes) : Prop := exists raw, In (AOk k raw (Some v)) l.
(* ... and its value reads as the number n by Rust's str::parse *)
Definition has_unum (l : list xattr) (k : bytes) (mx n : N) : Prop := exists v, has_attr l k v /\ parse_uint mx v = Some n.
(* the <line> loop parses the raw text (no unescaping) *)
Definition has_rnum (l : list xattr) (k : bytes) (mx n : N) : Prop := exists raw un, In (AOk k raw un) l /\ parse_uint mx raw = Some n.
Definition no_attr (l : list xattr) (k : bytes) : Prop := k ∉ omap akey l.

(* ---- children lists with ignorable events in between --------------------------------------------------- *)
Section ser_list.
  Context {A : Type} (ser : A -> list xev -> Prop) (noise : xev -> Prop).
  Inductive ser_list : list A -> list xev -> Prop :=
  | sl_nil : ser_list [] []
  | sl_noise e xs evs : noise e -> ser_list xs evs -> ser_list xs (e :: evs)
  | sl_item x xs ev evs : ser x ev -> ser_list xs evs -> ser_list (x :: xs) (ev ++ evs).
End ser_list.

(* What each loop of the descent lets pass.  Anything that is not one of the elements the loop reacts to and
   does not end the document: text, comments, PIs, other elements' start and end tags. *)
Definition noise_method (e : xev) : Prop :=
  match e with
  | EStart n attrs => n = n_counter -> exists t, attrs_ok attrs /\ has_attr attrs k_type t /\ t <> v_METHOD
  | EEnd n => n <> n_method
  | Text | Other => True
  | Eof | XmlErr => False
  end.
Definition noise_class (e : xev) : Prop :=
  match e with EStart n _ => n <> n_method | EEnd n => n <> n_class | Text | Other => True | Eof | XmlErr => False end.
Definition noise_sf (e : xev) : Prop :=
  match e with EStart n _ => n <> n_line | EEnd n => n <> n_sourcefile | Text | Other => True | Eof | XmlErr => False end.
Definition noise_pkg (e : xev) : Prop :=
  match e with EStart n _ => n <> n_class /\ n <> n_sourcefile | EEnd n => n <> n_package | Text | Other => True | Eof | XmlErr => False end.
Definition noise_report (e : xev) : Prop :=
  match e with EStart n _ => n <> n_package | EEnd _ | Text | Other => True | Eof | XmlErr => False end.

Definition ser_method (m : jmethod) (evs : list xev) : Prop :=
  exists attrs pre cattrs post,
    evs = EStart n_method attrs :: pre ++ EStart n_counter cattrs :: post ++ [EEnd n_method]
    /\ attrs_ok attrs /\ has_attr attrs k_name (m_name m) /\ has_unum attrs k_line U32_MAX (m_line m)
    /\ Forall noise_method pre /\ Forall noise_method post
    /\ attrs_ok cattrs /\ has_attr cattrs k_type v_METHOD /\ has_unum cattrs k_covered U32_MAX (m_covered m).
Definition ser_class (c : jclass) (evs : list xev) : Prop :=
  exists attrs body,
    evs = EStart n_class attrs :: body ++ [EEnd n_class]
    /\ attrs_ok attrs /\ has_attr attrs k_name (c_name c)
    /\ match c_sourcefilename c with Some f => has_attr attrs k_sourcefilename f | None => no_attr attrs k_sourcefilename end
    /\ ser_list ser_method noise_class (c_methods c) body.
Definition ser_line (l : jline) (evs : list xev) : Prop :=
  exists attrs,
    evs = [EStart n_line attrs]
    /\ attrs_ok attrs /\ has_rnum attrs k_nr U32_MAX (l_nr l) /\ has_rnum attrs k_ci U64_MAX (l_ci l)
    /\ has_rnum attrs k_mb U64_MAX (l_mb l) /\ has_rnum attrs k_cb U64_MAX (l_cb l).
Definition ser_sourcefile (s : jsourcefile) (evs : list xev) : Prop :=
  exists attrs body,
    evs = EStart n_sourcefile attrs :: body ++ [EEnd n_sourcefile]
    /\ attrs_ok attrs /\ has_attr attrs k_name (sf_name s)
    /\ ser_list ser_line noise_sf (sf_lines s) body.
Definition ser_child (ch : jchild) (evs : list xev) : Prop :=
  match ch with JC c => ser_class c evs | JS s => ser_sourcefile s evs end.
Definition ser_package (p : jpackage) (evs : list xev) : Prop :=
  exists attrs body,
    evs = EStart n_package attrs :: body ++ [EEnd n_package]
    /\ attrs_ok attrs /\ has_attr attrs k_name (p_name p)
    /\ ser_list ser_child noise_pkg (p_children p) body.
(* the whole document: report/group/sessioninfo/counter tags are noise at the top; the reader ends with Eof *)
Definition serialises (r : jreport) (evs : list xev) : Prop :=
  exists body tail, evs = body ++ tail /\ ser_list ser_package noise_report r body /\ (tail = [] \/ exists t, tail = Eof :: t).

(* ---- meaning -------------------------------------------------------------------------------------------- *)
Definition is_branch_line (l : jline) : bool := (0 <? l_mb l) || (0 <? l_cb l).
Definition branch_vector (l : jline) : list bool := repeat true (N.to_nat (l_cb l)) ++ repeat false (N.to_nat (l_mb l)).
Definition line_count (l : jline) : N := if 0 <? l_ci l then 1 else 0.
Definition den_line (st : lb) (l : jline) : lb :=
  if is_branch_line l then (st.1, <[l_nr l := branch_vector l]> st.2)
  else (<[l_nr l := line_count l]> st.1, st.2).
Definition den_sf (s : jsourcefile) : lb := foldl den_line (∅, ∅) (sf_lines s).

Definition simple_name (c : jclass) : bytes := last_seg (c_name c) [].            (* after the last '/' *)
Definition file_of (c : jclass) : bytes :=
  match c_sourcefilename c with Some f => f | None => before_dollar (simple_name c) ++ s_java end.
Definition full_name (c : jclass) (m : jmethod) : bytes := simple_name c ++ HASH :: m_name m.
Definition den_method (m : jmethod) : func := mkFunc (m_line m) (0 <? m_covered m).
Definition den_class (c : jclass) : gmap name func :=
  foldl (fun fs m => <[full_name c m := den_method m]> fs) ∅ (c_methods c).
Definition den_child (m : gmap name cov) (ch : jchild) : gmap name cov :=
  match ch with
  | JC c => add_class m (file_of c) (den_class c)
  | JS s => add_sourcefile m (sf_name s) (den_sf s)
  end.
Definition den_pkg_map (p : jpackage) : gmap name cov := foldl den_child ∅ (p_children p).
Definition rec_name (pkg f : bytes) : bytes := if bool_decide (pkg = []) then f else pkg ++ SLASH :: f.
Definition den_pkg (p : jpackage) : list (name * cov) :=
  map (fun '(f, c) => (rec_name (p_name p) f, c)) (map_to_list (den_pkg_map p)).
Definition denote (r : jreport) : list (name * cov) := flat_map den_pkg r.

(* ---- the property's domain ------------------------------------------------------------------------------ *)
Definition child_file (ch : jchild) : bytes := match ch with JC c => file_of c | JS s => sf_name s end.
Definition sf_names (cs : list jchild) : list bytes := omap (fun ch => match ch with JS s => Some (sf_name s) | _ => None end) cs.
Definition fn_keys (cs : list jchild) : list (bytes * bytes) :=
  flat_map (fun ch => match ch with JC c => map (fun m => (file_of c, full_name c m)) (c_methods c) | _ => [] end) cs.
Definition no_lead_slash (s : bytes) : Prop := hd_error s <> Some SLASH.
Definition wf_line (l : jline) : Prop := l_cb l + l_mb l <= ISIZE_MAX.
Definition wf_sourcefile (s : jsourcefile) : Prop := Forall wf_line (sf_lines s) /\ NoDup (map l_nr (sf_lines s)).
Definition wf_child (ch : jchild) : Prop := match ch with JS s => wf_sourcefile s | JC _ => True end.
Definition wf_package (p : jpackage) : Prop :=
  Forall wf_child (p_children p)
  /\ NoDup (sf_names (p_children p))                  (* one <sourcefile> per file *)
  /\ NoDup (fn_keys (p_children p))                   (* Class#method unique within a file *)
  /\ no_lead_slash (p_name p)
  /\ (p_name p = [] -> Forall (fun ch => no_lead_slash (child_file ch)) (p_children p)).
Definition wf_report (r : jreport) : Prop := Forall wf_package r.

Global Instance wf_line_dec l : Decision (wf_line l).
Proof. unfold wf_line. apply _. Defined.
Global Instance wf_child_dec ch : Decision (wf_child ch).
Proof. destruct ch; unfold wf_child, wf_sourcefile; apply _. Defined.
Global Instance no_lead_slash_dec s : Decision (no_lead_slash s).
Proof. unfold no_lead_slash. apply _. Defined.
Global Instance wf_package_dec p : Decision (wf_package p).
Proof. unfold wf_package. apply _. Defined.
Global Instance wf_report_dec r : Decision (wf_report r).
Proof. unfold wf_report. apply _. Defined.

(* ---- one canonical serialisation (used by the check to run spec and descent side by side, and as the witness
        that `serialises` is inhabited) ------------------------------------------------------------------- *)
Definition at_ (k v : bytes) : xattr := AOk k v (Some v).
Definition render_method (m : jmethod) : list xev :=
  [EStart n_method [at_ k_name (m_name m); at_ (bs "desc") (bs "()V"); at_ k_line (print_dec (m_line m))];
   EStart n_counter [at_ k_type (bs "INSTRUCTION"); at_ (bs "missed") (bs "3"); at_ k_covered (bs "4")]; EEnd n_counter;
   EStart n_counter [at_ k_type v_METHOD; at_ (bs "missed") (bs "0"); at_ k_covered (print_dec (m_covered m))]; EEnd n_counter;
   EEnd n_method].
Definition render_class (c : jclass) : list xev :=
  EStart n_class (at_ k_name (c_name c) :: match c_sourcefilename c with Some f => [at_ k_sourcefilename f] | None => [] end)
  :: Text :: flat_map render_method (c_methods c)
  ++ [EStart n_counter [at_ k_type v_METHOD; at_ (bs "missed") (bs "0"); at_ k_covered (bs "9")]; EEnd n_counter; EEnd n_class].
Definition render_line (l : jline) : list xev :=
  [EStart n_line [at_ k_nr (print_dec (l_nr l)); at_ (bs "mi") (print_dec (l_mi l)); at_ k_ci (print_dec (l_ci l));
                  at_ k_mb (print_dec (l_mb l)); at_ k_cb (print_dec (l_cb l))]; EEnd n_line].
Definition render_sourcefile (s : jsourcefile) : list xev :=
  EStart n_sourcefile [at_ k_name (sf_name s)] :: flat_map render_line (sf_lines s)
  ++ [EStart n_counter [at_ k_type (bs "LINE"); at_ (bs "missed") (bs "1"); at_ k_covered (bs "2")]; EEnd n_counter; EEnd n_sourcefile].
Definition render_child (ch : jchild) : list xev :=
  match ch with JC c => render_class c | JS s => render_sourcefile s end.
Definition render_package (p : jpackage) : list xev :=
  EStart n_package [at_ k_name (p_name p)] :: flat_map render_child (p_children p) ++ [Text; EEnd n_package].
Definition render_report (r : jreport) : list xev :=
  [Other; Other; EStart (bs "report") [at_ k_name (bs "r")]; EStart (bs "sessioninfo") [at_ (bs "id") (bs "h")]; EEnd (bs "sessioninfo");
   EStart (bs "group") [at_ k_name (bs "g")]]
  ++ flat_map render_package r ++ [EEnd (bs "group"); EStart n_counter [at_ k_type (bs "CLASS")]; EEnd n_counter; EEnd (bs "report"); Eof].

(* ---- hypothesis of the no-panic theorem: the branch vector a <line> start tag asks for fits a Vec -------- *)
Definition ev_small (e : xev) : bool :=
  match e with
  | EStart n attrs =>
      if bool_decide (n = n_line) then
        match line_attrs attrs [None; None; None; None] with
        | Some [_; Some cb; Some mb; _] => cb + mb <=? ISIZE_MAX
        | _ => true
        end
      else true
  | _ => true
  end.
