(* Input discovery: src/producer.rs (`producer`, `Archive::explore`, `handle_file`, `is_info`, `is_jacoco`,
   `is_gcno_llvm`, `check_file`, `read`, `extract`, `file_content_producer`, `llvm_format_producer`,
   `gcno_gcda_producer`, `get_mapping`).

   What enters the model as data (recorded by the driver, validated differentially, NOT modelled):
   - the list of (relative name, content) of each archive: for a Zip what the zip crate enumerates
     (`by_index` order, `name()`), for a Dir what WalkDir yields for which `is_file()` holds (symbolic links to files
     included, links to directories not followed), each with its name relative to the directory, for the Plain
     archive the absolute paths of the file arguments;
   - of each content only an identifier `e_cid` (equal identifiers = equal bytes) and `e_head`, its first
     min(256, length) bytes, which is all the three sniffers read.
   Zip members whose name is absolute or has a '..' component are skipped at discovery (`is_safe_entry_name`,
   fix ee819ce): `visible`, with the predicate `safe_entry` of Model/Confine.v.
   Abstractions: FxHashMap iteration order is insertion order here and every theorem is up to Permutation;
   files are readable (`File::open(..).ok()` is Some); names are valid UTF-8 (`to_str().unwrap()`), do not end in '/'. *)
From stdpp Require Export sorting.
From Grcov Require Export Base.Prelude Base.Dec Model.Confine.
Global Open Scope N_scope.
Import Coq.Strings.String.StringSyntax.

Record entry := mkEntry { e_name : bytes; e_cid : N; e_head : bytes }.
Inductive akind := Zip | Dir | Plain.
Record archive := mkArchive { a_kind : akind; a_name : bytes; a_entries : list entry }.
Definition layout := list archive.
Record opts := mkOpts { o_llvm : bool; o_covered : bool }.

Global Instance entry_eq_dec : EqDecision entry.
Proof. solve_decision. Defined.
Global Instance akind_eq_dec : EqDecision akind.
Proof. solve_decision. Defined.
Global Instance archive_eq_dec : EqDecision archive.
Proof. solve_decision. Defined.

(* ---- std::path: extension / with_extension("") on the name's bytes (Unix) ---- *)
(* longest prefix without c, and the rest (empty or starting with c) *)
Fixpoint span_not (c : N) (s : bytes) : bytes * bytes :=
  match s with
  | [] => ([], [])
  | x :: t => if x =? c then ([], s) else let '(a, b) := span_not c t in (x :: a, b)
  end.
(* (directory part including its trailing '/', last component) *)
Definition file_name_split (s : bytes) : bytes * bytes :=
  let '(rf, rd) := span_not 47 (rev s) in (rev rd, rev rf).
(* Some (path.with_extension(""), extension) when `path.extension()` is Some:
   the last component is not "..", contains a '.', and its last '.' is not its first byte *)
Definition split_ext (s : bytes) : option (bytes * bytes) :=
  let '(d, f) := file_name_split s in
  if bool_decide (f = [46; 46]) then None else
  let '(re, rs) := span_not 46 (rev f) in
  match rs with
  | [] => None
  | _ :: [] => None
  | _ :: rstem => Some (d ++ rev rstem, rev re)
  end.
Definition file_name (s : bytes) : bytes := snd (file_name_split s).

(* ---- the three sniffers, on the first bytes of the content ---- *)
Definition starts_with (p s : bytes) : bool := bool_decide (take (length p) s = p).
Fixpoint contains (p s : bytes) : bool :=
  starts_with p s || match s with [] => false | _ :: t => contains p t end.
(* read_exact of 3 bytes, then TN: or SF: *)
Definition is_info (h : bytes) : bool := starts_with (bs "TN:") h || starts_with (bs "SF:") h.
(* read_exact of 8 bytes *)
Definition is_gcno_llvm (h : bytes) : bool :=
  bool_decide (8 <= length h)%nat && starts_with (bs "oncg*") h &&
  (bool_decide (take 3 (drop 5 h) = bs "204") || bool_decide (take 3 (drop 5 h) = bs "804")).
(* take(256).read_to_end, String::from_utf8_lossy, contains (fix 00bbd37).  The marker is ASCII: lossy decoding keeps
   every byte below 128 in place, replaces each invalid sequence by one U+FFFD and keeps valid multi-byte characters,
   neither of which contains a byte below 128; so the decoded string contains the marker iff the bytes do.
   (This equivalence is not proved here; it is exercised by the correspondence check on heads with invalid UTF-8.) *)
Definition is_jacoco (h : bytes) : bool := contains (bs "-//JACOCO//DTD") (take 256 h).

(* ---- handle_file ---- *)
Inductive cls :=
  | CGcno (stem : bytes) (llvm : bool) | CGcda (stem : bytes)
  | CProfdata | CProfraw | CInfo | CXml | CMap | CNone.
Global Instance cls_eq_dec : EqDecision cls.
Proof. solve_decision. Defined.
Definition classify (is_llvm : bool) (e : entry) : cls :=
  match split_ext (e_name e) with
  | None => CNone
  | Some (stem, ext) =>
      if bool_decide (ext = bs "gcno") then CGcno stem (is_llvm || is_gcno_llvm (e_head e))
      else if bool_decide (ext = bs "gcda") then CGcda stem
      else if bool_decide (ext = bs "profdata") then CProfdata
      else if bool_decide (ext = bs "profraw") then CProfraw
      else if bool_decide (ext = bs "info") then (if is_info (e_head e) then CInfo else CNone)
      else if bool_decide (ext = bs "xml") then (if is_jacoco (e_head e) then CXml else CNone)
      else if bool_decide (ext = bs "json") then
        (if bool_decide (file_name (e_name e) = bs "linked-files-map.json") then CMap else CNone)
      else CNone
  end.

(* ---- the hash maps, as association lists in first-insertion order ---- *)
Section Assoc.
  Context {K V : Type} `{EqDecision K}.
  (* map.entry(k).or_insert_with(Vec::new).push(v) *)
  Fixpoint ains (k : K) (v : V) (m : list (K * list V)) : list (K * list V) :=
    match m with
    | [] => [(k, [v])]
    | (k', vs) :: m' => if decide (k = k') then (k', vs ++ [v]) :: m' else (k', vs) :: ains k v m'
    end.
  Definition group (l : list (K * V)) : list (K * list V) := fold_left (fun m kv => ains kv.1 kv.2 m) l [].
  (* map.insert(k, v) *)
  Fixpoint aupd (k : K) (v : V) (m : list (K * V)) : list (K * V) :=
    match m with
    | [] => [(k, v)]
    | (k', v') :: m' => if decide (k = k') then (k', v) :: m' else (k', v') :: aupd k v m'
    end.
  Definition lastmap (l : list (K * V)) : list (K * V) := fold_left (fun m kv => aupd kv.1 kv.2 m) l [].
  Fixpoint alookup {W} (k : K) (m : list (K * W)) : option W :=
    match m with
    | [] => None
    | (k', v) :: m' => if decide (k = k') then Some v else alookup k m'
    end.
End Assoc.

(* the members `explore` hands to handle_file: a Zip skips unsafe names *)
Definition visible (a : archive) : list entry :=
  match a_kind a with
  | Zip => List.filter (fun e => safe_entry (e_name e)) (a_entries a)
  | _ => a_entries a
  end.
(* exploration sequence: archives in order, members of each in order *)
Definition found (l : layout) : list (archive * entry) :=
  flat_map (fun a => map (fun e => (a, e)) (visible a)) l.

Definition sel_gcno (ll : bool) (ae : archive * entry) : option ((bytes * bool) * archive) :=
  match classify ll ae.2 with CGcno s b => Some ((s, b), ae.1) | _ => None end.
Definition sel_gcda (ll : bool) (ae : archive * entry) : option (bytes * archive) :=
  match classify ll ae.2 with CGcda s => Some (s, ae.1) | _ => None end.
Definition is_cls (c : cls) (ll : bool) (ae : archive * entry) : option (bytes * archive) :=
  if bool_decide (classify ll ae.2 = c) then Some (e_name ae.2, ae.1) else None.

Definition gcno_map ll l : list ((bytes * bool) * archive) := lastmap (omap (sel_gcno ll) (found l)).
Definition gcda_map ll l : list (bytes * list archive) := group (omap (sel_gcda ll) (found l)).
Definition name_map c ll l : list (bytes * list archive) := group (omap (is_cls c ll) (found l)).
Definition linked_map ll l : list (bytes * archive) := lastmap (omap (is_cls CMap ll) (found l)).

(* Archive::read *)
Definition read (a : archive) (n : bytes) : option N :=
  e_cid <$> find (fun e => bool_decide (e_name e = n)) (a_entries a).
(* Archive::extract: did it create the destination (Dir: a symbolic link, whatever it points to) *)
Definition extract (a : archive) (n : bytes) : outcome bool :=
  match a_kind a with
  | Zip => Ok (bool_decide (is_Some (read a n)))
  | Dir => Ok true
  | Plain => Panic
  end.

Inductive fmt := FGcno | FProfraw | FProfdata | FInfo | FXml.
Inductive ppath := PTmp (rel : bytes) | PPlain (full : bytes).
Inductive item :=
  | IContent (f : fmt) (aname : bytes) (cid : N)
  | IBuffers (aname : bytes) (stem : bytes) (gcno : N) (gcdas : list N)
  (* tmp/<stem>_<num>.gcno; what that file and its .gcda sibling hold *)
  | IPath (aname : bytes) (stem : bytes) (num : N) (gcno : option N) (gcda : option N)
  | IPaths (f : fmt) (ps : list (ppath * option N)).

Fixpoint oconcat {A} (l : list (outcome (list A))) : outcome (list A) :=
  match l with
  | [] => Ok []
  | x :: t => let* a := x in let* b := oconcat t in Ok (a ++ b)
  end.

(* file_content_producer *)
Definition content_items (f : fmt) (m : list (bytes * list archive)) : list item :=
  flat_map (fun na => omap (fun a => IContent f (a_name a) <$> read a na.1) na.2) m.

(* llvm_format_producer *)
Definition stem_of (n : bytes) : bytes := match split_ext n with Some (s, _) => s | None => n end.
Definition profile_one (ext n : bytes) (num : nat) (a : archive) : outcome (list (ppath * option N)) :=
  match a_kind a with
  | Plain => Ok [(PPlain n, read a n)]
  | _ => let* _ := extract a n in
         Ok [(PTmp (stem_of n ++ [95] ++ print_dec (N.of_nat num + 1) ++ [46] ++ ext), read a n)]
  end.
Definition profile_items (f : fmt) (ext : bytes) (m : list (bytes * list archive)) : outcome (list item) :=
  match m with
  | [] => Ok []
  | _ => let* ps := oconcat (map (fun na => oconcat (imap (profile_one ext na.1) na.2)) m) in Ok [IPaths f ps]
  end.

(* gcno_gcda_producer, one (stem, llvm) key *)
Definition gcc_one (covered : bool) (stem : bytes) (ga : archive) (wrote : bool) (num : nat) (da : archive)
  : outcome (list item) :=
  (* hard_link(tmp/stem_1.gcno, tmp/stem_<num+1>.gcno) *)
  if negb (num =? 0)%nat && negb wrote then Panic else
  let* w := extract da (stem ++ bs ".gcda") in
  if w || ((num =? 0)%nat && negb covered)
  then Ok [IPath (a_name da) stem (N.of_nat num + 1) (read ga (stem ++ bs ".gcno")) (read da (stem ++ bs ".gcda"))]
  else Ok [].
Definition gcno_one (covered : bool) (gm : list (bytes * list archive)) (ka : (bytes * bool) * archive)
  : outcome (list item) :=
  let '((stem, llvm), ga) := ka in
  let gcno := stem ++ bs ".gcno" in
  match alookup stem gm with
  | Some das =>
      if llvm then
        match read ga gcno with
        | Some g => Ok [IBuffers [] stem g (omap (fun da => read da (stem ++ bs ".gcda")) das)]
        | None => Ok []
        end
      else
        let* w := extract ga gcno in
        oconcat (imap (gcc_one covered stem ga w) das)
  | None =>
      if covered then Ok [] else
      if llvm then
        match read ga gcno with
        | Some g => Ok [IBuffers (a_name ga) stem g []]
        | None => Ok []
        end
      else
        let* w := extract ga gcno in
        if w then Ok [IPath (a_name ga) stem 1 (read ga gcno) None] else Ok []
  end.
Definition gcno_items (covered : bool) (km : list ((bytes * bool) * archive)) (gm : list (bytes * list archive))
  : outcome (list item) :=
  oconcat (map (gcno_one covered gm) km).

(* producer, after the archives are built *)
Definition work_items (o : opts) (l : layout) : outcome (list item) :=
  let ll := o_llvm o in
  let km := gcno_map ll l in
  let infos := name_map CInfo ll l in
  let xmls := name_map CXml ll l in
  let pds := name_map CProfdata ll l in
  let prs := name_map CProfraw ll l in
  match km, pds, prs, infos, xmls with
  | [], [], [], [], [] => Panic                      (* assert!(.., "No input files found") *)
  | _, _, _, _, _ =>
      let* a := profile_items FProfdata (bs "profdata") pds in
      let* b := profile_items FProfraw (bs "profraw") prs in
      let* c := gcno_items (o_covered o) km (gcda_map ll l) in
      Ok (content_items FInfo infos ++ content_items FXml xmls ++ a ++ b ++ c)
  end.
(* get_mapping takes `iter().next()` of a hash map: one of these, unspecified which *)
Definition mapping_candidates (o : opts) (l : layout) : list (option N) :=
  map (fun na => read na.2 na.1) (linked_map (o_llvm o) l).

(* ---- from the command line arguments to the archive list ---- *)
Inductive arg :=
  | AZip (name : bytes) (es : list entry)
  | ADir (name : bytes) (es : list entry)
  | AFile (full : bytes) (e : entry).       (* neither *.zip nor a directory; e_name e = full *)
Definition plain_ok (full : bytes) : option bool :=   (* None: no extension *)
  match split_ext full with
  | None => None
  | Some (_, ext) => Some (bool_decide (ext ∈ [bs "info"; bs "json"; bs "xml"; bs "profraw"; bs "profdata"]))
  end.
Fixpoint build_archives (args : list arg) (acc : layout) (plain : list entry) : outcome layout :=
  match args with
  | [] => Ok (acc ++ match plain with [] => [] | _ => [mkArchive Plain (bs "plain files") plain] end)
  | AZip n es :: t => build_archives t (acc ++ [mkArchive Zip n es]) plain
  | ADir n es :: t => build_archives t (acc ++ [mkArchive Dir n es]) plain
  | AFile full e :: t =>
      match plain_ok full with
      | Some true => build_archives t acc (plain ++ [e])
      | _ => Panic
      end
  end.
Definition producer (o : opts) (args : list arg) : outcome (list item * list (option N)) :=
  let* l := build_archives args [] [] in
  let* its := work_items o l in
  Ok (its, mapping_candidates o l).

(* ---- what an item carries, without archive names, link numbers and orders ---- *)
Inductive icontent :=
  | KContent (f : fmt) (cid : N)
  | KBuffers (stem : bytes) (gcno : N) (gcdas : list N)       (* gcdas sorted *)
  | KPath (stem : bytes) (gcno : option N) (gcda : option N)
  | KPaths (f : fmt) (cids : list N).                         (* sorted *)
Definition content_of (i : item) : icontent :=
  match i with
  | IContent f _ c => KContent f c
  | IBuffers _ s g gs => KBuffers s g (merge_sort N.le gs)
  | IPath _ s _ g d => KPath s g d
  | IPaths f ps => KPaths f (merge_sort N.le (omap snd ps))
  end.
