(* C19 - where grcov creates, writes or deletes files, as paths (Unix std::path semantics, DESIGN Appendix D).
   A minimal path model of its own: (absolute?, segments Cur | Up | Name).
   Write sites (pinned tree):
     producer.rs  Archive::extract            tmp.join(format!("{stem}_{n}.gcno|gcda|profraw|profdata"))   stem = member name without extension
                  gcno_gcda_producer          hard_link tmp/<stem>_1.gcno -> tmp/<stem>_<n>.gcno
     main.rs      worker directories          tmp.join(format!("{i}"))
     lib.rs       gcov outputs (by gcov)      working_dir.join(file_name(gcno) + ".gcov" | ".gcov.json.gz"), removed after parsing
     output.rs    single report file          the output path itself; multiple outputs: out.join(fixed name)
     html.rs      gen_html                    out.join(add_html_ext(rel)), only when rel.is_relative()
                  gen_dir_index               out.join(dir).join("index.html")   dir = parent of rel
                  gen_index / badges / json   out.join("index.html" | "badges/<style>.svg" | "coverage.json" | "bulma.min.css")
   The string-level step from `format!("{}_{}.gcno", stem, n)` to the last component is `parse`; theorems are on segments. *)
From Grcov Require Export Base.Prelude Base.Dec.
Import Coq.Strings.String.StringSyntax.

Inductive seg := Cur | Up | Name (n : bytes).
Record path := mkPath { p_abs : bool; p_segs : list seg }.

(* Path::components of a byte string: split at '/', empty pieces dropped, "." and ".." recognised *)
Fixpoint split_slash (cur : bytes) (s : bytes) : list bytes :=
  match s with
  | [] => [rev cur]
  | x :: t => if x =? 47 then rev cur :: split_slash [] t else split_slash (x :: cur) t
  end.
Definition seg_of (b : bytes) : option seg :=
  match b with
  | [] => None
  | [46] => Some Cur
  | [46; 46] => Some Up
  | _ => Some (Name b)
  end.
Definition parse (s : bytes) : path :=
  mkPath (match s with 47 :: _ => true | _ => false end) (omap seg_of (split_slash [] s)).

(* PathBuf::join: an absolute right operand replaces the left *)
Definition join (a b : path) : path := if p_abs b then b else mkPath (p_abs a) (p_segs a ++ p_segs b).

(* lexical normalisation of an absolute path: stack of names; ".." at the root stays at the root *)
Fixpoint walk (st : list bytes) (ss : list seg) : list bytes :=   (* st: innermost component first *)
  match ss with
  | [] => st
  | Cur :: t => walk st t
  | Up :: t => walk (tail st) t
  | Name n :: t => walk (n :: st) t
  end.
(* root: the components of an absolute directory, outermost first *)
Definition resolve (root : list bytes) (p : path) : list bytes :=
  rev (if p_abs p then walk [] (p_segs p) else walk (rev root) (p_segs p)).
Definition resolves_under (root : list bytes) (p : path) : Prop := exists rest, resolve root p = root ++ rest.
Definition resolves_underb (root : list bytes) (p : path) : bool :=
  bool_decide (take (length root) (resolve root p) = root).

(* a member name that may be joined to a directory: relative, no ".." *)
Definition is_name (s : seg) : bool := match s with Name _ | Cur => true | Up => false end.
Definition safe (p : path) : bool := negb (p_abs p) && forallb is_name (p_segs p).
Definition safe_entry (name : bytes) : bool := safe (parse name).

(* replace the last component: with_extension / format!("{}_{}.ext", stem, n) / add_html_ext all act on the file name *)
Definition with_file_name (p : path) (f : bytes) : path := mkPath (p_abs p) (removelast (p_segs p) ++ [Name f]).
(* Archive::extract destination of a member whose parsed name is p, new file name f = <file stem>_<n>.<ext> *)
Definition extract_dest (p : path) (f : bytes) : path := with_file_name p f.
(* html.rs gen_html destination for rel (file name f.html) *)
Definition html_dest (rel : path) (f : bytes) : path := with_file_name rel f.
(* the fixed relative outputs under the output directory *)
Definition fixed_outputs : list path :=
  map parse [bs "index.html"; bs "coverage.json"; bs "bulma.min.css"; bs "badges/flat.svg"; bs "badges/flat_square.svg";
             bs "badges/for_the_badge.svg"; bs "badges/plastic.svg"; bs "badges/social.svg";
             bs "lcov"; bs "activedata"; bs "coveralls"; bs "coveralls+"; bs "files"; bs "covdir"; bs "html"; bs "cobertura.xml"; bs "markdown.md"].
(* worker directory i and a gcov output inside it *)
Definition worker_dir (i : N) : path := mkPath false [Name (print_dec i)].
Definition gcov_out (i : N) (fname : bytes) : path := mkPath false [Name (print_dec i); Name fname].
