(* C20 - grcov's glue around the external tools.  Executable definitions only.

   MODELLED (grcov's own code):
   - producer.rs `llvm_format_producer`: the list of profile paths built from the discovered profiles;
   - llvm_tools.rs `llvm_profiles_to_lcov`, `find_binaries` (the selection it applies to what the walker yields);
   - lib.rs `consumer`: the Profraw/Profdata branch (parse every export, skip the ones that do not parse, add_results)
     and the GCC branch for `ItemType::Path` (run gcov, single/multiple-file latch `GcovType`, parse, remove_file,
     `rename_single_files`; on a gcov failure the worker directory is emptied and the item contributes nothing).
   NOT MODELLED (enters as data / Section variables, universally quantified in the theorems):
   - the tools: whether llvm-profdata / llvm-cov / gcov succeed and what they write (`toolset`, `gi_left`);
   - the `ignore` crate walker (which entries it yields, in which order), `infer::is_app` (a bit per entry),
     the file system (worker directory = association list), zip/symlink extraction into the temp dir;
   - the parsers (`parse`: parse_lcov is Model/Lcov.v, C04; parse_gcov_gz / parse_gcov are C09), std::path operations. *)
From Grcov Require Export Model.Merge Base.Dec.

(** * LLVM path *)

(* producer.rs:398-448.  `found` is the iteration of the FxHashMap name -> Vec<&Archive>; for each archive the profile is
   either a plain command-line argument (handed over as it is) or extracted to tmp_dir/<stem>_<num+1>.<ext>. *)
Inductive akind := APlain | AExtract.
Inductive ppath := PPlain (p : name) | PTmp (nm : name) (num : N).
Global Instance akind_eq_dec : EqDecision akind.
Proof. solve_decision. Defined.
Global Instance ppath_eq_dec : EqDecision ppath.
Proof. solve_decision. Defined.

Definition occurrence : Type := name * nat * akind.
Definition occurrences (found : list (name * list akind)) : list occurrence :=
  flat_map (fun '(nm, archives) => imap (fun i a => (nm, i, a)) archives) found.
Definition path_of (o : occurrence) : ppath :=
  match o with
  | (nm, _, APlain) => PPlain nm
  | (nm, i, AExtract) => PTmp nm (N.of_nat i + 1)
  end.
Definition profile_paths (found : list (name * list akind)) : list ppath := map path_of (occurrences found).
(* one work item for all profiles of a kind; none when there is no profile of that kind *)
Definition llvm_format_producer (found : list (name * list akind)) : list (list ppath) :=
  match found with [] => [] | _ => [profile_paths found] end.
(* the file name written for an extracted profile: `format!("{}_{}.{}", stem, num + 1, ext)` under tmp_dir;
   stem = name without its extension (name = stem ++ "." ++ ext) *)
Definition render_tmp (tmp stem ext : bytes) (num : N) : bytes :=
  tmp ++ [47] ++ stem ++ [95] ++ print_dec num ++ [46] ++ ext.

(* llvm_tools.rs:71-115.  What the parallel walker yields (entries it filters out are simply absent), with the facts
   find_binaries looks at: is_file, number of bytes read (<= 128), infer::is_app on the buffer. *)
Record fentry := mkFentry { fe_path : name; fe_is_file : bool; fe_read : N; fe_is_app : bool }.
Inductive bpath :=
  | BPMissing                       (* fs::metadata fails: panic *)
  | BPFile (p : name)               (* a regular file: taken as the binary, whatever it contains *)
  | BPDir (walk : list fentry).
Definition selected (e : fentry) : bool := fe_is_file e && negb (fe_read e =? 0) && fe_is_app e.
Definition find_binaries (b : bpath) : outcome (list name) :=
  match b with
  | BPMissing => Panic
  | BPFile p => Ok [p]
  | BPDir walk => Ok (map fe_path (filter (fun e => selected e = true) walk))
  end.

(* The tools as oracle data. *)
Record toolset := mkTools {
  t_profdata_found : bool;               (* get_profdata_path: <llvm-path>/llvm-profdata exists *)
  t_cov_found : bool;                    (* get_cov_path *)
  t_merge_ok : list ppath -> bool;       (* exit status of `llvm-profdata merge -f - -sparse -o grcov.profdata` on that stdin *)
  t_export : name -> option bytes        (* `llvm-cov export <binary> --instr-profile grcov.profdata --format lcov`: stdout if status 0 *)
}.
Inductive call := CMerge (stdin : list ppath) | CExport (binary : name).
Definition merge_calls (tr : list call) : list (list ppath) :=
  omap (fun c => match c with CMerge l => Some l | _ => None end) tr.
Definition export_calls (tr : list call) : list name :=
  omap (fun c => match c with CExport b => Some b | _ => None end) tr.

(* llvm_tools.rs:118-171; returns the calls made and the result *)
Definition llvm_profiles_to_lcov (t : toolset) (profiles : list ppath) (b : bpath) : list call * outcome (list bytes) :=
  if negb (t_profdata_found t) then ([], Err)
  else if negb (t_merge_ok t profiles) then ([CMerge profiles], Err)
  else match find_binaries b with
       | Ok bins =>
           if negb (t_cov_found t) then ([CMerge profiles], Err)
           else (CMerge profiles :: map CExport bins, Ok (omap (t_export t) bins))
       | Err => ([CMerge profiles], Err)
       | Panic => ([CMerge profiles], Panic)
       | OutOfFuel => ([CMerge profiles], OutOfFuel)
       end.

Section Consumer.
  (* parse_lcov _ branch_enabled *)
  Variable parse : bytes -> outcome (list (name * cov)).

  (* lib.rs:316-321: `for lcov in lcovs { new_results.append(&mut try_parse!(..)) }` - the `continue` of try_parse!
     binds to this inner loop: an export that does not parse is skipped, the others are kept *)
  Fixpoint parse_exports (ls : list bytes) : outcome (list (name * cov)) :=
    match ls with
    | [] => Ok []
    | l :: ls =>
        match parse l with
        | Ok rs => let* rest := parse_exports ls in Ok (rs ++ rest)
        | Err => parse_exports ls
        | Panic => Panic
        | OutOfFuel => OutOfFuel
        end
    end.

  (* lib.rs:301-334, one Profraw/Profdata work item; Ok m' = the loop goes on with map m' *)
  Definition consume_llvm (t : toolset) (binary_path : option bpath) (m : filemap) (profiles : list ppath)
    : list call * outcome filemap :=
    match binary_path with
    | None => ([], Ok m)
    | Some b =>
        let '(tr, r) := llvm_profiles_to_lcov t profiles b in
        (tr, match r with
             | Ok lcovs => let* rs := parse_exports lcovs in Ok (add_results m rs)
             | Err => Ok m
             | Panic => Panic
             | OutOfFuel => OutOfFuel
             end)
    end.

  (* several items (the profdata item and the profraw item), each with the tools' behaviour at that moment *)
  Fixpoint consume_llvm_items (binary_path : option bpath) (m : filemap) (items : list (toolset * list ppath))
    : list call * outcome filemap :=
    match items with
    | [] => ([], Ok m)
    | (t, ps) :: rest =>
        let '(tr, r) := consume_llvm t binary_path m ps in
        match r with
        | Ok m' => let '(tr', r') := consume_llvm_items binary_path m' rest in (tr ++ tr', r')
        | e => (tr, e)
        end
    end.

  (* what one binary contributes: nothing when its export fails or does not parse *)
  Definition good_batch (t : toolset) (b : name) : list (name * cov) :=
    match t_export t b with
    | Some l => match parse l with Ok rs => rs | _ => [] end
    | None => []
    end.
End Consumer.

(** * GCC path: lib.rs:186-269, the `ItemType::Path` arm *)

Inductive gcov_type := GUnknown | GSingle | GMultiple.
Notation wdir := (list (name * bytes)).      (* the worker directory, in WalkDir order *)

Fixpoint dir_lookup (n : name) (d : wdir) : option bytes :=
  match d with
  | [] => None
  | (k, v) :: d => if decide (k = n) then Some v else dir_lookup n d
  end.
Definition dir_remove (n : name) (d : wdir) : wdir := filter (fun e => e.1 <> n) d.
(* gcov writes its files into the directory (replacing files of the same name) *)
Definition dir_write (left : wdir) (d : wdir) : wdir :=
  left ++ filter (fun e => e.1 ∉ left.*1) d.

Record gitem := mkGitem {
  gi_stem : name;             (* stem sent by the producer *)
  gi_gcno_name : name;        (* gcno_path.file_name() *)
  gi_run_ok : bool;           (* run_gcov: the process ran and exited with status 0 *)
  gi_left : wdir              (* what that gcov run wrote into the worker directory *)
}.

Section Gcc.
  Variable parse_file : name -> bytes -> outcome (list (name * cov)).  (* parse_gcov_gz / parse_gcov on an existing file *)
  Variable has_ext : name -> bool.                                    (* Path::extension() is Some *)
  Variable ext : name.                                                (* get_gcov_output_ext() *)
  Variable rename : name -> name -> name.     (* rename_single_files on one name: stem, file name (std::path parent / join) *)

  Definition finish (guess : bool) (stem : name) (rs : list (name * cov)) : list (name * cov) :=
    if guess then map (fun r => (rename stem r.1, r.2)) rs else rs.

  (* lib.rs:246-260: WalkDir over the worker directory; a file that does not parse is skipped AND stays *)
  Fixpoint walk_dir (todo : wdir) (d : wdir) (acc : list (name * cov)) : outcome (wdir * list (name * cov)) :=
    match todo with
    | [] => Ok (d, acc)
    | (n, c) :: todo =>
        if negb (has_ext n) then Panic      (* gcov_path.extension().unwrap() *)
        else match parse_file n c with
             | Ok rs => walk_dir todo (dir_remove n d) (acc ++ rs)
             | Err => walk_dir todo d acc
             | Panic => Panic
             | OutOfFuel => OutOfFuel
             end
    end.

  (* one work item.  Result: new latch, new directory, Some results (added to the map) or None (`continue`) *)
  Definition gcc_step (guess : bool) (ty : gcov_type) (d : wdir) (it : gitem)
    : outcome (gcov_type * wdir * option (list (name * cov))) :=
    let d := dir_write (gi_left it) d in
    (* run_gcov failed: every regular file of the worker directory is removed (gcov may have written its output before
       failing), the item contributes nothing, the latch is untouched (lib.rs, fix 1aab954) *)
    if negb (gi_run_ok it) then Ok (ty, [], None)
    else
      let gp := gi_gcno_name it ++ ext in
      let ty := match ty with
                | GUnknown => match dir_lookup gp d with Some _ => GSingle | None => GMultiple end
                | t => t
                end in
      match ty with
      | GSingle =>
          match dir_lookup gp d with
          | None => Panic                       (* File::open(..).unwrap_or_else(panic) *)
          | Some c =>
              match parse_file gp c with
              | Ok rs => Ok (ty, dir_remove gp d, Some (finish guess (gi_stem it) rs))
              | Err => Ok (ty, d, None)         (* try_parse!: continue, the file is not removed *)
              | Panic => Panic
              | OutOfFuel => OutOfFuel
              end
          end
      | _ =>
          obind (walk_dir d d []) (fun '(d', rs) =>
          Ok (ty, d', Some (finish guess (gi_stem it) rs)))
      end.

  (* the behaviour before fix 1aab954, kept only for the refutation Example in Props/C20.v: on a gcov failure the
     partial output stayed in the worker directory and the next item of the same worker picked it up *)
  Definition gcc_step_old (guess : bool) (ty : gcov_type) (d : wdir) (it : gitem)
    : outcome (gcov_type * wdir * option (list (name * cov))) :=
    if negb (gi_run_ok it) then Ok (ty, dir_write (gi_left it) d, None) else gcc_step guess ty d it.
  Fixpoint gcc_worker_old (guess : bool) (ty : gcov_type) (d : wdir) (items : list gitem)
    : outcome (gcov_type * wdir * list (list (name * cov))) :=
    match items with
    | [] => Ok (ty, d, [])
    | it :: items =>
        obind (gcc_step_old guess ty d it) (fun '(ty', d', r) =>
        obind (gcc_worker_old guess ty' d' items) (fun '(ty'', d'', bs) =>
        Ok (ty'', d'', match r with Some b => b :: bs | None => bs end)))
    end.

  (* one consumer thread over its items; the batches it adds, in order *)
  Fixpoint gcc_worker (guess : bool) (ty : gcov_type) (d : wdir) (items : list gitem)
    : outcome (gcov_type * wdir * list (list (name * cov))) :=
    match items with
    | [] => Ok (ty, d, [])
    | it :: items =>
        obind (gcc_step guess ty d it) (fun '(ty', d', r) =>
        obind (gcc_worker guess ty' d' items) (fun '(ty'', d'', bs) =>
        Ok (ty'', d'', match r with Some b => b :: bs | None => bs end)))
    end.

  (* what an item contributes when gcov and the parser behave: every file it left, parsed *)
  Definition item_results (guess : bool) (it : gitem) : list (name * cov) :=
    finish guess (gi_stem it)
      (flat_map (fun e => match parse_file e.1 e.2 with Ok rs => rs | _ => [] end) (gi_left it)).
End Gcc.

(* the shared result map after the batches were added in the order in which the workers took the lock *)
Definition add_batches (m : filemap) (bs : list (list (name * cov))) : filemap := foldl add_results m bs.
