(* The producer / consumers / main pipeline of src/main.rs (thread section) and src/lib.rs
   (consumer loop, add_results under the result-map lock) as a labelled transition system
   (DESIGN.md Appendix A).  Executable definitions only.

   Items are identified by numbers; what parsing an item yields and which fault (if any)
   it triggers are parameters.  The queue capacity is a parameter too (the code uses
   2 * num_threads): nothing below depends on its value beyond cap >= 1. *)
From Grcov Require Export Model.Cov Model.Merge.

Inductive fault_kind := FNone | FReject | FDieParse | FDieLocked.

Record cfg := mkCfg {
  n_workers : nat;
  cap : nat;
  keep_rx : bool;                                   (* main keeps its own receiver handle (the pinned code did) *)
  parse : N -> option (list (name * cov));          (* None: the parser rejects the item *)
  fault : N -> fault_kind
}.

Inductive pst := PRun (rem : list N) | PDone | PDead.
Inductive wst := WIdle | WHolding (i : N) | WParsed (i : N) | WExited | WDead.
Inductive mst := MWaitProd | MSendStop (k : nat) | MJoinW (j : nat) | MExit (c : N).

Record st := mkSt {
  s_p : pst;
  s_q : list (option N);          (* FIFO, head = next to be received; None = stop marker *)
  s_w : list wst;
  s_acc : filemap;
  s_poisoned : bool;
  s_m : mst;
  s_merged : list N;              (* items merged so far, in merge order *)
  s_rejected : list N;
  s_lost : list N                 (* items held by a worker when it died *)
}.

Definition init (c : cfg) (items : list N) : st :=
  mkSt (PRun items) [] (replicate (n_workers c) WIdle) ∅ false MWaitProd [] [] [].

Definition w_live (w : wst) : bool := match w with WExited | WDead => false | _ => true end.
(* some receiver handle exists: a worker's clone is dropped when its closure returns or unwinds *)
Definition rx_alive (c : cfg) (s : st) : bool := keep_rx c || existsb w_live (s_w s).
Definition exited (s : st) : bool := match s_m s with MExit _ => true | _ => false end.

Inductive label :=
  | LSend | LSendFail | LProdDone
  | LRecv (w : nat) | LRecvStop (w : nat)
  | LRejected (w : nat) | LDieParse (w : nat) | LParsed (w : nat)
  | LMerged (w : nat) | LDieLocked (w : nat)
  | LJoinedProd | LProdPanicked
  | LSentStop | LStopFail | LStopsDone
  | LJoined | LJoinDead | LFinish.

Definition set_w (s : st) (w : nat) (x : wst) : st :=
  mkSt (s_p s) (s_q s) (<[w := x]> (s_w s)) (s_acc s) (s_poisoned s) (s_m s) (s_merged s) (s_rejected s) (s_lost s).
Definition set_m (s : st) (m : mst) : st :=
  mkSt (s_p s) (s_q s) (s_w s) (s_acc s) (s_poisoned s) m (s_merged s) (s_rejected s) (s_lost s).

Definition step (c : cfg) (s : st) (l : label) : option st :=
  if exited s then None else
  match l with
  | LSend =>
      match s_p s with
      | PRun (it :: r) =>
          if Nat.ltb (length (s_q s)) (cap c)
          then Some (mkSt (PRun r) (s_q s ++ [Some it]) (s_w s) (s_acc s) (s_poisoned s) (s_m s) (s_merged s) (s_rejected s) (s_lost s))
          else None
      | _ => None
      end
  | LSendFail =>                                   (* send() fails: every receiver is gone; unwrap panics *)
      match s_p s with
      | PRun (_ :: _) =>
          if rx_alive c s then None
          else Some (mkSt PDead (s_q s) (s_w s) (s_acc s) (s_poisoned s) (s_m s) (s_merged s) (s_rejected s) (s_lost s))
      | _ => None
      end
  | LProdDone =>
      match s_p s with
      | PRun [] => Some (mkSt PDone (s_q s) (s_w s) (s_acc s) (s_poisoned s) (s_m s) (s_merged s) (s_rejected s) (s_lost s))
      | _ => None
      end
  | LRecv w =>
      match s_w s !! w, s_q s with
      | Some WIdle, Some it :: q =>
          Some (mkSt (s_p s) q (<[w := WHolding it]> (s_w s)) (s_acc s) (s_poisoned s) (s_m s) (s_merged s) (s_rejected s) (s_lost s))
      | _, _ => None
      end
  | LRecvStop w =>
      match s_w s !! w, s_q s with
      | Some WIdle, None :: q =>
          Some (mkSt (s_p s) q (<[w := WExited]> (s_w s)) (s_acc s) (s_poisoned s) (s_m s) (s_merged s) (s_rejected s) (s_lost s))
      | _, _ => None
      end
  | LRejected w =>
      match s_w s !! w with
      | Some (WHolding it) =>
          match fault c it, parse c it with
          | FReject, _ | FNone, None | FDieLocked, None =>
              Some (mkSt (s_p s) (s_q s) (<[w := WIdle]> (s_w s)) (s_acc s) (s_poisoned s) (s_m s)
                         (s_merged s) (s_rejected s ++ [it]) (s_lost s))
          | _, _ => None
          end
      | _ => None
      end
  | LDieParse w =>
      match s_w s !! w with
      | Some (WHolding it) =>
          match fault c it with
          | FDieParse => Some (mkSt (s_p s) (s_q s) (<[w := WDead]> (s_w s)) (s_acc s) (s_poisoned s) (s_m s)
                                    (s_merged s) (s_rejected s) (s_lost s ++ [it]))
          | _ => None
          end
      | _ => None
      end
  | LParsed w =>
      match s_w s !! w with
      | Some (WHolding it) =>
          match fault c it, parse c it with
          | FNone, Some _ | FDieLocked, Some _ => Some (set_w s w (WParsed it))
          | _, _ => None
          end
      | _ => None
      end
  | LMerged w =>                                   (* add_results: the whole batch under one lock acquisition *)
      match s_w s !! w with
      | Some (WParsed it) =>
          match fault c it, s_poisoned s, parse c it with
          | FNone, false, Some b =>
              Some (mkSt (s_p s) (s_q s) (<[w := WIdle]> (s_w s)) (add_results (s_acc s) b) false (s_m s)
                         (s_merged s ++ [it]) (s_rejected s) (s_lost s))
          | _, _, _ => None
          end
      | _ => None
      end
  | LDieLocked w =>                                (* lock().unwrap() on a poisoned mutex, or a panic under the lock *)
      match s_w s !! w with
      | Some (WParsed it) =>
          if s_poisoned s || match fault c it with FDieLocked => true | _ => false end
          then Some (mkSt (s_p s) (s_q s) (<[w := WDead]> (s_w s)) (s_acc s) true (s_m s) (s_merged s) (s_rejected s) (s_lost s ++ [it]))
          else None
      | _ => None
      end
  | LJoinedProd =>
      match s_m s, s_p s with MWaitProd, PDone => Some (set_m s (MSendStop 0)) | _, _ => None end
  | LProdPanicked =>
      match s_m s, s_p s with MWaitProd, PDead => Some (set_m s (MExit 1)) | _, _ => None end
  | LSentStop =>
      match s_m s with
      | MSendStop k =>
          if Nat.ltb k (n_workers c) && Nat.ltb (length (s_q s)) (cap c)
          then Some (mkSt (s_p s) (s_q s ++ [None]) (s_w s) (s_acc s) (s_poisoned s) (MSendStop (S k)) (s_merged s) (s_rejected s) (s_lost s))
          else None
      | _ => None
      end
  | LStopFail =>
      match s_m s with
      | MSendStop k => if Nat.ltb k (n_workers c) && negb (rx_alive c s) then Some (set_m s (MExit 101)) else None
      | _ => None
      end
  | LStopsDone =>
      match s_m s with
      | MSendStop k => if Nat.eqb k (n_workers c) then Some (set_m s (MJoinW 0)) else None
      | _ => None
      end
  | LJoined =>
      match s_m s with
      | MJoinW j => match s_w s !! j with Some WExited => Some (set_m s (MJoinW (S j))) | _ => None end
      | _ => None
      end
  | LJoinDead =>
      match s_m s with
      | MJoinW j => match s_w s !! j with Some WDead => Some (set_m s (MExit 1)) | _ => None end
      | _ => None
      end
  | LFinish =>
      match s_m s with
      | MJoinW j => if Nat.eqb j (n_workers c) then Some (set_m s (MExit 0)) else None
      | _ => None
      end
  end.

Fixpoint run (c : cfg) (s : st) (ls : list label) : option st :=
  match ls with
  | [] => Some s
  | l :: ls => match step c s l with Some s' => run c s' ls | None => None end
  end.

(* every label, for the enabledness test *)
Definition all_labels (c : cfg) : list label :=
  [LSend; LSendFail; LProdDone; LJoinedProd; LProdPanicked; LSentStop; LStopFail; LStopsDone; LJoined; LJoinDead; LFinish]
  ++ flat_map (fun w => [LRecv w; LRecvStop w; LRejected w; LDieParse w; LParsed w; LMerged w; LDieLocked w])
              (seq 0 (n_workers c)).
Definition enabled (c : cfg) (s : st) : list label :=
  filter (fun l => is_Some (step c s l)) (all_labels c).
Definition stuck (c : cfg) (s : st) : bool := negb (exited s) && bool_decide (enabled c s = []).

Local Open Scope nat_scope.
(* natural-number measure that every step decreases (termination) *)
Definition w_rank (w : wst) : nat :=
  match w with WIdle => 1 | WHolding _ => 3 | WParsed _ => 2 | WExited | WDead => 0 end.
Definition m_rank (c : cfg) (m : mst) : nat :=
  match m with
  | MWaitProd => 6 * n_workers c + 4
  | MSendStop k => 5 * (n_workers c - k) + n_workers c + 3
  | MJoinW j => (n_workers c - j) + 1
  | MExit _ => 0
  end.
Definition p_rank (p : pst) : nat :=
  match p with PRun r => 5 * length r + 2 | PDone => 0 | PDead => 0 end.
Definition measure (c : cfg) (s : st) : nat :=
  p_rank (s_p s) + 4 * length (s_q s) + foldr (fun w a => w_rank w + a) 0 (s_w s) + m_rank c (s_m s).
