#!/bin/sh
# regenerate _CoqProject and Makefile from the theories tree
cd "$(dirname "$0")"
{ echo "-Q theories Grcov"
  echo "-arg -w -arg -notation-overridden,-ambiguous-paths,-deprecated-instance-without-locality,-deprecated-hint-rewrite-without-locality"
  find theories -name '*.v' | sort; } > _CoqProject
coq_makefile -f _CoqProject -o Makefile >/dev/null
