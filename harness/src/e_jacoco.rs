// engine "jacoco": {"xml": hex, "cpu_ms"?: n, "mem_mb"?: n, "events"?: bool}
// -> {"res": {"ok": results} | {"err": kind} | {"panic": msg} | {"hang": true} | {"abort": true} | {"signal": n},
//     "events": [...]}
//
// (a) grcov::parse_jacoco_xml_report(BufReader::new(Cursor::new(bytes))) run in a forked child with a CPU-time
//     limit (ITIMER_VIRTUAL) and an address-space limit, because the function can spin forever (Eof inside an
//     element) and can ask for allocations of attacker-chosen size; the child reports through a pipe.
// (b) the event stream quick-xml 0.37 yields for the same bytes with the SAME reader configuration as
//     parser.rs:847-850 (expand_empty_elements = true, trim_text(false)), in the form the Gallina model consumes:
//       ["S", hex local name, [[hex key, hex raw value, hex unescaped value | null], ..., "bad"?]]   Start
//       ["E", hex local name]   End        ["T"] Text/CData     ["O"] comment, decl, PI, doctype
//       ["Z"] Eof (last)        ["X"] Err (last)
//     Attribute lists stop after the first item for which the iterator returned Err ("bad"): every consumer in
//     parser.rs returns on the first such item.  The unescaped value is `decode_and_unescape_value(reader.decoder())`
//     (what get_xml_attribute uses); the raw value is what the `line` loop parses with `Decoder{}.decode`.
use crate::util::*;
use quick_xml::events::Event;
use quick_xml::Reader;
use serde_json::{json, Value};
use std::io::{BufReader, Cursor};

fn err_kind(e: &grcov::ParserError) -> &'static str {
    match e {
        grcov::ParserError::Io(_) => "io",
        grcov::ParserError::Parse(_) => "parse",
        grcov::ParserError::InvalidData(_) => "invalid_data",
        grcov::ParserError::InvalidRecord(_) => "invalid_record",
    }
}

pub fn dump_events(bytes: &[u8]) -> Value {
    let mut parser = Reader::from_reader(BufReader::new(Cursor::new(bytes.to_vec())));
    let config = parser.config_mut();
    config.expand_empty_elements = true;
    config.trim_text(false);
    let mut buf = Vec::new();
    let mut out: Vec<Value> = Vec::new();
    loop {
        let ev = parser.read_event_into(&mut buf);
        match ev {
            Ok(Event::Start(ref e)) => {
                let mut attrs: Vec<Value> = Vec::new();
                for a in e.attributes() {
                    match a {
                        Ok(a) => {
                            let un = match a.decode_and_unescape_value(parser.decoder()) {
                                Ok(s) => Value::String(hex(s.as_bytes())),
                                Err(_) => Value::Null,
                            };
                            attrs.push(json!([hex(a.key.into_inner()), hex(&a.value), un]));
                        }
                        Err(_) => {
                            attrs.push(json!("bad"));
                            break;
                        }
                    }
                }
                out.push(json!(["S", hex(e.local_name().into_inner()), attrs]));
            }
            Ok(Event::End(ref e)) => out.push(json!(["E", hex(e.local_name().into_inner())])),
            Ok(Event::Eof) => {
                out.push(json!(["Z"]));
                break;
            }
            Ok(Event::Text(_)) | Ok(Event::CData(_)) => out.push(json!(["T"])),
            Ok(Event::Empty(_)) => out.push(json!(["EMPTY-not-expected"])),
            Ok(_) => out.push(json!(["O"])),
            Err(_) => {
                out.push(json!(["X"]));
                break;
            }
        }
        buf.clear();
    }
    Value::Array(out)
}

fn run_parser(bytes: &[u8]) -> Value {
    let r = std::panic::catch_unwind(|| grcov::parse_jacoco_xml_report(BufReader::new(Cursor::new(bytes.to_vec()))));
    match r {
        Ok(Ok(rs)) => json!({"ok": results_to(&rs)}),
        Ok(Err(e)) => json!({"err": err_kind(&e)}),
        Err(e) => {
            let msg = if let Some(s) = e.downcast_ref::<&str>() {
                s.to_string()
            } else if let Some(s) = e.downcast_ref::<String>() {
                s.clone()
            } else {
                "?".to_string()
            };
            json!({ "panic": msg })
        }
    }
}

#[repr(C)]
struct ItimerVal {
    it_interval: libc::timeval,
    it_value: libc::timeval,
}
extern "C" {
    fn setitimer(which: libc::c_int, new: *const ItimerVal, old: *mut ItimerVal) -> libc::c_int;
}

fn run_forked(bytes: &[u8], cpu_ms: u64, mem_mb: u64) -> Value {
    unsafe {
        let mut fds = [0 as libc::c_int; 2];
        if libc::pipe(fds.as_mut_ptr()) != 0 {
            return json!({"error": "pipe"});
        }
        let pid = libc::fork();
        if pid < 0 {
            return json!({"error": "fork"});
        }
        if pid == 0 {
            libc::close(fds[0]);
            // quiet: allocation-failure message and anything else on stderr
            let devnull = libc::open(b"/dev/null\0".as_ptr() as *const libc::c_char, libc::O_WRONLY);
            if devnull >= 0 {
                libc::dup2(devnull, 2);
            }
            let lim = libc::rlimit { rlim_cur: mem_mb * 1024 * 1024, rlim_max: mem_mb * 1024 * 1024 };
            libc::setrlimit(libc::RLIMIT_AS, &lim);
            let tv = libc::timeval { tv_sec: (cpu_ms / 1000) as libc::time_t, tv_usec: ((cpu_ms % 1000) * 1000) as libc::suseconds_t };
            let it = ItimerVal { it_interval: libc::timeval { tv_sec: 0, tv_usec: 0 }, it_value: tv };
            setitimer(1 /* ITIMER_VIRTUAL */, &it, std::ptr::null_mut());
            let v = run_parser(bytes);
            let s = v.to_string();
            let b = s.as_bytes();
            let mut off = 0usize;
            while off < b.len() {
                let n = libc::write(fds[1], b[off..].as_ptr() as *const libc::c_void, b.len() - off);
                if n <= 0 {
                    break;
                }
                off += n as usize;
            }
            libc::_exit(0);
        }
        libc::close(fds[1]);
        let mut data: Vec<u8> = Vec::new();
        let mut chunk = [0u8; 65536];
        loop {
            let n = libc::read(fds[0], chunk.as_mut_ptr() as *mut libc::c_void, chunk.len());
            if n <= 0 {
                break;
            }
            data.extend_from_slice(&chunk[..n as usize]);
        }
        libc::close(fds[0]);
        let mut status: libc::c_int = 0;
        libc::waitpid(pid, &mut status, 0);
        if libc::WIFSIGNALED(status) {
            let sig = libc::WTERMSIG(status);
            if sig == libc::SIGVTALRM {
                return json!({"hang": true});
            }
            if sig == libc::SIGABRT {
                return json!({"abort": true});
            }
            return json!({ "signal": sig });
        }
        match serde_json::from_slice::<Value>(&data) {
            Ok(v) => v,
            Err(_) => json!({"error": "child output unparsable", "exit": libc::WEXITSTATUS(status)}),
        }
    }
}

pub fn run(case: &Value) -> Value {
    let bytes = unhex(case["xml"].as_str().unwrap());
    let cpu_ms = case["cpu_ms"].as_u64().unwrap_or(300);
    let mem_mb = case["mem_mb"].as_u64().unwrap_or(1024);
    let res = run_forked(&bytes, cpu_ms, mem_mb);
    if case["events"].as_bool().unwrap_or(true) {
        json!({"res": res, "events": dump_events(&bytes)})
    } else {
        json!({ "res": res })
    }
}
