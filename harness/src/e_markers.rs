// engine "markers": {"text": hex, "opts": [six optional regex strings: line,start,stop,br_line,br_start,br_stop],
//                    "cov": cov, "readable": bool}
// -> {"filters": [[kind, n]..], "flags": [[6 bools] per line as split by the implementation's rule], "cov": cov after applying}
use crate::util::*;
use grcov::{FileFilter, FilterType};
use regex::Regex;
use serde_json::{json, Value};
use std::io::Write;

pub fn run(case: &Value) -> Value {
    let text = unhex(case["text"].as_str().unwrap());
    let opts: Vec<Option<Regex>> = case["opts"]
        .as_array()
        .unwrap()
        .iter()
        .map(|o| o.as_str().map(|s| Regex::new(s).unwrap()))
        .collect();
    let ff = FileFilter::new(
        opts[0].clone(), opts[1].clone(), opts[2].clone(), opts[3].clone(), opts[4].clone(), opts[5].clone(),
    );
    let dir = tempfile::tempdir_in(".").unwrap();
    let path = dir.path().join("src.txt");
    if case["readable"].as_bool().unwrap_or(true) {
        let mut f = std::fs::File::create(&path).unwrap();
        f.write_all(&text).unwrap();
    }
    let filters = ff.create(&path);
    let mut fl = Vec::new();
    for f in filters {
        match f {
            FilterType::Both(n) => fl.push(json!(["both", n])),
            FilterType::Line(n) => fl.push(json!(["line", n])),
            FilterType::Branch(n) => fl.push(json!(["branch", n])),
        }
    }
    // the record goes through the real report pipeline of main.rs: rewrite_paths (which applies the
    // filters, path_rewriting.rs:373-386) and then merge_same_paths with the --filter option
    let filter_option = case["filter"].as_bool();
    let mut map: grcov::CovResultMap = Default::default();
    let abs = std::fs::canonicalize(dir.path()).unwrap().join("src.txt");
    map.insert(abs.to_str().unwrap().to_string(), cov_of(&case["cov"]));
    let none: [&str; 0] = [];
    let out = grcov::rewrite_paths(map, None, None, None, false, &none, &none, None, ff);
    let out = grcov::merge_same_paths(out, filter_option);
    let present = !out.is_empty();
    let cov = out.into_iter().next().map(|t| t.2).unwrap_or_default();
    // what the six regexes say about each line (regex crate is outside the model)
    let mut flags = Vec::new();
    if let Ok(s) = String::from_utf8(text) {
        for line in s.split('\n') {
            let line = line.strip_suffix('\r').unwrap_or(line);
            let v: Vec<bool> = opts.iter().map(|o| o.as_ref().map_or(false, |r| r.is_match(line))).collect();
            flags.push(v);
        }
    }
    json!({"filters": fl, "flags": flags, "cov": cov_to(&cov), "present": present})
}
