// engine "markers": {"text": hex, "opts": [six optional regex strings: line,start,stop,br_line,br_start,br_stop],
//                    "cov": cov, "readable": bool}
// -> {"filters": [[kind, n]..], "flags": [[6 bools] per line as split by the implementation's rule], "cov": cov after applying}
use crate::util::*;
use grcov::{FileFilter, FilterType};
use regex::Regex;
use serde_json::{json, Value};
use std::io::Write;

pub fn run(case: &Value) -> Value {
    let text = unhex(case["text"].as_str().unwrap());
    let opts: Vec<Option<Regex>> = case["opts"]
        .as_array()
        .unwrap()
        .iter()
        .map(|o| o.as_str().map(|s| Regex::new(s).unwrap()))
        .collect();
    let ff = FileFilter::new(
        opts[0].clone(), opts[1].clone(), opts[2].clone(), opts[3].clone(), opts[4].clone(), opts[5].clone(),
    );
    let dir = tempfile::tempdir_in(".").unwrap();
    let path = dir.path().join("src.txt");
    if case["readable"].as_bool().unwrap_or(true) {
        let mut f = std::fs::File::create(&path).unwrap();
        f.write_all(&text).unwrap();
    }
    let filters = ff.create(&path);
    let mut cov = cov_of(&case["cov"]);
    let mut fl = Vec::new();
    for f in filters {
        // same application as path_rewriting.rs:373-386
        match f {
            FilterType::Both(n) => {
                cov.branches.remove(&n);
                cov.lines.remove(&n);
                fl.push(json!(["both", n]));
            }
            FilterType::Line(n) => {
                cov.lines.remove(&n);
                fl.push(json!(["line", n]));
            }
            FilterType::Branch(n) => {
                cov.branches.remove(&n);
                fl.push(json!(["branch", n]));
            }
        }
    }
    // what the six regexes say about each line (regex crate is outside the model)
    let mut flags = Vec::new();
    if let Ok(s) = String::from_utf8(text) {
        for line in s.split('\n') {
            let line = line.strip_suffix('\r').unwrap_or(line);
            let v: Vec<bool> = opts.iter().map(|o| o.as_ref().map_or(false, |r| r.is_match(line))).collect();
            flags.push(v);
        }
    }
    json!({"filters": fl, "flags": flags, "cov": cov_to(&cov)})
}
