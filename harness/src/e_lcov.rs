// engine "lcov": {"hex": bytes, "branch": bool} -> parse_lcov
// engine "lcov_rt": {"results":[[name, cov]..], "branch": bool, "k": n} -> k-fold output_lcov/parse_lcov round trip
use crate::util::*;
use grcov::*;
use serde_json::{json, Value};
use std::path::PathBuf;

pub fn perr(e: &ParserError) -> &'static str {
    match e {
        ParserError::Io(_) => "Io",
        ParserError::Parse(_) => "Parse",
        ParserError::InvalidRecord(_) => "InvalidRecord",
        ParserError::InvalidData(_) => "InvalidData",
    }
}

pub fn run(case: &Value) -> Value {
    let bytes = unhex(case["hex"].as_str().unwrap());
    match parse_lcov(bytes, case["branch"].as_bool().unwrap()) {
        Ok(rs) => {
            // a branch vector of millions of slots (sized by a BRDA branch number in the input) is not serialised
            let m = rs.iter().flat_map(|(_, c)| c.branches.values().map(|v| v.len())).max().unwrap_or(0);
            if m > (1 << 20) {
                return json!({ "huge_branch_vector": m });
            }
            json!({"ok": results_to(&rs)})
        }
        Err(e) => json!({"err": perr(&e)}),
    }
}

pub fn results_of(v: &Value) -> Vec<(String, CovResult)> {
    v.as_array().unwrap().iter().map(|e| (name_of(&e[0]), cov_of(&e[1]))).collect()
}

pub fn lcov_bytes(rs: &[(String, CovResult)], dir: &std::path::Path) -> Vec<u8> {
    let tuples: Vec<ResultTuple> = rs
        .iter()
        .map(|(n, c)| (PathBuf::from(n), PathBuf::from(n), c.clone()))
        .collect();
    let out = dir.join("out.info");
    output_lcov(&tuples, Some(&out), false);
    std::fs::read(&out).unwrap()
}

pub fn run_rt(case: &Value) -> Value {
    let mut rs = results_of(&case["results"]);
    let branch = case["branch"].as_bool().unwrap();
    let k = case["k"].as_u64().unwrap();
    let dir = tempfile::tempdir_in(".").unwrap();
    let mut outs = Vec::new();
    for _ in 0..k {
        let bytes = lcov_bytes(&rs, dir.path());
        outs.push(hex(&bytes));
        match parse_lcov(bytes, branch) {
            Ok(r) => rs = r,
            Err(e) => return json!({"err": perr(&e), "outs": outs}),
        }
    }
    json!({"ok": results_to(&rs), "outs": outs})
}

// engine "parse": {"hex": bytes, "format": "info"|"xml", "branch": bool} -> what the consumer would add for this artifact
pub fn run_parse(case: &Value) -> Value {
    let bytes = unhex(case["hex"].as_str().unwrap());
    let branch = case["branch"].as_bool().unwrap();
    let r = if case["format"].as_str().unwrap() == "xml" {
        parse_jacoco_xml_report(std::io::BufReader::new(std::io::Cursor::new(bytes)))
    } else {
        parse_lcov(bytes, branch)
    };
    match r {
        Ok(rs) => json!({"ok": results_to(&rs)}),
        Err(e) => json!({"err": perr(&e)}),
    }
}
