// impl_run <engine> <cases.jsonl>  -> one JSON line per case on stdout.
// Every engine call is wrapped in catch_unwind: a panic becomes {"panic": "..."}.
use serde_json::{json, Value};
use std::io::{BufRead, BufReader, Write};
use std::panic;

mod util;
mod e_merge;
mod e_lcov;
mod e_markers;
mod e_gcno;
mod e_gcov;
mod e_rewrite;
mod e_jacoco;
mod e_producer;
mod e_report;
mod e_escape;

fn dispatch(engine: &str, case: &Value) -> Value {
    match engine {
        "merge" => e_merge::run(case),
        "consume" => e_merge::run_consume(case),
        "lcov" => e_lcov::run(case),
        "escape" => e_escape::run(case),
        "report" => e_report::run(case),
        "producer" => e_producer::run(case),
        "jacoco" => e_jacoco::run(case),
        "rewrite" => e_rewrite::run(case),
        "pathfacts" => e_rewrite::run_facts(case),
        "gcov_text" => e_gcov::run_text(case),
        "gcov_json" => e_gcov::run_json(case),
        "gcno" => e_gcno::run(case),
        "markers" => e_markers::run(case),
        "parse" => e_lcov::run_parse(case),
        "lcov_rt" => e_lcov::run_rt(case),
        _ => json!({"error": format!("unknown engine {}", engine)}),
    }
}

fn main() {
    let args: Vec<String> = std::env::args().collect();
    if args.len() < 3 {
        eprintln!("usage: impl_run <engine> <cases.jsonl>");
        std::process::exit(2);
    }
    let engine = args[1].clone();
    let f = std::fs::File::open(&args[2]).expect("open cases");
    // silence the default panic message; panics are reported in-band
    panic::set_hook(Box::new(|_| {}));
    // every result line is flushed at once, so that a case that never returns loses nothing of what came before it;
    // a watchdog thread reports such a case in-band ({"hang": ..}) and ends the process: the driver re-runs the rest
    let limit_s: u64 = std::env::var("IMPL_CASE_TIMEOUT_S").ok().and_then(|s| s.parse().ok()).unwrap_or(30);
    let started = std::sync::Arc::new(std::sync::Mutex::new(None::<std::time::Instant>));
    {
        let started = started.clone();
        std::thread::spawn(move || loop {
            std::thread::sleep(std::time::Duration::from_millis(200));
            let guard = started.lock().unwrap();
            if let Some(t0) = *guard {
                if t0.elapsed().as_secs() >= limit_s {
                    let mut o = std::io::stdout();
                    let _ = writeln!(o, "{}", json!({"hang": format!("the case did not finish within {} s", limit_s), "_us": t0.elapsed().as_micros() as u64}));
                    let _ = o.flush();
                    std::process::exit(3);
                }
            }
        });
    }
    let mut out = std::io::stdout();
    for line in BufReader::new(f).lines() {
        let line = line.expect("read");
        if line.trim().is_empty() {
            continue;
        }
        let case: Value = serde_json::from_str(&line).expect("case json");
        let eng = engine.clone();
        let t0 = std::time::Instant::now();
        *started.lock().unwrap() = Some(t0);
        let res = panic::catch_unwind(panic::AssertUnwindSafe(|| dispatch(&eng, &case)));
        // (taking the lock also keeps the watchdog from reporting a case whose result is being written)
        let mut running = started.lock().unwrap();
        *running = None;
        let us = t0.elapsed().as_micros() as u64;
        let mut v = match res {
            Ok(v) => v,
            Err(e) => {
                let msg = if let Some(s) = e.downcast_ref::<&str>() {
                    s.to_string()
                } else if let Some(s) = e.downcast_ref::<String>() {
                    s.clone()
                } else {
                    "?".to_string()
                };
                json!({ "panic": msg })
            }
        };
        if let Some(o) = v.as_object_mut() {
            o.insert("_us".to_string(), json!(us));
            // peak resident set of this process so far (kB): lets the driver bound the memory a single case needs
            if let Ok(st) = std::fs::read_to_string("/proc/self/status") {
                if let Some(l) = st.lines().find(|l| l.starts_with("VmHWM:")) {
                    if let Some(n) = l.split_whitespace().nth(1).and_then(|x| x.parse::<u64>().ok()) {
                        o.insert("_hwm_kb".to_string(), json!(n));
                    }
                }
            }
        }
        writeln!(out, "{}", v).unwrap();
        out.flush().unwrap();
        drop(running);
    }
}
