// engine "escape" (C18)
//  {"op":"esc","s":[hex..]}
//     -> {"xml":[hex..],"json":[hex..],"html":[hex..]}   the three library escapers grcov's writers go through:
//        quick_xml::escape::escape, serde_json::to_string (with the surrounding quotes), tera::escape_html
//  {"op":"report","files":[{"path":hex(rel path, '/'-separated),"src":hex(file content)|null,"cov":cov}..],
//   "abs_prefix":str|null,"demangle":bool,"pretty":bool,"source_dir":hex|null,"branch":bool}
//     -> {"cobertura":hex,"coveralls":hex,"covdir":hex,"ade":hex,"html":{hex(rel path in output dir):hex(content)}}
//        real reports written by grcov's public output_* functions into a temp dir inside the current directory
use crate::util::*;
use grcov::html::HtmlResources;
use grcov::{output_activedata_etl, output_cobertura, output_covdir, output_coveralls, output_html, CovResult};
use serde_json::{json, Map, Value};
use std::path::{Path, PathBuf};

fn esc(case: &Value) -> Value {
    let mut x = Vec::new();
    let mut j = Vec::new();
    let mut h = Vec::new();
    for s in case["s"].as_array().unwrap() {
        let s = name_of(s);
        x.push(json!(hex(quick_xml::escape::escape(s.as_str()).as_bytes())));
        j.push(json!(hex(serde_json::to_string(&s).unwrap().as_bytes())));
        h.push(json!(hex(tera::escape_html(&s).as_bytes())));
    }
    json!({"xml": x, "json": j, "html": h})
}

fn walk(root: &Path, dir: &Path, out: &mut Map<String, Value>) {
    let mut ents: Vec<_> = std::fs::read_dir(dir).unwrap().map(|e| e.unwrap()).collect();
    ents.sort_by_key(|e| e.file_name());
    for e in ents {
        let p = e.path();
        if p.is_dir() {
            walk(root, &p, out);
        } else {
            let rel = p.strip_prefix(root).unwrap();
            let name = rel.to_str().unwrap().to_string();
            if name.ends_with(".css") {
                continue;
            }
            out.insert(hex(name.as_bytes()), json!(hex(&std::fs::read(&p).unwrap())));
        }
    }
}

fn report(case: &Value) -> Value {
    let dir = tempfile::tempdir_in(".").unwrap();
    let root = dir.path().canonicalize().unwrap();
    let src = root.join("src");
    std::fs::create_dir_all(&src).unwrap();
    let mut results: Vec<(PathBuf, PathBuf, CovResult)> = Vec::new();
    for f in case["files"].as_array().unwrap() {
        let rel = PathBuf::from(name_of(&f["path"]));
        let abs = src.join(&rel);
        if let Some(t) = f["src"].as_str() {
            std::fs::create_dir_all(abs.parent().unwrap()).unwrap();
            std::fs::write(&abs, unhex(t)).unwrap();
        }
        results.push((abs, rel, cov_of(&f["cov"])));
    }
    let demangle = case["demangle"].as_bool().unwrap_or(false);
    let pretty = case["pretty"].as_bool().unwrap_or(false);
    let branch = case["branch"].as_bool().unwrap_or(true);
    let abs_prefix: Option<String> = case["abs_prefix"].as_str().map(|s| s.to_string());
    let source_dir: Option<PathBuf> = case["source_dir"].as_str().map(|s| PathBuf::from(String::from_utf8(unhex(s)).unwrap()));
    let read = |p: &Path| json!(hex(&std::fs::read(p).unwrap_or_default()));

    let cob = root.join("cobertura.xml");
    output_cobertura(source_dir.as_deref(), &results, Some(&cob), demangle, pretty);
    let cvl = root.join("coveralls.json");
    output_coveralls(
        &results, Some("tok\"en"), Some("svc"), "1", Some("job"), "", Some("flag"), "0000000000000000000000000000000000000000",
        true, Some(&cvl), "br", false, demangle,
    );
    let cvd = root.join("covdir.json");
    output_covdir(&results, Some(&cvd), 2);
    let ade = root.join("ade.json");
    output_activedata_etl(&results, Some(&ade), demangle);
    let out = root.join("html");
    output_html(&results, Some(&out), 2, branch, None, 2, &abs_prefix, true, HtmlResources::Bundled);
    let mut html = Map::new();
    if out.is_dir() {
        walk(&out, &out, &mut html);
    }
    json!({"cobertura": read(&cob), "coveralls": read(&cvl), "covdir": read(&cvd), "ade": read(&ade), "html": Value::Object(html)})
}

pub fn run(case: &Value) -> Value {
    match case["op"].as_str().unwrap_or("") {
        "esc" => esc(case),
        "report" => report(case),
        o => json!({"error": format!("unknown op {}", o)}),
    }
}
