// engine "rewrite": rewrite_paths over a materialised filesystem tree.
//   {"dirs":[hex..], "files":[hex..], "symlinks":[[hex link, hex target]..]   (paths relative to the temp root)
//    "cwd": hex (directory relative to the root; the process chdir()s there for the call),
//    "keys":[[hex key, cov]..], "source_dir": hex|null, "prefix_dir": hex|null,
//    "mapping": null | [[hex key, hex value]..],
//    "variants":[{"ine":bool,"ignore":[glob..],"keep":[glob..],"filter":null|true|false}..]}
//   the byte string "{R}" inside keys, source_dir, prefix_dir, mapping keys/values and symlink targets
//   is replaced by the canonical absolute path of the temp root.
// -> {"root": hex, "cands":[hex rel..] (rel paths of the unfiltered run),
//     "runs":[ [[hex abs, hex rel, cov]..] sorted | {"panic":msg} ] per variant (rewrite_paths alone),
//     "merged":[ .. ] per variant: merge_same_paths(rewrite_paths(.., None, ..), filter), the pipeline of main.rs,
//     "globs":[ [[hex rel, ignore verdict, keep verdict]..] ] per variant (real globset on every candidate),
//     "exists":[[hex abs, Path::exists]..] for the abs paths of the unfiltered run}
// engine "pathfacts": std::path facts on given strings {"a":hex,"b":hex} (see run_facts).
use crate::util::*;
use globset::{Glob, GlobSetBuilder};
use grcov::{merge_same_paths, rewrite_paths, CovResultMap, FileFilter};
use serde_json::{json, Value};
use std::ffi::OsStr;
use std::os::unix::ffi::OsStrExt;
use std::panic;
use std::path::{Component, Path, PathBuf};

fn subst(b: &[u8], root: &[u8]) -> Vec<u8> {
    let pat = b"{R}";
    let mut out = Vec::new();
    let mut i = 0;
    while i < b.len() {
        if b[i..].starts_with(pat) {
            out.extend_from_slice(root);
            i += pat.len();
        } else {
            out.push(b[i]);
            i += 1;
        }
    }
    out
}
fn hx(v: &Value) -> Vec<u8> {
    unhex(v.as_str().unwrap())
}
fn pb(b: &[u8]) -> PathBuf {
    PathBuf::from(OsStr::from_bytes(b))
}
fn s(b: Vec<u8>) -> String {
    String::from_utf8(b).expect("utf8")
}
fn phex(p: &Path) -> String {
    hex(p.as_os_str().as_bytes())
}

fn globset(gs: &[String]) -> globset::GlobSet {
    let mut b = GlobSetBuilder::new();
    for g in gs {
        b.add(Glob::new(g).unwrap());
    }
    b.build().unwrap()
}

struct Cwd(PathBuf);
impl Drop for Cwd {
    fn drop(&mut self) {
        let _ = std::env::set_current_dir(&self.0);
    }
}

pub fn run(case: &Value) -> Value {
    let orig = std::env::current_dir().unwrap();
    let dir = tempfile::tempdir_in(".").unwrap();
    let root = std::fs::canonicalize(dir.path()).unwrap();
    let rootb = root.as_os_str().as_bytes().to_vec();
    for d in case["dirs"].as_array().unwrap() {
        std::fs::create_dir_all(root.join(pb(&hx(d)))).unwrap();
    }
    for f in case["files"].as_array().unwrap() {
        let p = root.join(pb(&hx(f)));
        if let Some(par) = p.parent() {
            std::fs::create_dir_all(par).unwrap();
        }
        std::fs::write(&p, b"x\n").unwrap();
    }
    if let Some(ls) = case["symlinks"].as_array() {
        for l in ls {
            let p = root.join(pb(&hx(&l[0])));
            if let Some(par) = p.parent() {
                std::fs::create_dir_all(par).unwrap();
            }
            std::os::unix::fs::symlink(pb(&subst(&hx(&l[1]), &rootb)), &p).unwrap();
        }
    }
    let keys: Vec<(String, grcov::CovResult)> = case["keys"]
        .as_array()
        .unwrap()
        .iter()
        .map(|e| (s(subst(&hx(&e[0]), &rootb)), cov_of(&e[1])))
        .collect();
    let source_dir: Option<PathBuf> = if case["source_dir"].is_null() { None } else { Some(pb(&subst(&hx(&case["source_dir"]), &rootb))) };
    let prefix_dir: Option<PathBuf> = if case["prefix_dir"].is_null() { None } else { Some(pb(&subst(&hx(&case["prefix_dir"]), &rootb))) };
    let mapping: Option<Value> = if case["mapping"].is_null() {
        None
    } else {
        let mut m = serde_json::Map::new();
        for e in case["mapping"].as_array().unwrap() {
            m.insert(s(subst(&hx(&e[0]), &rootb)), Value::String(s(subst(&hx(&e[1]), &rootb))));
        }
        Some(Value::Object(m))
    };
    let cwd = root.join(pb(&hx(&case["cwd"])));
    let _guard = Cwd(orig);
    std::env::set_current_dir(&cwd).unwrap();

    let call = |ine: bool, ign: &[String], keep: &[String], filt: Option<bool>| -> Result<Vec<(PathBuf, PathBuf, grcov::CovResult)>, String> {
        let mut map: CovResultMap = CovResultMap::default();
        for (k, c) in &keys {
            map.insert(k.clone(), c.clone());
        }
        let r = panic::catch_unwind(panic::AssertUnwindSafe(|| {
            rewrite_paths(map, mapping.clone(), source_dir.as_deref(), prefix_dir.as_deref(), ine, ign, keep, filt, FileFilter::default())
        }));
        match r {
            Ok(mut v) => {
                v.sort_by(|a, b| (a.1.as_os_str().as_bytes(), a.0.as_os_str().as_bytes(), cov_to(&a.2).to_string())
                    .cmp(&(b.1.as_os_str().as_bytes(), b.0.as_os_str().as_bytes(), cov_to(&b.2).to_string())));
                Ok(v)
            }
            Err(e) => Err(if let Some(s) = e.downcast_ref::<&str>() { s.to_string() } else if let Some(s) = e.downcast_ref::<String>() { s.clone() } else { "?".to_string() }),
        }
    };
    let none: Vec<String> = vec![];
    let mut exists: Vec<Value> = Vec::new();
    let cands: Vec<PathBuf> = match call(false, &none, &none, None) {
        Ok(v) => {
            for t in &v {
                // std's own answer while the tree is there (independent of rewrite_paths' decision)
                exists.push(json!([phex(&t.0), t.0.exists()]));
            }
            let mut c: Vec<PathBuf> = v.into_iter().map(|t| t.1).collect();
            c.sort();
            c.dedup();
            c
        }
        Err(_) => vec![],
    };
    let mut runs = Vec::new();
    let mut merged = Vec::new();
    let mut globs = Vec::new();
    for v in case["variants"].as_array().unwrap() {
        let ine = v["ine"].as_bool().unwrap_or(false);
        let ign: Vec<String> = v["ignore"].as_array().map(|a| a.iter().map(|x| x.as_str().unwrap().to_string()).collect()).unwrap_or_default();
        let keep: Vec<String> = v["keep"].as_array().map(|a| a.iter().map(|x| x.as_str().unwrap().to_string()).collect()).unwrap_or_default();
        let filt = v["filter"].as_bool();
        match call(ine, &ign, &keep, filt) {
            Ok(res) => runs.push(Value::Array(res.iter().map(|(a, r, c)| json!([phex(a), phex(r), cov_to(c)])).collect())),
            Err(m) => runs.push(json!({ "panic": m })),
        }
        // the report pipeline exactly as main.rs calls it: rewrite_paths without filter, then merge_same_paths with it
        match call(ine, &ign, &keep, None) {
            Ok(res) => {
                let mut mg = merge_same_paths(res, filt);
                mg.sort_by(|a, b| (a.1.as_os_str().as_bytes(), a.0.as_os_str().as_bytes()).cmp(&(b.1.as_os_str().as_bytes(), b.0.as_os_str().as_bytes())));
                merged.push(Value::Array(mg.iter().map(|(a, r, c)| json!([phex(a), phex(r), cov_to(c)])).collect()))
            }
            Err(m) => merged.push(json!({ "panic": m })),
        }
        let gi = globset(&ign);
        let gk = globset(&keep);
        globs.push(Value::Array(cands.iter().map(|p| json!([phex(p), gi.is_match(p), gk.is_match(p)])).collect()));
    }
    json!({"root": hex(&rootb), "cands": cands.iter().map(|p| phex(p)).collect::<Vec<_>>(), "runs": runs, "merged": merged, "globs": globs, "exists": exists})
}

// ---- std::path facts ---------------------------------------------------------------------------
// a path as [absolute, [seg..]] with seg = [0] (.), [1] (..), [2, hex name]
fn comps(p: &Path) -> Value {
    let mut abs = false;
    let mut v = Vec::new();
    for c in p.components() {
        match c {
            Component::Prefix(_) => unreachable!(),
            Component::RootDir => abs = true,
            Component::CurDir => v.push(json!([0])),
            Component::ParentDir => v.push(json!([1])),
            Component::Normal(n) => v.push(json!([2, hex(n.as_bytes())])),
        }
    }
    json!([abs, v])
}
fn opt(p: Option<&Path>) -> Value {
    match p {
        Some(p) => json!({"some": comps(p), "raw": phex(p)}),
        None => Value::Null,
    }
}

// {"a":hex,"b":hex} -> facts about a, and about the pair (a, b)
pub fn run_facts(case: &Value) -> Value {
    let a = pb(&hx(&case["a"]));
    let b = pb(&hx(&case["b"]));
    let j = a.join(&b);
    let norm = grcov::normalize_path(&a);
    let anc: Vec<Value> = a.ancestors().map(comps).collect();
    json!({
        "comps": comps(&a),
        "is_absolute": a.is_absolute(),
        "is_relative": a.is_relative(),
        "join": comps(&j), "join_raw": phex(&j),
        "starts_with": a.starts_with(&b),
        "ends_with": a.ends_with(&b),
        "strip_prefix": opt(a.strip_prefix(&b).ok()),
        "parent": opt(a.parent()),
        "ancestors": anc,
        "normalize": match &norm { Some(p) => json!({"some": comps(p), "raw": phex(p)}), None => Value::Null },
        "has_no_parent": std::str::from_utf8(a.as_os_str().as_bytes()).map(grcov::has_no_parent).ok(),
        "is_empty": a.as_os_str().is_empty(),
    })
}
