// engine "gcov_text": {"hex": bytes} -> writes the bytes to a temp file, parse_gcov(path)
// engine "gcov_json": {"json": text} | {"hex": raw file bytes (no compression applied)}
//        -> gzip-compresses the text into a temp file (or writes the raw bytes), parse_gcov_gz(path).
//        Also reports "tree": what serde_json's own number parser makes of every field the
//        serde structs of parser.rs read (file, functions[].demangled_name/start_line/
//        execution_count, lines[].line_number/count/branches[].count), with every number
//        tagged {"u": dec} (fits u64), {"i": dec} (negative, fits i64) or {"f": [neg, mant, exp2]}
//        (binary64 value = (-1)^neg * mant * 2^exp2, exact).  null when the text is not JSON
//        of that shape.
use crate::e_lcov::perr;
use crate::util::*;
use grcov::*;
use serde_json::{json, Value};
use std::io::{Read, Write};

pub fn run_text(case: &Value) -> Value {
    let bytes = unhex(case["hex"].as_str().unwrap());
    let dir = tempfile::tempdir_in(".").unwrap();
    let p = dir.path().join("t.gcov");
    std::fs::write(&p, &bytes).unwrap();
    match parse_gcov(&p) {
        // names may be non-UTF-8 here (parse_gcov uses from_utf8_unchecked): results_to prints the raw bytes as hex
        Ok(rs) => json!({"ok": results_to(&rs)}),
        Err(e) => json!({"err": perr(&e)}),
    }
}

fn num(n: &serde_json::Number) -> Value {
    if let Some(u) = n.as_u64() {
        return json!({"u": u.to_string()});
    }
    if let Some(i) = n.as_i64() {
        return json!({"i": i.to_string()});
    }
    let f = n.as_f64().unwrap();
    let bits = f.to_bits();
    let neg = (bits >> 63) == 1;
    let e = ((bits >> 52) & 0x7ff) as i64;
    let frac = bits & ((1u64 << 52) - 1);
    let (mant, exp2) = if e == 0 { (frac, -1074i64) } else { (frac | (1u64 << 52), e - 1075) };
    json!({"f": [neg, mant.to_string(), exp2]})
}

fn numfield(v: &Value, k: &str) -> Option<Value> {
    match v.get(k)? {
        Value::Number(n) => Some(num(n)),
        _ => None,
    }
}

fn tree_of(v: &Value) -> Option<Value> {
    let mut files = Vec::new();
    for f in v.get("files")?.as_array()? {
        let name = f.get("file")?.as_str()?;
        let mut funs = Vec::new();
        for g in f.get("functions")?.as_array()? {
            funs.push(json!({
                "demangled_name": hex(g.get("demangled_name")?.as_str()?.as_bytes()),
                "start_line": numfield(g, "start_line")?,
                "execution_count": numfield(g, "execution_count")?,
            }));
        }
        let mut lines = Vec::new();
        for l in f.get("lines")?.as_array()? {
            let mut brs = Vec::new();
            for b in l.get("branches")?.as_array()? {
                brs.push(numfield(b, "count")?);
            }
            lines.push(json!({
                "line_number": numfield(l, "line_number")?,
                "count": numfield(l, "count")?,
                "branches": brs,
            }));
        }
        files.push(json!({"file": hex(name.as_bytes()), "functions": funs, "lines": lines}));
    }
    Some(Value::Array(files))
}

pub fn run_json(case: &Value) -> Value {
    let dir = tempfile::tempdir_in(".").unwrap();
    let p = dir.path().join("t.gcov.json.gz");
    let mut tree = Value::Null;
    if let Some(t) = case.get("json").and_then(|t| t.as_str()) {
        let f = std::fs::File::create(&p).unwrap();
        let mut gz = flate2::write::GzEncoder::new(f, flate2::Compression::fast());
        gz.write_all(t.as_bytes()).unwrap();
        gz.finish().unwrap();
        if let Ok(v) = serde_json::from_str::<Value>(t) {
            if let Some(tr) = tree_of(&v) {
                tree = tr;
            }
        }
    } else {
        let raw = unhex(case["hex"].as_str().unwrap());
        std::fs::write(&p, &raw).unwrap();
        // raw file bytes: the tree is taken from what the bytes decompress to, if they do
        // ("notree": the case measures memory, the harness must not decompress the input itself)
        let mut text = String::new();
        let notree = case.get("notree").and_then(|b| b.as_bool()).unwrap_or(false);
        if !notree && flate2::read::GzDecoder::new(&raw[..]).read_to_string(&mut text).is_ok() {
            if let Ok(v) = serde_json::from_str::<Value>(&text) {
                if let Some(tr) = tree_of(&v) {
                    tree = tr;
                }
            }
        }
    }
    // the tree is printed first so that it survives a panic of parse_gcov_gz
    let r = std::panic::catch_unwind(|| parse_gcov_gz(&p));
    match r {
        Ok(Ok(rs)) => json!({"ok": results_to(&rs), "tree": tree}),
        Ok(Err(e)) => json!({"err": perr(&e), "tree": tree}),
        Err(e) => {
            let msg = if let Some(s) = e.downcast_ref::<&str>() {
                s.to_string()
            } else if let Some(s) = e.downcast_ref::<String>() {
                s.clone()
            } else {
                "?".to_string()
            };
            json!({"panic": msg, "tree": tree})
        }
    }
}
