// engine "producer": materialise an input layout, call grcov::producer with an unbounded channel, print the work items.
// case: {"blobs":[hex..], "args":[arg..], "is_llvm":bool, "covered":bool, "abs":bool}
//   arg = {"kind":"zip","name":rel,"entries":[[namehex, blob]..]}      zip written with the zip crate (stored), entries in order
//       | {"kind":"zipraw","name":rel,"blob":i}                        zip bytes built by the driver (Python zipfile)
//       | {"kind":"dir","name":rel,"entries":[[namehex, blob]..],"links":[[namehex,targethex]..]}
//       | {"kind":"plain","name":rel,"blob":i}                         a file given as an argument
//       | {"kind":"ref","name":rel}                                    argument naming something already materialised
//       | {"kind":"hidden", ...one of the above under "arg"}           materialised but NOT passed as an argument
// Everything lives under <case root>/in (the current directory during the call); the temp dir is <case root>/tmp.
// -> {"items":[item..], "mapping": blob id | null, "tmp_files":[[rel, blob id|"L:"target|"D"]..]}
//   item = {"format":F,"kind":"content","name":N,"cid":id}
//        | {"format":F,"kind":"buffers","name":N,"stem":hex,"gcno":id,"gcda":[id..] (in the order sent)}
//        | {"format":F,"kind":"path","name":N,"stem":hex,"path":rel-to-tmp,"gcno":id|null,"gcda":id|null}
//        | {"format":F,"kind":"paths","name":N,"paths":[[rel, id|null]..]}
//   id = index of the blob with exactly these bytes, or "x"+len+":"+hex prefix if it matches none.
use crate::util::*;
use crossbeam_channel::unbounded;
use grcov::{ItemFormat, ItemType};
use serde_json::{json, Value};
use std::fs;
use std::io::Write;
use std::path::{Path, PathBuf};

fn blob_id(blobs: &[Vec<u8>], b: &[u8]) -> Value {
    for (i, x) in blobs.iter().enumerate() {
        if x.as_slice() == b {
            return json!(i);
        }
    }
    json!(format!("x{}:{}", b.len(), hex(&b[..b.len().min(16)])))
}

fn file_id(blobs: &[Vec<u8>], p: &Path) -> Value {
    match fs::read(p) {
        Ok(b) => blob_id(blobs, &b),
        Err(_) => Value::Null,
    }
}

fn rel(base: &Path, p: &Path) -> String {
    match p.strip_prefix(base) {
        Ok(r) => r.to_string_lossy().to_string(),
        Err(_) => format!("!{}", p.to_string_lossy()),
    }
}

fn write_file(p: &Path, b: &[u8]) {
    if let Some(d) = p.parent() {
        fs::create_dir_all(d).unwrap();
    }
    let mut f = fs::File::create(p).unwrap();
    f.write_all(b).unwrap();
}

fn materialise(inp: &Path, blobs: &[Vec<u8>], a: &Value) {
    let name = a["name"].as_str().unwrap_or("");
    let p = inp.join(name);
    match a["kind"].as_str().unwrap() {
        "zip" => {
            if let Some(d) = p.parent() {
                fs::create_dir_all(d).unwrap();
            }
            let f = fs::File::create(&p).unwrap();
            let mut zw = zip::ZipWriter::new(f);
            let opt = zip::write::SimpleFileOptions::default().compression_method(zip::CompressionMethod::Stored);
            for e in a["entries"].as_array().unwrap() {
                let n = String::from_utf8(unhex(e[0].as_str().unwrap())).unwrap();
                zw.start_file(n, opt).unwrap();
                zw.write_all(&blobs[e[1].as_u64().unwrap() as usize]).unwrap();
            }
            zw.finish().unwrap();
        }
        "zipraw" | "plain" => write_file(&p, &blobs[a["blob"].as_u64().unwrap() as usize]),
        "dir" => {
            fs::create_dir_all(&p).unwrap();
            for e in a["entries"].as_array().unwrap() {
                let n = String::from_utf8(unhex(e[0].as_str().unwrap())).unwrap();
                write_file(&p.join(n), &blobs[e[1].as_u64().unwrap() as usize]);
            }
            if let Some(ls) = a["links"].as_array() {
                for e in ls {
                    let n = String::from_utf8(unhex(e[0].as_str().unwrap())).unwrap();
                    let t = String::from_utf8(unhex(e[1].as_str().unwrap())).unwrap();
                    let lp = p.join(n);
                    if let Some(d) = lp.parent() {
                        fs::create_dir_all(d).unwrap();
                    }
                    std::os::unix::fs::symlink(t, lp).unwrap();
                }
            }
        }
        "ref" => {}
        k => panic!("harness: unknown arg kind {}", k),
    }
}

fn walk(base: &Path, d: &Path, blobs: &[Vec<u8>], out: &mut Vec<Value>) {
    let mut es: Vec<PathBuf> = match fs::read_dir(d) {
        Ok(r) => r.map(|e| e.unwrap().path()).collect(),
        Err(_) => return,
    };
    es.sort();
    for p in es {
        let md = fs::symlink_metadata(&p).unwrap();
        if md.file_type().is_symlink() {
            out.push(json!([rel(base, &p), format!("L:{}", fs::read_link(&p).unwrap().to_string_lossy())]));
        } else if md.is_dir() {
            out.push(json!([rel(base, &p), "D"]));
            walk(base, &p, blobs, out);
        } else {
            out.push(json!([rel(base, &p), file_id(blobs, &p)]));
        }
    }
}

struct CwdGuard(PathBuf);
impl Drop for CwdGuard {
    fn drop(&mut self) {
        let _ = std::env::set_current_dir(&self.0);
    }
}

pub fn run(case: &Value) -> Value {
    let blobs: Vec<Vec<u8>> = case["blobs"].as_array().unwrap().iter().map(|b| unhex(b.as_str().unwrap())).collect();
    let root = tempfile::tempdir_in(".").unwrap();
    let rootp = fs::canonicalize(root.path()).unwrap();
    let inp = rootp.join("in");
    let tmp = rootp.join("tmp");
    fs::create_dir_all(&inp).unwrap();
    fs::create_dir_all(&tmp).unwrap();
    let abs = case["abs"].as_bool().unwrap_or(false);
    let mut paths: Vec<String> = Vec::new();
    for a in case["args"].as_array().unwrap() {
        if a["kind"] == "hidden" {
            materialise(&inp, &blobs, &a["arg"]);
            continue;
        }
        materialise(&inp, &blobs, a);
        let n = a["name"].as_str().unwrap();
        paths.push(if abs { inp.join(n).to_string_lossy().to_string() } else { n.to_string() });
    }
    let _g = CwdGuard(std::env::current_dir().unwrap());
    std::env::set_current_dir(&inp).unwrap();
    let (sender, receiver) = unbounded();
    let mapping = grcov::producer(
        &tmp,
        &paths,
        &sender,
        case["covered"].as_bool().unwrap(),
        case["is_llvm"].as_bool().unwrap(),
    );
    drop(sender);
    let show_name = |n: &str| -> String {
        let p = Path::new(n);
        if p.is_absolute() { rel(&inp, p) } else { n.to_string() }
    };
    let mut items = Vec::new();
    while let Ok(it) = receiver.recv() {
        let it = match it {
            Some(it) => it,
            None => {
                items.push(json!({"kind": "stop"}));
                continue;
            }
        };
        let fmt = match it.format {
            ItemFormat::Gcno => "gcno",
            ItemFormat::Profraw => "profraw",
            ItemFormat::Profdata => "profdata",
            ItemFormat::Info => "info",
            ItemFormat::JacocoXml => "xml",
        };
        let name = show_name(&it.name);
        items.push(match it.item {
            ItemType::Content(b) => json!({"format": fmt, "kind": "content", "name": name, "cid": blob_id(&blobs, &b)}),
            ItemType::Buffers(b) => json!({"format": fmt, "kind": "buffers", "name": name, "stem": hex(b.stem.as_bytes()),
                "gcno": blob_id(&blobs, &b.gcno_buf),
                "gcda": b.gcda_buf.iter().map(|g| blob_id(&blobs, g)).collect::<Vec<Value>>()}),
            ItemType::Path((stem, p)) => {
                let gcda = p.with_extension("gcda");
                json!({"format": fmt, "kind": "path", "name": name, "stem": hex(stem.as_bytes()), "path": rel(&tmp, &p),
                    "gcno": file_id(&blobs, &p), "gcda": file_id(&blobs, &gcda)})
            }
            ItemType::Paths(ps) => json!({"format": fmt, "kind": "paths", "name": name,
                "paths": ps.iter().map(|p| {
                    let r = if p.starts_with(&tmp) { format!("tmp:{}", rel(&tmp, p)) } else { format!("in:{}", rel(&inp, p)) };
                    json!([r, file_id(&blobs, p)])
                }).collect::<Vec<Value>>()}),
        });
    }
    let mut tmp_files = Vec::new();
    walk(&tmp, &tmp, &blobs, &mut tmp_files);
    json!({"items": items, "mapping": mapping.map(|m| blob_id(&blobs, &m)), "tmp_files": tmp_files})
}
