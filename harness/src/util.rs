// JSON <-> grcov data.  Names travel as lowercase hex of their UTF-8 bytes.
use grcov::{CovResult, Function};
use serde_json::{json, Value};

pub fn hex(b: &[u8]) -> String {
    let mut s = String::with_capacity(b.len() * 2);
    for x in b {
        s.push_str(&format!("{:02x}", x));
    }
    s
}
pub fn unhex(s: &str) -> Vec<u8> {
    (0..s.len() / 2)
        .map(|i| u8::from_str_radix(&s[2 * i..2 * i + 2], 16).unwrap())
        .collect()
}
pub fn name_of(v: &Value) -> String {
    String::from_utf8(unhex(v.as_str().unwrap())).expect("utf8 name")
}

// {"lines":[[n,c]..],"branches":[[n,[b..]]..],"funcs":[[hex,start,exec]..]}
pub fn cov_of(v: &Value) -> CovResult {
    let mut r = CovResult::default();
    for e in v["lines"].as_array().unwrap() {
        r.lines.insert(e[0].as_u64().unwrap() as u32, e[1].as_u64().unwrap());
    }
    for e in v["branches"].as_array().unwrap() {
        let bs = e[1].as_array().unwrap().iter().map(|b| b.as_bool().unwrap()).collect();
        r.branches.insert(e[0].as_u64().unwrap() as u32, bs);
    }
    for e in v["funcs"].as_array().unwrap() {
        r.functions.insert(
            name_of(&e[0]),
            Function { start: e[1].as_u64().unwrap() as u32, executed: e[2].as_bool().unwrap() },
        );
    }
    r
}
pub fn cov_to(r: &CovResult) -> Value {
    let lines: Vec<Value> = r.lines.iter().map(|(k, v)| json!([k, v])).collect();
    let branches: Vec<Value> = r.branches.iter().map(|(k, v)| json!([k, v])).collect();
    let mut fs: Vec<(&String, &Function)> = r.functions.iter().collect();
    fs.sort_by(|a, b| a.0.as_bytes().cmp(b.0.as_bytes()));
    let funcs: Vec<Value> = fs.iter().map(|(k, f)| json!([hex(k.as_bytes()), f.start, f.executed])).collect();
    json!({"lines": lines, "branches": branches, "funcs": funcs})
}
pub fn results_to(rs: &[(String, CovResult)]) -> Value {
    Value::Array(rs.iter().map(|(n, c)| json!([hex(n.as_bytes()), cov_to(c)])).collect())
}
