// engine "merge": {"covs":[cov..], "tree": T} with T = int (leaf index) | [T,T] (merge_results(left, right))
use crate::util::*;
use grcov::{merge_results, CovResult};
use serde_json::{json, Value};

fn eval(covs: &[CovResult], t: &Value) -> CovResult {
    if let Some(i) = t.as_u64() {
        covs[i as usize].clone()
    } else {
        let a = t.as_array().unwrap();
        let mut l = eval(covs, &a[0]);
        let r = eval(covs, &a[1]);
        merge_results(&mut l, r);
        l
    }
}

pub fn run(case: &Value) -> Value {
    let covs: Vec<CovResult> = case["covs"].as_array().unwrap().iter().map(cov_of).collect();
    let r = eval(&covs, &case["tree"]);
    json!({"ok": cov_to(&r)})
}
