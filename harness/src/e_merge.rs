// engine "merge": {"covs":[cov..], "tree": T} with T = int (leaf index) | [T,T] (merge_results(left, right))
use crate::util::*;
use grcov::{merge_results, CovResult};
use serde_json::{json, Value};

fn eval(covs: &[CovResult], t: &Value) -> CovResult {
    if let Some(i) = t.as_u64() {
        covs[i as usize].clone()
    } else {
        let a = t.as_array().unwrap();
        let mut l = eval(covs, &a[0]);
        let r = eval(covs, &a[1]);
        merge_results(&mut l, r);
        l
    }
}

pub fn run(case: &Value) -> Value {
    let covs: Vec<CovResult> = case["covs"].as_array().unwrap().iter().map(cov_of).collect();
    let r = eval(&covs, &case["tree"]);
    json!({"ok": cov_to(&r)})
}

// engine "consume": {"batches": [[[name, cov]..]..], "branch": bool}: every batch becomes one lcov work item
// (written by output_lcov) fed to the real consumer loop over an unbounded channel: exercises add_results
// (private) through the public API; returns the final result map
pub fn run_consume(case: &Value) -> Value {
    use grcov::{consumer, CovResultMap, ItemFormat, ItemType, WorkItem};
    let branch = case["branch"].as_bool().unwrap_or(true);
    let dir = tempfile::tempdir_in(".").unwrap();
    let (tx, rx) = crossbeam_channel::unbounded();
    for (i, b) in case["batches"].as_array().unwrap().iter().enumerate() {
        let rs = crate::e_lcov::results_of(b);
        let bytes = crate::e_lcov::lcov_bytes(&rs, dir.path());
        tx.send(Some(WorkItem { format: ItemFormat::Info, item: ItemType::Content(bytes), name: format!("batch{}", i) })).unwrap();
    }
    tx.send(None).unwrap();
    let map: std::sync::Mutex<CovResultMap> = std::sync::Mutex::new(Default::default());
    consumer(dir.path(), None, &map, rx, branch, false, None);
    let m = map.into_inner().unwrap();
    let mut rs: Vec<(String, CovResult)> = m.into_iter().collect();
    rs.sort_by(|a, b| a.0.as_bytes().cmp(b.0.as_bytes()));
    json!({"ok": results_to(&rs)})
}
