// engine "report": {"results": [[abs hex, rel hex, cov, src_lines (int, -1 = no source file)]..],
//                   "types": ["lcov","coveralls","coveralls+","covdir","ade","files","markdown","cobertura","cobertura-pretty","html"],
//                   "precision": p, "branch": bool}
// -> {"<type>": hex of the produced file, ..., "html": {"<path relative to the output dir, hex>": hex content, ..}}
// Each public output_* function is called exactly as src/main.rs does (demangle = false, service fields fixed).
// For html the source files are generated (src_lines lines "L<i>") under <tmp>/src/<rel> and the tuple's absolute path
// points there; all other formats receive the absolute path given in the case.
use crate::util::*;
use grcov::html::HtmlResources;
use grcov::*;
use serde_json::{json, Map, Value};
use std::path::{Path, PathBuf};

fn read_hex(p: &Path) -> Value {
    match std::fs::read(p) {
        Ok(b) => Value::String(hex(&b)),
        Err(_) => Value::Null,
    }
}

fn walk(root: &Path, dir: &Path, out: &mut Map<String, Value>) {
    let mut ents: Vec<PathBuf> = std::fs::read_dir(dir).unwrap().map(|e| e.unwrap().path()).collect();
    ents.sort();
    for p in ents {
        if p.is_dir() {
            walk(root, &p, out);
        } else {
            let rel = p.strip_prefix(root).unwrap().to_str().unwrap().to_string();
            if rel == "bulma.min.css" {
                continue;
            }
            out.insert(hex(rel.as_bytes()), read_hex(&p));
        }
    }
}

pub fn run(case: &Value) -> Value {
    let dir = tempfile::tempdir_in(".").unwrap();
    let precision = case["precision"].as_u64().unwrap_or(2) as usize;
    let branch = case["branch"].as_bool().unwrap_or(true);
    let demangle = case["demangle"].as_bool().unwrap_or(false);
    let mut results: Vec<ResultTuple> = Vec::new();
    let mut html_results: Vec<ResultTuple> = Vec::new();
    let srcdir = dir.path().join("src");
    std::fs::create_dir_all(&srcdir).unwrap();
    for e in case["results"].as_array().unwrap() {
        let abs = PathBuf::from(name_of(&e[0]));
        let rel = PathBuf::from(name_of(&e[1]));
        let cov = cov_of(&e[2]);
        let n = e[3].as_i64().unwrap_or(-1);
        let relstr = rel.to_str().unwrap().trim_start_matches('/').to_string();
        let src = srcdir.join(&relstr);
        if n >= 0 {
            std::fs::create_dir_all(src.parent().unwrap()).unwrap();
            // source style: 0 = LF, 1 = CRLF, 2 = LF without a final newline (the last line is then unterminated)
            let style = case["src_style"].as_u64().unwrap_or(0);
            let mut s = String::new();
            for i in 1..=n {
                s.push_str(&format!("L{}", i));
                if !(style == 2 && i == n) {
                    s.push_str(if style == 1 { "\r\n" } else { "\n" });
                }
            }
            std::fs::write(&src, s).unwrap();
        }
        html_results.push((src, rel.clone(), cov.clone()));
        results.push((abs, rel, cov));
    }
    let mut out = Map::new();
    for t in case["types"].as_array().unwrap() {
        let t = t.as_str().unwrap();
        let f = dir.path().join(format!("out_{}", t.replace('+', "plus")));
        // "stale_output": the output path already holds an older, longer report (a rerun into the same file)
        if case["stale_output"].as_bool().unwrap_or(false) && t != "html" {
            std::fs::write(&f, "STALE LINE OF AN OLDER REPORT\n".repeat(40000)).unwrap();
        }
        let r = std::panic::catch_unwind(std::panic::AssertUnwindSafe(|| one(t, &f, &results, &html_results, precision, branch, demangle)));
        match r {
            Ok(Some(v)) => {
                out.insert(t.to_string(), v);
            }
            Ok(None) => {
                out.insert(t.to_string(), read_hex(&f));
            }
            Err(e) => {
                let msg = if let Some(s) = e.downcast_ref::<&str>() {
                    s.to_string()
                } else if let Some(s) = e.downcast_ref::<String>() {
                    s.clone()
                } else {
                    "?".to_string()
                };
                out.insert(t.to_string(), json!({ "panic": msg }));
            }
        }
    }
    Value::Object(out)
}

fn one(t: &str, f: &Path, results: &[ResultTuple], html_results: &[ResultTuple], precision: usize, branch: bool, demangle: bool) -> Option<Value> {
    {
        let f = f.to_path_buf();
        match t {
            "lcov" => output_lcov(&results, Some(&f), demangle),
            "ade" => output_activedata_etl(&results, Some(&f), demangle),
            "coveralls" | "coveralls+" => output_coveralls(
                &results, None, Some("svc"), "42", Some("job7"), "", None, "", t == "coveralls+", Some(&f), "main", false, demangle,
            ),
            "files" => output_files(&results, Some(&f)),
            "covdir" => output_covdir(&results, Some(&f), precision),
            "markdown" => output_markdown(&results, Some(&f), precision),
            "cobertura" => output_cobertura(None, &results, Some(&f), demangle, false),
            "cobertura-pretty" => output_cobertura(None, &results, Some(&f), demangle, true),
            "html" => {
                output_html(&html_results, Some(&f), 2, branch, None, precision, &None, true, HtmlResources::Cdn);
                let mut m = Map::new();
                if f.is_dir() {
                    walk(&f, &f, &mut m);
                }
                return Some(Value::Object(m));
            }
            _ => {
                return Some(json!({"error": "unknown type"}));
            }
        }
    }
    None
}
