// engine "gcno": {"gcno": hex, "gcdas": [hex..], "branch": bool, "stem": str}
//   -> {"ok": [[hexname, cov]..] sorted by name} | {"err": message}
// (a panic is caught in main.rs and becomes {"panic": msg}; an abort / OOM / stack overflow kills the
//  process, the driver attributes it to the first case without a result line)
use crate::util::*;
use grcov::Gcno;
use serde_json::{json, Value};

pub fn run(case: &Value) -> Value {
    let gcno = unhex(case["gcno"].as_str().unwrap());
    let gcdas: Vec<Vec<u8>> = case["gcdas"]
        .as_array()
        .map(|a| a.iter().map(|g| unhex(g.as_str().unwrap())).collect())
        .unwrap_or_default();
    let branch = case["branch"].as_bool().unwrap_or(true);
    let stem = case["stem"].as_str().unwrap_or("stem");
    let t0 = std::time::Instant::now();
    let r = Gcno::compute(stem, gcno, gcdas, branch);
    let ms = t0.elapsed().as_millis() as u64;
    match r {
        Ok(mut rs) => {
            rs.sort_by(|a, b| a.0.as_bytes().cmp(b.0.as_bytes()));
            json!({"ok": results_to(&rs), "ms": ms})
        }
        // names are built with from_utf8_unchecked: the message can carry invalid UTF-8, which serde_json must not see
        Err(e) => json!({"err": String::from_utf8_lossy(format!("{}", e).as_bytes()).into_owned(), "ms": ms}),
    }
}
