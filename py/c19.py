"""C19 - writes stay inside the temp dir and the output path; inputs are never altered.
Proofs (Props/C19.v: lexical confinement of every destination path) + CLI runs in a sandbox tree with before/after
snapshots + Model/Confine.v's verdict on every archive member name (which destinations escape) vs what was observed."""
import hashlib, json, os, shutil, subprocess, tempfile
import vlib, layoutgen as L


def snapshot(root):
    snap = {}
    for r, ds, fs in os.walk(root, followlinks=False):
        for n in ds + fs:
            p = os.path.join(r, n)
            rel = os.path.relpath(p, root)
            if os.path.islink(p):
                snap[rel] = ("L", os.readlink(p))
            elif os.path.isdir(p):
                snap[rel] = ("D",)
            else:
                with open(p, "rb") as f:
                    b = f.read()
                snap[rel] = ("F", len(b), hashlib.sha256(b).hexdigest())
    return snap


def diff(a, b):
    return sorted(k for k in set(a) | set(b) if a.get(k) != b.get(k))


def under(p, d):
    return p == d or p.startswith(d.rstrip("/") + "/")


def unsafe_name(n):
    return n.startswith("/") or ".." in n.split("/")


def run_case(chk, cli, pool, case, dist, kf):
    """case: {"inputs": layout args (materialised under in/), "files": [(relpath, bytes, mode)] other files, "links": [(rel, target)],
              "argv": arguments after the input paths, "out": allowed output location relative to the sandbox or None,
              "pre_out": 'dir'|'file'|None, "hostile": [(member name, stem_num.ext file name)] members expected to be extracted}"""
    base = vlib.scratch("c19", clean=False)
    sb = tempfile.mkdtemp(prefix="sb_", dir=base)
    try:
        for d in ("tmp", "in", "canary", "out", "work", "real"):
            os.makedirs(os.path.join(sb, d))
        with open(os.path.join(sb, "canary", "victim.c"), "w") as f:
            f.write("int main(void) { return 0; }\n")
        inputs = [dict(a) for a in case["inputs"]]
        for a in inputs:            # member names may refer to the sandbox by absolute path
            if "entries" in a:
                a["entries"] = [[e[0].replace("@SB@", sb), e[1], e[2]] for e in a["entries"]]
        argv_in = L.materialise(os.path.join(sb, "in"), inputs, [b.replace(b"@SB@", sb.encode()) for b in pool.blobs])
        for rel, target in case.get("links", []):
            os.symlink(target, os.path.join(sb, rel))
        for rel, content, mode in case.get("files", []):       # other files of the sandbox (tools, binaries), relative to the sandbox
            fp = os.path.join(sb, rel)
            os.makedirs(os.path.dirname(fp), exist_ok=True)
            with open(fp, "wb") as f:
                f.write(content)
            os.chmod(fp, mode)
        if case.get("pre_out") == "dir":
            os.makedirs(os.path.join(sb, case["out"]), exist_ok=True)
        elif case.get("pre_out") == "file":
            with open(os.path.join(sb, case["out"]), "w") as f:
                f.write("an existing regular file\n")
        before = snapshot(sb)
        cwd = os.path.join(sb, case.get("cwd", "work"))       # where grcov is started: elsewhere, or inside the input (build) directory
        argv = ([cli] + [os.path.relpath(os.path.join(sb, "in", x), cwd) for x in argv_in] + case.get("argv_in_extra", [])
                + [x.replace("@SB@", sb) for x in case["argv"]])
        p = subprocess.run(argv, cwd=cwd, env=dict(os.environ, TMPDIR=os.path.join(sb, "tmp")),
                           capture_output=True, text=True, timeout=180)
        after = snapshot(sb)
        chk.count()
        changed = diff(before, after)
        out = case.get("out")
        outside = [c for c in changed if not under(c, "tmp") and not (out and under(c, out))]
        # the model's verdict on every member name that is extracted
        tmp_left = sorted(k for k in after if under(k, "tmp") and k != "tmp")
        tmpdirs = sorted({k.split("/")[1] for k in tmp_left})
        rec = {"case": {k: v for k, v in case.items() if k != "inputs"}, "inputs": inputs, "rc": p.returncode, "changed": changed,
               "outside": outside, "stderr": p.stderr[-600:]}
        hostile = case.get("hostile", [])
        predicted = set()
        if hostile:
            root = "/sb/tmp/.tmpXXXXXX"
            exprs = []
            for name, fname in hostile:
                name = name.replace("@SB@", "/sb")
                d = name.rsplit("/", 1)[0] + "/" if "/" in name else ""
                dest = (d + fname) if name.startswith("/") else root + "/" + d + fname
                exprs.append(vlib.app("run_confine", list(root.encode()), list(name.encode()), list(dest.encode())))
            res = vlib.run_model(chk.pid, "Run.ShowConfine", exprs)
            for (name, fname), r in zip(hostile, res):
                if isinstance(r, tuple) and r and r[0] == "@@ERROR":
                    chk.violation({"kind": "correspondence", "engine": "confine", "model": r}, has_input=False, tag="model")
                    continue
                safe, und = r
                dist["members_safe"] += safe
                dist["members_unsafe_but_inside"] += (not safe) and und
                if safe and not und:
                    chk.violation({"kind": "correspondence", "engine": "confine", "member": name, "model": [safe, und],
                                   "theorems_at_stake": "C19_extract_confined (run_confine contradicts it)"}, has_input=False, tag="model")
                if not und:
                    dist["members_escaping_if_extracted"] += 1
                    name2 = name.replace("@SB@", sb)
                    d = name2.rsplit("/", 1)[0] + "/" if "/" in name2 else ""
                    full = os.path.normpath((d + fname) if name2.startswith("/") else os.path.join(sb, "tmp", ".tmpXXXXXX", d + fname))
                    predicted.add(os.path.relpath(full, sb))
        if predicted:
            # C19_extract_confined_all: every member that passes safe_entry stays inside; a member predicted to escape can only be an unsafe one,
            # and those must not be extracted at all
            dist["unsafe_members_not_extracted"] += len(predicted)
        if outside:
            chk.violation(dict(rec, kind="oracle", engine="cli", model_predicted_escapes_if_extracted=sorted(predicted),
                               clause="a run creates, modifies or deletes files only inside its temporary directory and at the output location"), tag="write")
        if p.returncode == 0 and tmp_left:
            chk.violation(dict(rec, kind="oracle", engine="cli", left=tmp_left[:10], clause="the temporary directory is removed when the run completes normally"), tag="tmp")
        if p.returncode == 0:
            dist["normal_exit"] += 1
            if not outside:
                chk.nontrivial([case["argv"], sorted(changed)[:6], [a.get("name") or a["arg"]["name"] for a in inputs]])
        else:
            dist["failed_exit"] += 1
        dist["runs"] += 1
        dist["writes_in_output"] += sum(1 for c in changed if out and under(c, out))
        chk.sample({"argv": case["argv"], "rc": p.returncode, "changed": changed[:6]}, limit=4)
        return rec
    finally:
        shutil.rmtree(sb, ignore_errors=True)


OUTPUTS = [
    (["-t", "lcov", "-o", "../out/o.lcov"], "out/o.lcov", None),
    (["-t", "html", "-o", "../out/html"], "out/html", None),
    (["-t", "html", "-o", "../out/html", "--branch"], "out/html", "dir"),
    (["-t", "covdir", "-o", "../out/o.json"], "out/o.json", None),
    (["-t", "files", "-o", "../out/files.txt"], "out/files.txt", None),
    (["-t", "cobertura", "-o", "../out/c.xml"], "out/c.xml", None),
    (["-t", "cobertura-pretty", "-o", "../out/c.xml"], "out/c.xml", None),
    (["-t", "markdown", "-o", "../out/m.md"], "out/m.md", None),
    (["-t", "ade", "-o", "../out/ade"], "out/ade", None),
    (["-t", "coveralls", "--token", "t", "--commit-sha", "0", "-o", "../out/cov.json"], "out/cov.json", None),
    (["-t", "lcov,covdir,html,markdown", "-o", "../out/multi"], "out/multi", "dir"),
    (["-t", "lcov"], None, None),
]


def cases(pool, rng, tier):
    n = pool.names
    up = pool.add("info_up", L.lcov(b"../canary/victim.c", [(1, 1)]))
    ab = pool.add("info_abs", L.lcov(b"@SB@/canary/victim.c", [(1, 1)]))
    dd = pool.add("info_dotdot", L.lcov(b"a/../../canary/victim.c", [(1, 1)]) + L.lcov(b"../work/../canary/victim.c", [(1, 2)]))
    benign = [{"kind": "dir", "name": "d", "entries": [["a.info", n["info_a"], "info"], ["rep/one.xml", n["xml_1"], "xml"],
                                                        ["obj/file.gcno", n["llvm_gcno_file"], "gcno"], ["obj/file.gcda", n["llvm_gcda_file"], "gcda"]]},
              {"kind": "zip", "name": "z.zip", "entries": [["b.info", n["info_b"], "info"], ["obj/file.gcda", n["llvm_gcda_file"], "gcda"]]},
              {"kind": "plain", "name": "p/c.info", "blob": n["info_a2"]}]
    paths = [{"kind": "dir", "name": "srcs", "entries": [["up.info", up, "info"], ["abs.info", ab, "info"], ["dd.info", dd, "info"]]}]
    out = []
    # every output type, benign inputs (LLVM buffers: nothing extracted) and hostile recorded source paths
    for argv, o, pre in OUTPUTS:
        out.append({"inputs": benign, "argv": ["--llvm"] + argv, "out": o, "pre_out": pre})
        out.append({"inputs": paths, "argv": argv, "out": o, "pre_out": pre})
        out.append({"inputs": paths, "argv": argv + ["-s", "../canary"], "out": o, "pre_out": pre})
    # GCC path from directories (symbolic links into the inputs) and zips (extraction); gcov runs in the worker dirs
    gcc_dir = [{"kind": "dir", "name": "g", "entries": [["gcc/main.gcno", n["gcc_gcno_main"], "gcno"], ["gcc/main.gcda", n["gcc_gcda_main"], "gcda"], ["gcc/orphan.gcno", n["gcc_gcno_orphan"], "gcno"]]},
               {"kind": "zip", "name": "g2.zip", "entries": [["gcc/main.gcda", n["gcc_gcda_main"], "gcda"]]}]
    gcc_zip = [{"kind": "zip", "name": "gz.zip", "entries": [["gcc/main.gcno", n["gcc_gcno_main"], "gcno"], ["gcc/main.gcda", n["gcc_gcda_main"], "gcda"]]}]
    for inp in (gcc_dir, gcc_zip):
        for argv, o, pre in OUTPUTS[:2]:
            out.append({"inputs": inp, "argv": argv, "out": o, "pre_out": pre})
    # symbolic links: a linked input directory, a link to a file inside an input directory
    out.append({"inputs": [{"kind": "hidden", "arg": {"kind": "dir", "name": "../real/r", "entries": [["gcc/main.gcno", n["gcc_gcno_main"], "gcno"], ["gcc/main.gcda", n["gcc_gcda_main"], "gcda"], ["x.info", n["info_a"], "info"]]}}],
                "links": [("in/lnk", "../real/r")], "argv_in_extra": ["../in/lnk"], "argv": ["-t", "lcov", "-o", "../out/o.lcov"], "out": "out/o.lcov"})
    out.append({"inputs": [{"kind": "dir", "name": "d", "entries": [["x.info", n["info_a"], "info"]], "links": [["l.info", "../../real/t.info", None], ["sub", "../../real", None]]}],
                "argv": ["-t", "html", "-o", "../out/html"], "out": "out/html"})
    # recorded ABSOLUTE source paths that exist: canonical, and through a symbolic link to a directory (link -> real); html without -s
    foo = pool.add("foo_c", b"int foo(void) { return 1; }\n")
    via = pool.add("info_via_link", L.lcov(b"@SB@/link/src/foo.c", [(1, 1)]) + L.lcov(b"@SB@/real/src/other.c", [(1, 2)]) + L.lcov(b"src/bar.c", [(1, 3)])
                   + L.lcov(b"@SB@/work/lnk2/foo.c", [(1, 4)]))
    srcs = [{"kind": "hidden", "arg": {"kind": "dir", "name": "../real/src", "entries": [["foo.c", foo, "c"], ["other.c", foo, "c"]]}},
            {"kind": "hidden", "arg": {"kind": "dir", "name": "../work/src", "entries": [["bar.c", foo, "c"]]}},
            {"kind": "plain", "name": "cov.info", "blob": via}]
    for argv, o, pre in OUTPUTS:
        for more in ([], ["--branch", "--threads", "2"]):
            if ("html" in argv[1] or not more) and not ("--branch" in argv and more):
                out.append({"inputs": srcs, "links": [("link", "real"), ("work/lnk2", "../link/src")], "argv": argv + more, "out": o, "pre_out": pre, "tag": "abs-via-symlink"})
    # recorded paths with BACKSLASHES: one component for std::path, but "always return '/'" turns them into '..' components late;
    # the file of that literal name exists under the source directory / the working directory, so the HTML writer would open it.
    # out/html + ../../canary = <sandbox>/canary; out/multi/html + ../../canary = <sandbox>/out/canary (outside the output location, inside the sandbox)
    bs1, bs2 = "..\\..\\canary\\pwn.c", "src\\..\\..\\..\\canary\\q.c"
    bsl = pool.add("info_backslash", L.lcov(b"src/ok.c", [(1, 1)]) + L.lcov(bs1.encode(), [(1, 2)]) + L.lcov(bs2.encode(), [(1, 3)])
                   + L.lcov(b"src\\ok2.c", [(1, 4)]) + L.lcov(b"@SB@\\canary\\victim.c", [(1, 5)]))
    lit = [["src/ok.c", foo, "c"], ["src/ok2.c", foo, "c"], [bs1, foo, "c"], [bs2, foo, "c"], ["src\\ok2.c", foo, "c"]]
    proj = [{"kind": "hidden", "arg": {"kind": "dir", "name": "../proj", "entries": lit}},
            {"kind": "hidden", "arg": {"kind": "dir", "name": "../work", "entries": lit}},
            {"kind": "plain", "name": "bs.info", "blob": bsl}]
    for argv, o, pre in OUTPUTS:
        if "html" in argv[1]:
            for more in (["-s", "../proj"], [], ["-s", "../proj", "--branch", "--threads", "2"], ["-s", "../proj", "-p", "..", "--ignore-not-existing"]):
                if "--branch" in argv and "--branch" in more:
                    continue
                out.append({"inputs": proj, "argv": argv + more, "out": o, "pre_out": pre, "tag": "backslash-paths"})
        else:
            out.append({"inputs": proj, "argv": argv + ["-s", "../proj"], "out": o, "pre_out": pre, "tag": "backslash-paths"})
    # source-based coverage: .profraw/.profdata as plain arguments, in a directory and in a zip; stand-in llvm-profdata / llvm-cov
    # (honour `-o <file>`, print canned lcov); the tools, the binary and the profiles are inputs and must stay untouched
    profdata_sh = b"""#!/bin/sh
out=""
while [ $# -gt 0 ]; do case "$1" in -o) out="$2"; shift;; esac; shift; done
cat > /dev/null
if [ -n "$out" ]; then echo merged > "$out"; fi
exit 0
"""
    cov_sh = b"#!/bin/sh\nprintf 'SF:src/ok.c\\nFN:1,f\\nFNDA:1,f\\nDA:1,1\\nDA:2,0\\nend_of_record\\n'\n"
    tools = [("tools/llvm-profdata", profdata_sh, 0o755), ("tools/llvm-cov", cov_sh, 0o755), ("bin/app", b"\x7fELF stand-in binary", 0o755),
             ("work/src/ok.c", b"int f(void) { return 0; }\n", 0o644)]
    pr, pd = n["profraw_1"], n["profraw_2"]
    prof_inputs = {
        "plain": [{"kind": "plain", "name": "pl/default.profraw", "blob": pr}, {"kind": "plain", "name": "pl/other.profraw", "blob": pd}],
        "plain-profdata": [{"kind": "plain", "name": "pd/app.profdata", "blob": pd}],
        "plain-both": [{"kind": "plain", "name": "pb/a.profraw", "blob": pr}, {"kind": "plain", "name": "pb/b.profdata", "blob": pd}],
        "dir": [{"kind": "dir", "name": "pdir", "entries": [["run1/default.profraw", pr, "profraw"], ["run2/default.profraw", pd, "profraw"], ["m.profdata", pd, "profdata"]]}],
        "zip": [{"kind": "zip", "name": "prof.zip", "entries": [["default.profraw", pr, "profraw"], ["sub/x.profdata", pd, "profdata"]]}],
        "mixed": [{"kind": "zip", "name": "prof.zip", "entries": [["default.profraw", pr, "profraw"]]}, {"kind": "dir", "name": "pdir", "entries": [["default.profraw", pd, "profraw"]]},
                  {"kind": "plain", "name": "pl/default.profraw", "blob": pr}, {"kind": "plain", "name": "extra.info", "blob": n["info_a"]}],
    }
    # same file name in different sub-directories, different contents, spread over a directory (staged as symbolic links into the input) and a
    # zip (staged with File::create): six name pairs in each role so that, whatever order the producer's hash map yields, some directory member
    # is staged before the zip member of the same file name; both argument orders; also two directories and two zips
    pb = [pool.add("profraw_v%d" % k, b"\x81rforpl\xff" + bytes([k]) * 48) for k in range(24)]
    stems = ["default", "x", "run", "cov", "p0", "zz"]
    side_a = [["unit/%s.profraw" % st, pb[i], "profraw"] for i, st in enumerate(stems)] + [["u/%s.profdata" % st, pb[6 + i], "profdata"] for i, st in enumerate(stems[:3])]
    side_b = [["integration/%s.profraw" % st, pb[12 + i], "profraw"] for i, st in enumerate(stems)] + [["i/deep/%s.profdata" % st, pb[18 + i], "profdata"] for i, st in enumerate(stems[:3])]
    mk = lambda kind, nm, ents: {"kind": kind, "name": nm + (".zip" if kind == "zip" else ""), "entries": ents}
    for ka, kb in (("dir", "zip"), ("zip", "dir"), ("dir", "dir"), ("zip", "zip")):
        for order in (0, 1):
            inp = [mk(ka, "pa", side_a), mk(kb, "pb", side_b)]
            if order:
                inp.reverse()
            out.append({"inputs": inp, "argv": ["-t", "lcov", "-o", "../out/o.lcov"], "out": "out/o.lcov", "tag": "profiles-samename-%s-%s" % (ka, kb)})
            if order == 0 or tier != "quick":
                out.append({"inputs": inp, "files": tools, "argv": ["--binary-path", "../bin/app", "--llvm-path", "../tools", "-t", "html", "-o", "../out/html"], "out": "out/html",
                            "tag": "profiles-samename-%s-%s" % (ka, kb)})
    # symbolic links to DIRECTORIES whose names look like profiles / gcov files, next to real directories named <link stem>_1.<ext> holding a
    # member: if the link were taken for a file, its staging link <tmp>/p_1.profraw would lead the next staging into the input tree.
    # Several names, because the producer's hash map decides what is staged first.
    lk_entries, lk_links = [["store/keep.txt", n["txt"], "decoy"], ["store/inner.profraw", pb[0], "profraw"]], []
    for i, st in enumerate(["p", "q", "r", "s", "t", "u"]):
        ext = "profraw" if i < 4 else "profdata"
        lk_links.append(["%s.%s" % (st, ext), "store", None])
        lk_entries.append(["%s_1.%s/x.%s" % (st, ext, ext), pb[1 + i], ext])
    lk_links += [["g.gcno", "store", None], ["g.gcda", "store", None], ["dangling.profraw", "nowhere", None], ["sub/back.profraw", "..", None]]
    lk_entries += [["g_1.gcno/y.gcno", n["gcc_gcno_main"], "gcno"], ["g_1.gcno/y.gcda", n["gcc_gcda_main"], "gcda"]]
    linked = [{"kind": "dir", "name": "tree", "entries": lk_entries, "links": lk_links}]
    out.append({"inputs": linked, "argv": ["-t", "lcov", "-o", "../out/o.lcov"], "out": "out/o.lcov", "tag": "dir-symlinks-named-like-profiles"})
    out.append({"inputs": linked, "files": tools, "argv": ["--binary-path", "../bin/app", "--llvm-path", "../tools", "-t", "html", "-o", "../out/html"], "out": "out/html",
                "tag": "dir-symlinks-named-like-profiles"})
    out.append({"inputs": linked, "cwd": "in/tree", "argv": ["--llvm", "-t", "covdir", "-o", "@SB@/out/o.json"], "out": "out/o.json", "tag": "dir-symlinks-named-like-profiles"})
    # a failing llvm-profdata (and a failing llvm-cov): whatever grcov keeps for diagnosis must be inside its own temporary directory and go with it
    fail_sh = b"#!/bin/sh\ncat > /dev/null\necho 'error: malformed profile' >&2\nexit 1\n"
    tools_fail = [("tools/llvm-profdata", fail_sh, 0o755)] + tools[1:]
    tools_covfail = [tools[0], ("tools/llvm-cov", b"#!/bin/sh\necho 'error: no coverage data' >&2\nexit 1\n", 0o755)] + tools[2:]
    for tl, tg in ((tools_fail, "profdata-fails"), (tools_covfail, "cov-fails")):
        for key in ("plain", "dir", "zip", "mixed"):
            out.append({"inputs": prof_inputs[key], "files": tl, "argv": ["--binary-path", "../bin/app", "--llvm-path", "../tools", "-t", "lcov", "-o", "../out/o.lcov"],
                        "out": "out/o.lcov", "tag": "profiles-%s-%s" % (key, tg)})
    for tag, inp in prof_inputs.items():
        outs = OUTPUTS[:2] + [OUTPUTS[10], OUTPUTS[11]] if tier == "quick" else OUTPUTS
        for argv, o, pre in outs:
            out.append({"inputs": inp, "files": tools, "argv": ["--binary-path", "../bin/app", "--llvm-path", "../tools"] + argv, "out": o, "pre_out": pre, "tag": "profiles-" + tag})
        out.append({"inputs": inp, "files": tools, "argv": ["-b", "../bin", "--llvm-path", "../tools", "--threads", "3", "-t", "covdir", "-o", "../out/o.json"], "out": "out/o.json", "tag": "profiles-" + tag})
    # several output types at once: -o an existing directory / a missing directory / a regular file; started from elsewhere and from inside the
    # input (build) directory as in `cd build && grcov . ...`.  Whatever grcov makes of a bad -o (it refuses), nothing may appear in the working
    # directory, the inputs or the canary: only TMPDIR and the requested location
    build = [{"kind": "dir", "name": "build", "entries": [["cov/a.info", n["info_a"], "info"], ["src/a.c", foo, "c"], ["src/b.c", foo, "c"], ["cov/b.info", n["info_b"], "info"],
                                                         ["obj/file.gcno", n["llvm_gcno_file"], "gcno"], ["obj/file.gcda", n["llvm_gcda_file"], "gcda"]]}]
    for types in ("html,lcov", "lcov,covdir,html,markdown", "markdown,html", "lcov,files"):
        for o, pre in (("out/multi", "dir"), ("out/missing", None), ("out/afile", "file"), ("out/missing/deeper", None)):
            for cwd in ("work", "in/build"):
                out.append({"inputs": build, "cwd": cwd, "argv": ["--llvm", "-t", types, "-o", "@SB@/" + o], "out": o, "pre_out": pre, "tag": "multi-output"})
        out.append({"inputs": build, "cwd": "in/build", "argv": ["--llvm", "-t", types, "-o", "../../out/rel-missing"], "out": "out/rel-missing", "tag": "multi-output"})
        out.append({"inputs": build, "cwd": "in/build", "argv": ["--llvm", "-t", types], "out": "in/build/html" if "html" in types else None, "tag": "multi-output-no-o"})
    # the same backslash names as literal FILE names inside a directory argument (staged as symbolic links)
    bsdir = [{"kind": "dir", "name": "bsd", "entries": [["..\\..\\canary\\d1.gcno", n["gcc_gcno_main"], "gcno"], ["..\\..\\canary\\d1.gcda", n["gcc_gcda_main"], "gcda"],
                                                       ["..\\..\\canary\\nd3\\o.gcno", n["gcc_gcno_orphan"], "gcno"], ["k/..\\..\\..\\canary\\nd4\\q.profraw", n["profraw_1"], "profraw"],
                                                       ["..\\..\\canary\\r.profdata", n["profraw_2"], "profdata"], ["ok/fine.info", n["info_a"], "info"]]}]
    for argv, o, pre in OUTPUTS[:2]:
        out.append({"inputs": bsdir, "argv": argv, "out": o, "pre_out": pre, "tag": "backslash-names-in-directory"})
    out.append({"inputs": bsdir, "argv": ["--llvm", "-t", "lcov", "-o", "../out/o.lcov"], "out": "out/o.lcov", "tag": "backslash-names-in-directory"})
    # --abs-link-prefix only changes LINKS in the pages: a writable absolute directory inside the sandbox, a URL, relative prefixes
    for pref in ("@SB@/canary/www", "@SB@/canary/www/", "https://example.org/cov/", "rel/prefix", "../up", "/"):
        for more in ([], ["--branch", "--threads", "2"]):
            out.append({"inputs": build, "cwd": "in/build", "argv": ["--llvm", "-t", "html", "-o", "@SB@/out/html", "--abs-link-prefix", pref] + more, "out": "out/html", "tag": "abs-link-prefix"})
        out.append({"inputs": build, "cwd": "in/build", "argv": ["--llvm", "-t", "html,lcov", "-o", "@SB@/out/multi", "--abs-link-prefix", pref], "out": "out/multi", "pre_out": "dir", "tag": "abs-link-prefix"})
    # hostile archives
    long = "d" * 100 + "/" + "e" * 100 + "/" + "f" * 90
    hostile_sets = [
        ("dotdot", [("../../canary/x.gcno", n["gcc_gcno_main"]), ("../../canary/x.gcda", n["gcc_gcda_main"])], [("../../canary/x.gcno", "x_1.gcno"), ("../../canary/x.gcda", "x_1.gcda")], []),
        ("absolute", [("@SB@/canary/abs.gcno", n["gcc_gcno_main"]), ("@SB@/canary/abs.gcda", n["gcc_gcda_main"])], [("@SB@/canary/abs.gcno", "abs_1.gcno"), ("@SB@/canary/abs.gcda", "abs_1.gcda")], []),
        ("orphan-dotdot", [("../../canary/deep/o.gcno", n["gcc_gcno_orphan"])], [("../../canary/deep/o.gcno", "o_1.gcno")], []),
        ("profraw", [("../../canary/p.profraw", n["profraw_1"])], [("../../canary/p.profraw", "p_1.profraw")], ["-b", "../canary"]),
        ("inside", [("a/../b.gcno", n["gcc_gcno_main"]), ("a/../b.gcda", n["gcc_gcda_main"]), ("./c.gcno", n["gcc_gcno_orphan"])], [("a/../b.gcno", "b_1.gcno"), ("a/../b.gcda", "b_1.gcda"), ("./c.gcno", "c_1.gcno")], []),
        ("long", [(long + ".gcno", n["gcc_gcno_main"]), (long + ".gcda", n["gcc_gcda_main"])], [(long + ".gcno", "f" * 90 + "_1.gcno"), (long + ".gcda", "f" * 90 + "_1.gcda")], []),
        ("duplicates", [("m.gcno", n["gcc_gcno_main"]), ("m.gcda", n["gcc_gcda_main"]), ("m.gcda", n["gcda_lonely"]), ("m.gcno", n["gcc_gcno_orphan"])], [("m.gcno", "m_1.gcno"), ("m.gcda", "m_1.gcda")], []),
        # '..' in the MIDDLE of the name, climbing exactly to the sandbox root (tmp/.tmpX/obj/../../../canary = <sandbox>/canary), every extracted kind
        ("mid-gcno-gcda", [("obj/../../../canary/m.gcno", n["gcc_gcno_main"]), ("obj/../../../canary/m.gcda", n["gcc_gcda_main"])],
         [("obj/../../../canary/m.gcno", "m_1.gcno"), ("obj/../../../canary/m.gcda", "m_1.gcda")], []),
        ("mid-orphan-gcno", [("a/b/../../../../canary/mid/o.gcno", n["gcc_gcno_orphan"])], [("a/b/../../../../canary/mid/o.gcno", "o_1.gcno")], []),
        ("mid-gcda-only", [("ok/m.gcno", n["gcc_gcno_main"]), ("ok/m.gcda", n["gcc_gcda_main"]), ("ok/../../../canary/ok/m.gcda", n["gcc_gcda_main"]), ("ok/../../../canary/ok/m.gcno", n["gcc_gcno_main"])],
         [("ok/m.gcno", "m_1.gcno"), ("ok/m.gcda", "m_1.gcda"), ("ok/../../../canary/ok/m.gcda", "m_1.gcda"), ("ok/../../../canary/ok/m.gcno", "m_1.gcno")], []),
        ("mid-profraw", [("good.info", n["info_a"]), ("obj/../../../canary/escaped.profraw", n["profraw_1"])], [("obj/../../../canary/escaped.profraw", "escaped_1.profraw")], []),
        ("mid-profdata", [("obj/./../../../canary/e.profdata", n["profraw_2"]), ("x/../y.profdata", n["profraw_1"])],
         [("obj/./../../../canary/e.profdata", "e_1.profdata"), ("x/../y.profdata", "y_1.profdata")], ["-b", "../canary"]),
        # backslash forms: ONE ordinary component on Unix (so they are "safe" and stay inside the temp dir as odd file names); a '\\' -> '/' rewrite anywhere
        # between the safety test and the join would turn them into climbing paths
        ("bs-dotdot", [("..\\..\\canary\\evil.gcno", n["gcc_gcno_main"]), ("..\\..\\canary\\evil.gcda", n["gcc_gcda_main"]),
                       ("..\\..\\canary\\newdir\\o.gcno", n["gcc_gcno_orphan"])],
         [("..\\..\\canary\\evil.gcno", "..\\..\\canary\\evil_1.gcno"), ("..\\..\\canary\\evil.gcda", "..\\..\\canary\\evil_1.gcda"),
          ("..\\..\\canary\\newdir\\o.gcno", "..\\..\\canary\\newdir\\o_1.gcno")], []),
        ("bs-mixed", [("obj\\..\\..\\..\\canary\\m2.gcno", n["gcc_gcno_main"]), ("obj\\..\\..\\..\\canary\\m2.gcda", n["gcc_gcda_main"]),
                      ("sub/..\\..\\..\\canary\\nd2\\p.profraw", n["profraw_1"]), ("\\abs\\x.profdata", n["profraw_2"])],
         [("obj\\..\\..\\..\\canary\\m2.gcno", "obj\\..\\..\\..\\canary\\m2_1.gcno"), ("sub/..\\..\\..\\canary\\nd2\\p.profraw", "..\\..\\..\\canary\\nd2\\p_1.profraw")], []),
        ("info-names", [("../../canary/i.info", n["info_a"]), ("@SB@/canary/j.xml", n["xml_1"])], [], []),
    ]
    for tag, members, hostile, extra in hostile_sets:
        arg = {"kind": "zip", "name": tag + ".zip", "entries": [[m, c, "x"] for m, c in members]}
        for argv, o, pre in (OUTPUTS[:2] if tier == "quick" else OUTPUTS[:4]):
            out.append({"inputs": [arg], "argv": extra + argv, "out": o, "pre_out": pre, "hostile": hostile, "tag": tag})
        # with --llvm the gcno/gcda members are read into buffers: nothing may be written at all
        if tag in ("dotdot", "absolute", "mid-gcno-gcda", "mid-gcda-only"):
            arg2 = {"kind": "zip", "name": tag + ".zip", "entries": [[m, n["llvm_gcno_file"] if m.endswith("gcno") else n["llvm_gcda_file"], "x"] for m, _ in members]}
            out.append({"inputs": [arg2], "argv": ["--llvm", "-t", "lcov", "-o", "../out/o.lcov"], "out": "out/o.lcov", "tag": tag + "-llvm"})
        if tag in ("mid-profraw", "mid-profdata", "profraw"):
            # profiles are extracted with --llvm as well
            out.append({"inputs": [arg], "argv": ["--llvm"] + extra + ["-t", "lcov", "-o", "../out/o.lcov"], "out": "out/o.lcov", "hostile": hostile, "tag": tag + "-llvm"})
    return out


def run(chk):
    chk.proofs()
    cli = os.environ.get("GRCOV_BIN") or vlib.build_cli()
    pool = L.standard_pool()
    dist = dict.fromkeys(["runs", "normal_exit", "failed_exit", "writes_in_output", "members_safe", "members_unsafe_but_inside", "members_escaping_if_extracted",
                          "unsafe_members_not_extracted"], 0)
    kf = {e["key"]: e for e in vlib.known_findings(chk.pid)}
    cs = cases(pool, chk.rng, chk.tier)
    try:
        for c in cs:
            run_case(chk, cli, pool, c, dist, kf)
    finally:
        shutil.rmtree(os.path.join(vlib.BUILD, "scratch", "c19"), ignore_errors=True)
    chk.extra["distribution"] = dist
    chk.cov["rule"] = ("CLI runs inside a fresh sandbox tree (inputs, a canary sibling directory, the output location, TMPDIR, the working directory), full snapshot "
                       "(paths, sizes, SHA-256, link targets) before and after: 12 output configurations (lcov, html, html into an existing dir, covdir, files, cobertura, "
                       "cobertura-pretty, markdown, ade, coveralls, four types into one directory, stdout) x {benign dir+zip+plain inputs with --llvm, tracefiles whose SF paths are "
                       "relative with '..', absolute, or normalise outside, with and without -s}; several output types with -o an existing / missing / nested missing directory or a regular file, started from elsewhere and from inside the input directory; GCC path from directories and zips (gcov runs); source-based coverage with stand-in llvm-profdata/llvm-cov and profiles as plain arguments, in a directory, in a zip and mixed, failing llvm-profdata / llvm-cov stubs, directory symlinks named like profiles next to <stem>_1.<ext>/ directories, and same-named profiles with different contents in different sub-directories of a directory and a zip (both orders, dir+dir, zip+zip); recorded paths with backslashes whose literal file exists under -s and the working directory (html, multi-output); symlinked input directory and links "
                       "inside an input directory; --abs-link-prefix with an absolute writable directory / URL / relative prefixes; backslash-dot-dot names as zip members and as literal file names in a directory; hostile zips (member names with '..', absolute, '..' that stays inside, 295-byte names, duplicates, hostile .info/.xml names; with and "
                       "without --llvm).  Every changed path must lie in TMPDIR or at the output location, TMPDIR must be empty after exit 0; Model/Confine.v's verdict "
                       "on every hostile member name is evaluated (safe => inside); unsafe members must leave no trace outside (regression guard for the fixed zip-slip).  non-trivial = run with distinct (arguments, changes)")
    chk.cov["trusted_base"] = ["Coq kernel; vm_compute for run_confine", "the kernel's path resolution and what the external gcov binary writes are observed, not modelled",
                               "snapshot/diff code of the driver; Python zipfile for hostile archives"]
    chk.assumptions = ["C19_html_confined asks for a normalised relative path: that every reported relative path is one is C11 (Props/C11.v C11_normal_form, C11_reported_normal, "
                       "proved there over Model/Paths.v); here the sandbox oracle observes it end to end, incl. recorded paths with backslashes, '..' and symlinked absolute paths",
                       "the temporary directory is reached through TMPDIR (tempfile crate)", "lexical confinement: symbolic links created by other processes inside the temporary directory during the run are out of scope"]


def replay(chk, path):
    r = json.load(open(path))
    if "case" in r and "inputs" in r:
        cli = os.environ.get("GRCOV_BIN") or vlib.build_cli()
        pool = L.standard_pool()
        cases(pool, chk.rng, "quick")
        dist = dict.fromkeys(["runs", "normal_exit", "failed_exit", "writes_in_output", "members_safe", "members_unsafe_but_inside", "members_escaping_if_extracted",
                              "unsafe_members_not_extracted"], 0)
        kf = {e["key"]: e for e in vlib.known_findings(chk.pid)}
        run_case(chk, cli, pool, dict(r["case"], inputs=r["inputs"]), dist, kf)
    else:
        chk.proofs()
