"""C20 - coverage through external tools.

Proofs (Props/C20.v: grcov's glue around the tools, given the tools' results) and two differential streams
through the grcov CLI:
 (GCC)  generated C programs, gcc --coverage, run 0-3 times; gcov's own text/JSON account vs `grcov -t lcov --threads N`
        for N in {1,2,4}; the glue model (Model/Tools.v, gcc_worker) fed with what gcov left for each item.
 (LLVM) recording stand-ins for llvm-profdata / llvm-cov under --llvm-path; layouts of .profraw/.profdata over
        directories, zips and plain arguments; binary trees with executables, non-executables, failing binaries;
        the Tools model (consume_llvm) fed with the same oracle data.
"""
import concurrent.futures
import json
import os
import shutil
import subprocess

import vlib, gen, toolsgen as tg
from vlib import Raw, coq, app

THREADS = (1, 2, 3, 4, 8)
KNOWN_HIDDEN = "find-binaries-standard-filters"


def sh(cmd, cwd, env=None, timeout=120):
    e = dict(os.environ)
    e.pop("GCOV", None)
    e.pop("GCOV_PREFIX", None)
    e.pop("LLVM_PROFILE_FILE", None)
    if env:
        e.update(env)
    return subprocess.run(cmd, cwd=cwd, env=e, stdout=subprocess.PIPE, stderr=subprocess.PIPE, timeout=timeout)


def names_coq(s):
    return list(s.encode() if isinstance(s, str) else s)


def results_coq(rs):
    """[[file, cov-json]..] -> Coq list (name * cov_l)"""
    return [(names_coq(n), gen.cov_coq(c)) for n, c in rs]


def report_from_coq(v):
    return {bytes(n).decode(errors="replace"): gen.cov_from_coq(c) for n, c in v}


# ============================================================================
# GCC stream
# ============================================================================

def gcc_case(cli, sc, idx, prog, branch):
    """build, run, take gcov's account, emulate the work items, run grcov for every thread count."""
    d = os.path.join(sc, "g%d" % idx)
    b = os.path.join(d, "build")
    os.makedirs(os.path.join(b, "sub"), exist_ok=True)
    os.makedirs(os.path.join(d, "tmp"))
    os.makedirs(os.path.join(b, "include"), exist_ok=True)
    for rel, text in prog["files"].items():
        with open(os.path.join(b, rel), "w") as f:
            f.write(text)
    os.makedirs(os.path.join(b, "include"), exist_ok=True)

    def compile_cmd(u):
        # absolute include directory / absolute unit path: the compiler records these sources under an absolute name
        inc = ["-I" + os.path.join(b, "include")] if prog.get("abs_include") else []
        src = os.path.join(b, u) if u in prog.get("abs_units", []) else u
        return ["gcc", "--coverage", prog.get("opt", "-O0")] + inc + ["-c", src, "-o", u[:-2] + ".o"]
    objs = []
    for u in prog["units"]:
        o = u[:-2] + ".o"
        p = sh(compile_cmd(u), b)
        if p.returncode != 0:
            return {"driver_error": "gcc failed: " + p.stderr.decode()[-500:]}
        objs.append(o)
    p = sh(["gcc", "--coverage", "-o", "prog"] + objs, b)
    if p.returncode != 0:
        return {"driver_error": "link failed: " + p.stderr.decode()[-500:]}
    for a in prog["runs"]:
        try:
            p = sh(["./prog", a], b, timeout=10)
        except subprocess.TimeoutExpired:
            return {"driver_error": "program did not return at once (closed-form loop not applied?)"}
        if p.returncode != 0:
            return {"driver_error": "program failed"}
    # a unit without any function writes no .gcda: recompiling it makes it an ordinary never-run unit, not a stale one
    stale = [u for u in prog.get("stale", []) if os.path.exists(os.path.join(b, u[:-2] + ".gcda"))]
    for k, u in enumerate(stale):
        with open(os.path.join(b, u), "a") as f:
            f.write("unsigned stale_extra_%d(unsigned a)\n{\n    return a + %d;\n}\n" % (k, k + 1))
        p = sh(compile_cmd(u), b)
        if p.returncode != 0:
            return {"driver_error": "gcc (stale recompilation) failed: " + p.stderr.decode()[-500:]}
    # corrupted counter: gcov succeeds on the unit but its JSON carries "count": -1, which grcov's parser rejects
    corrupt = []
    for u in prog.get("corrupt", []):
        gp = os.path.join(b, u[:-2] + ".gcda")
        if u in stale or not os.path.exists(gp):
            continue
        orig = open(gp, "rb").read()
        if not tg.corrupt_gcda(gp):
            continue
        probe = os.path.join(d, "probe_" + str(len(corrupt)))
        os.makedirs(probe)
        sh(["gcov"] + (["-b", "-c"] if branch else []) + ["-j", os.path.join(b, u[:-2] + ".gcno")], probe)
        rejected = False
        for fn in os.listdir(probe):
            try:
                rejected = rejected or tg.json_rejected(tg.read_gcov_json(os.path.join(probe, fn)))
            except Exception:
                rejected = True
        if rejected:
            corrupt.append(u)
        else:
            with open(gp, "wb") as f:      # the corruption did not surface as a negative counter: keep the unit healthy
                f.write(orig)
    for sd in ("sub", "include"):
        if not os.listdir(os.path.join(b, sd)):
            os.rmdir(os.path.join(b, sd))
    # (a) the toolchain's own account: gcov -b -c (text) and gcov -b -c -j (JSON), per notes file
    acct = os.path.join(d, "acct")
    shutil.copytree(b, acct)
    text_acc, json_acc = {}, {}
    for u in prog["units"]:
        g = u[:-2] + ".gcno"
        p = sh(["gcov", "-b", "-c", g], acct)
        if u in stale:
            # gcov itself rejects this unit: it has no account and must contribute nothing to the report
            if p.returncode == 0:
                return {"driver_error": "gcov accepted a unit that was meant to be stale: " + u}
            for fn in os.listdir(acct):
                if fn.endswith(".gcov") or fn.endswith(".gcov.json.gz"):
                    os.remove(os.path.join(acct, fn))
            continue
        if u in corrupt:
            # grcov must reject this unit as a whole: it has no place in the account either
            for fn in os.listdir(acct):
                if fn.endswith(".gcov") or fn.endswith(".gcov.json.gz"):
                    os.remove(os.path.join(acct, fn))
            continue
        if p.returncode != 0:
            return {"driver_error": "gcov failed: " + p.stderr.decode()[-300:]}
        for fn in sorted(os.listdir(acct)):
            if fn.endswith(".gcov"):
                src, lines, fns = tg.read_gcov_text(os.path.join(acct, fn))
                os.remove(os.path.join(acct, fn))
                t = text_acc.setdefault(src, {"lines": {}, "funcs": {}})
                for n, c in lines.items():
                    t["lines"][n] = t["lines"].get(n, 0) + c
                for n, c in fns.items():
                    t["funcs"][n] = t["funcs"].get(n, False) or c > 0
        p = sh(["gcov", "-b", "-c", "-j", g], acct)
        for fn in sorted(os.listdir(acct)):
            if fn.endswith(".gcov.json.gz"):
                js = tg.read_gcov_json(os.path.join(acct, fn))
                os.remove(os.path.join(acct, fn))
                for src, a in tg.json_account(js).items():
                    t = json_acc.setdefault(src, {"lines": {}, "funcs": {}, "multi": set()})
                    for n, c in a["lines"].items():
                        t["lines"][n] = t["lines"].get(n, 0) + c
                    for n, e in a["funcs"].items():
                        t["funcs"][n] = t["funcs"].get(n, False) or e
                    t["multi"] |= a["multi"]
    # (b) what gcov leaves in a worker directory for grcov's own command line (the glue model's oracle data)
    items = []
    for k, u in enumerate(prog["units"]):
        stem = u[:-2]
        emu = os.path.join(d, "emu%d" % k)
        w = os.path.join(emu, "w")
        os.makedirs(os.path.join(emu, os.path.dirname(stem)), exist_ok=True)
        os.makedirs(w)
        gcno = os.path.join(emu, stem + "_1.gcno")
        shutil.copyfile(os.path.join(b, stem + ".gcno"), gcno)
        if os.path.exists(os.path.join(b, stem + ".gcda")):
            shutil.copyfile(os.path.join(b, stem + ".gcda"), os.path.join(emu, stem + "_1.gcda"))
        p = sh(["gcov"] + (["-b", "-c"] if branch else []) + [gcno, "-i"], w)
        left = []
        for fn in sorted(os.listdir(w)):
            try:
                js_ = tg.read_gcov_json(os.path.join(w, fn))
                rs = None if tg.json_rejected(js_) else tg.json_as_grcov(js_)
            except Exception:
                rs = None
            left.append([fn, rs])
        items.append({"stem": stem, "gcno_name": os.path.basename(gcno), "run_ok": p.returncode == 0, "left": left})
    # (c) grcov, every thread count
    reports = {}
    for n in THREADS:
        p = sh([cli, b, "-t", "lcov", "--threads", str(n), "--no-demangle"] + (["--branch"] if branch else []),
               d, env={"TMPDIR": os.path.join(d, "tmp")})
        if p.returncode != 0:
            reports[n] = {"exit": p.returncode, "stderr": p.stderr.decode(errors="replace")[-800:]}
            continue
        rep, dup = tg.read_lcov(p.stdout.decode(errors="replace"))
        reports[n] = {"report": rep, "dup": dup}
    # the same run without the corrupted units: must give the same report
    without = None
    if corrupt and len(corrupt) < len(prog["units"]):      # (with no unit left grcov has no input at all)
        good = os.path.join(d, "good")
        skip = {u[:-2] + e for u in corrupt for e in (".gcno", ".gcda")}
        shutil.copytree(b, good, ignore=lambda dd, names: [n for n in names if os.path.normpath(os.path.join(os.path.relpath(dd, b), n)) in skip])
        p = sh([cli, good, "-t", "lcov", "--threads", "1", "--no-demangle"] + (["--branch"] if branch else []),
               d, env={"TMPDIR": os.path.join(d, "tmp")})
        without = tg.read_lcov(p.stdout.decode(errors="replace"))[0] if p.returncode == 0 else {"exit": p.returncode}
    leftover = os.listdir(os.path.join(d, "tmp"))
    shutil.rmtree(d, ignore_errors=True)
    return {"text": text_acc, "json": {k: {"lines": v["lines"], "funcs": v["funcs"], "multi": sorted(v["multi"])} for k, v in json_acc.items()},
            "items": items, "reports": reports, "tmp_leftover": leftover, "corrupt": corrupt, "stale": stale, "without": without}


def gcc_item_coq(it):
    left = []
    for fn, rs in it["left"]:
        left.append((names_coq(fn), Raw("None") if rs is None else Raw("(Some %s)" % coq(results_coq(rs)))))
    return (names_coq(it["stem"]), names_coq(it["gcno_name"]), it["run_ok"], left)


def own_source(name):
    return not name.startswith("/usr") and not name.startswith("/lib")


def gcc_stream(chk, cli, ncases):
    sc = vlib.scratch("c20_gcc")
    rng = chk.rng
    progs = [(i, tg.gen_program(rng), rng.random() < 0.6) for i in range(ncases)]
    # corpus: the witness of the repaired defect dd2649f (two functions on one line: the entries add up), always first
    w = {"files": {"m0.c": "#include <stdlib.h>\nint f(int a) { return a + 1; } int g(int a) { return a - 1; }\n"
                           "int main(int argc, char **argv)\n{\n    return f(argc) > 100;\n}\n"},
         "units": ["m0.c"], "runs": ["1"], "pair_line": True}
    def unit(k):
        return ("#include <stdlib.h>\nint u%d(int a)\n{\n    if (a > %d)\n        return a + %d;\n    return a;\n}\n" % (k, k, k))
    main = ("#include <stdlib.h>\nint u1(int); int u2(int); int u3(int); int u4(int); int u5(int);\n"
            "int main(int argc, char **argv)\n{\n    int n = argc > 1 ? atoi(argv[1]) : 0;\n"
            "    return u1(n) + u2(n) + u3(n) + u4(n) + u5(n) > 1000;\n}\n")
    # several translation units, some with an extra dot in the file name (stats.v2.c -> stats.v2.gcno), two name sets
    d1 = {"files": {"main.c": main, "alpha.c": unit(1), "stats.v2.c": unit(2), "beta.c": unit(3), "io.test.c": unit(4), "gamma.c": unit(5)},
          "units": ["main.c", "alpha.c", "stats.v2.c", "beta.c", "io.test.c", "gamma.c"], "runs": ["3", "0"], "pair_line": False}
    d2 = {"files": {"m0.c": main, "a.b.c": unit(1), "zeta.c": unit(2), "k.1.2.c": unit(3), "plain.c": unit(4), "w.x.c": unit(5)},
          "units": ["m0.c", "a.b.c", "zeta.c", "k.1.2.c", "plain.c", "w.x.c"], "runs": ["7"], "pair_line": False}
    # stale translation units (gcov fails on them but leaves its output behind): they must contribute nothing, for every thread count
    d3 = dict(d1, stale=["alpha.c", "io.test.c"])
    d4 = dict(d2, stale=["zeta.c"], runs=["7", "2"])
    # sources under absolute names: header in an include directory given as an absolute -I path, unit compiled by absolute path
    hdr = "#ifndef ABSINC_H\n#define ABSINC_H\nstatic inline int absinc_fn(int x)\n{\n    if (x > 2)\n        return x - 1;\n    return x + 1;\n}\n#endif\n"
    d5 = {"files": {"main.c": '#include "absinc.h"\n' + main.replace("return u1(n)", "return absinc_fn(n) + u1(n)"),
                    "alpha.c": unit(1), "beta.c": '#include "absinc.h"\n' + unit(2).replace("return a;", "return absinc_fn(a);"),
                    "gamma.c": unit(3), "delta.c": unit(4), "eps.c": unit(5), "include/absinc.h": hdr},
          "units": ["main.c", "alpha.c", "beta.c", "gamma.c", "delta.c", "eps.c"], "runs": ["3", "1"], "pair_line": False,
          "abs_include": True, "abs_units": ["gamma.c"]}
    # files that own executable lines but in which no function starts: a fragment of statements included inside a function body,
    # an X-macro table expanded inside a function; plus a header that only contributes a statement macro
    d6 = {"files": {"frag.inc": "    r += a * 3;\n    if (r > 10)\n        r -= 2;\n",
                    "ops.def": "OP(1, 2)\nOP(2, 5)\nOP(3, 7)\n",
                    "mac.h": "#ifndef M_H\n#define M_H\n#define BUMP(r, a) do { \\\n    if ((a) > 1) \\\n        (r) += 2; \\\n    else \\\n        (r) += 1; \\\n} while (0)\n#endif\n",
                    "m0.c": '#include <stdlib.h>\n#include "mac.h"\nunsigned f(unsigned a)\n{\n    unsigned r = a;\n#include "frag.inc"\n    switch (a) {\n'
                            '#define OP(k, v) case k: \\\n        r += v; \\\n        break;\n#include "ops.def"\n#undef OP\n    default:\n        r = 0;\n    }\n'
                            '    BUMP(r, a);\n    return r;\n}\nint main(int argc, char **argv)\n{\n    return f(argc > 1 ? atoi(argv[1]) : 0) > 1000;\n}\n',
                    "other.c": unit(1)},
          "units": ["m0.c", "other.c"], "runs": ["2", "7"], "pair_line": False}
    # counts above 2^53 with odd low bits (not representable as f64): at -O2 GCC evaluates a simple counting loop and its arc
    # counter in closed form, so a trip count of 2^53+1 returns at once and gcov really prints such counts
    spin = ("__attribute__((noinline)) %sunsigned long spin(unsigned long n)\n{\n    unsigned long s = 0;\n"
            "    for (unsigned long i = 0; i < n; i++)\n        s += 2;\n    return s;\n}\n")
    hmain = ("int main(int argc, char **argv)\n{\n    unsigned long n = argc > 1 ? strtoul(argv[1], 0, 10) : 3;\n"
             "    return spin(n) == 7;\n}\n")
    h1 = {"files": {"hot.c": "#include <stdlib.h>\n" + spin % "static " + hmain}, "units": ["hot.c"],
          "runs": ["9007199254740993", "6"], "pair_line": False, "opt": "-O2", "expect_big": True}
    h2 = {"files": {"m0.c": "#include <stdlib.h>\nunsigned long spin(unsigned long n);\n" + hmain, "spin.c": spin % "", "other.c": unit(1)},
          "units": ["m0.c", "spin.c", "other.c"], "runs": ["18014398509481985", "4611686018427387905", "2"], "pair_line": False,
          "opt": "-O2", "expect_big": True}
    # corrupted-counter units under several names (the order of the work items depends on the names)
    c1 = dict(d1, corrupt=["alpha.c"])
    c2 = dict(d1, corrupt=["stats.v2.c"], runs=["5"])
    c3 = dict(d2, corrupt=["zeta.c"])
    c4 = dict(d2, corrupt=["m0.c"], runs=["1", "1"])
    progs = [(-1, w, False), (-2, d1, True), (-3, d2, False), (-4, d3, False), (-5, d4, True), (-6, d5, True), (-7, d6, True),
             (-8, h1, True), (-9, h2, False), (-10, c1, False), (-11, c2, True), (-12, c3, False), (-13, c4, True)] + progs
    with concurrent.futures.ThreadPoolExecutor(max_workers=8) as ex:
        outs = list(ex.map(lambda t: gcc_case(cli, sc, t[0] + 13, t[1], t[2]), progs))
    known = {e["key"]: e for e in vlib.known_findings(chk.pid) if e.get("status") == "known"}
    dist = {"programs": len(progs), "runs_0": 0, "runs_1": 0, "runs_2plus": 0, "units_multi": 0, "with_header": 0, "with_subdir": 0,
            "pair_line": 0, "branch": 0, "units_total": 0, "programs_with_dotted_unit_name": 0, "programs_with_stale_units": 0, "programs_with_corrupted_counter_unit": 0, "programs_with_included_fragment": 0, "programs_with_xmacro_table": 0, "programs_with_statement_macro_header": 0,
            "files_with_lines_but_no_function_compared": 0, "programs_with_absolute_include_dir": 0, "units_compiled_by_absolute_path": 0, "absolute_source_files_compared": 0, "stale_units": 0, "failed_items_in_model_runs": 0, "thread_counts": list(THREADS), "lines_compared": 0, "functions_compared": 0, "multi_entry_lines_compared": 0, "counts_above_2^53_not_representable_as_f64": 0,
            "latch_multiple": 0, "latch_single": 0}
    exprs, ecases = [], []
    pending_known = []
    for (idx, prog, branch), o in zip(progs, outs):
        case = {"program": prog, "branch": branch}
        if "driver_error" in o:
            chk.violation({"kind": "driver-error", "case": case, "detail": o["driver_error"]}, has_input=False, tag="gcc-driver")
            continue
        chk.count()
        dist["runs_%s" % (len(prog["runs"]) if len(prog["runs"]) < 2 else "2plus")] += 1
        dist["units_multi"] += len(prog["units"]) > 1
        dist["units_total"] += len(prog["units"])
        dist["programs_with_stale_units"] += bool(prog.get("stale"))
        sh_ = prog.get("shapes", {})
        dist["programs_with_included_fragment"] += bool(sh_.get("fragment")) or "frag.inc" in prog["files"]
        dist["programs_with_xmacro_table"] += bool(sh_.get("xmacro")) or "ops.def" in prog["files"]
        dist["programs_with_statement_macro_header"] += bool(sh_.get("stmtmacro")) or "mac.h" in prog["files"]
        dist["programs_with_absolute_include_dir"] += bool(prog.get("abs_include"))
        dist["units_compiled_by_absolute_path"] += len(prog.get("abs_units", []))
        dist["stale_units"] += len(prog.get("stale", []))
        dist["failed_items_in_model_runs"] += sum(not it["run_ok"] for it in o["items"])
        dist["programs_with_dotted_unit_name"] += any(os.path.basename(u).count(".") > 1 for u in prog["units"])
        dist["with_header"] += "util.h" in prog["files"]
        dist["with_subdir"] += any(u.startswith("sub/") for u in prog["units"])
        dist["pair_line"] += prog["pair_line"]
        dist["branch"] += branch
        # the driver's two readings of gcov must agree (else the driver misreads gcov: not a grcov failure)
        for src, t in o["text"].items():
            j = o["json"].get(src)
            if j is None or {int(k): v for k, v in j["lines"].items()} != t["lines"] or j["funcs"] != t["funcs"]:
                chk.violation({"kind": "driver-error", "case": case, "detail": "gcov text and JSON accounts differ for " + str(src),
                               "text": t, "json": j}, has_input=False, tag="gcc-driver")
        reps = o["reports"]
        bad = [n for n in reps if "report" not in reps[n]]
        if bad:
            chk.violation({"kind": "oracle", "stream": "gcc", "case": case, "impl": reps[bad[0]], "clause": "grcov must exit 0 on gcc --coverage output"}, tag="gcc")
            continue
        r1 = reps[1]["report"]
        for n in THREADS[1:]:
            if vlib.canon(reps[n]["report"]) != vlib.canon(r1):
                chk.violation({"kind": "oracle", "stream": "gcc", "case": case, "threads": n, "impl": reps[n]["report"], "expected": r1,
                               "clause": "every thread count gives the same report"}, tag="gcc")
        dist["programs_with_corrupted_counter_unit"] += bool(o["corrupt"])
        if o["without"] is not None and vlib.canon(o["without"]) != vlib.canon(r1):
            chk.violation({"kind": "oracle", "stream": "gcc", "case": case, "corrupt": o["corrupt"], "impl": r1, "expected": o["without"],
                           "clause": "a unit whose gcov output is rejected contributes nothing and leaves the other units' data untouched (same report as without it)"}, tag="gcc")
        if o["tmp_leftover"]:
            chk.violation({"kind": "oracle", "stream": "gcc", "case": case, "left": o["tmp_leftover"], "clause": "temporary directory removed"}, tag="gcc")
        acc = {s: a for s, a in o["text"].items() if own_source(s) and a["lines"]}
        rep = {s: c for s, c in r1.items() if own_source(s)}
        viol = None
        if set(acc) != set(rep):
            viol = "files differ: gcov %s grcov %s" % (sorted(acc), sorted(rep))
        for s in sorted(set(acc) & set(rep)):
            dist["absolute_source_files_compared"] += s.startswith("/")
            dist["files_with_lines_but_no_function_compared"] += not acc[s]["funcs"]
            multi = set(o["json"][s]["multi"])
            got = dict((l, c) for l, c in rep[s]["lines"])
            for l in sorted(set(got) | set(acc[s]["lines"])):
                dist["lines_compared"] += 1
                dist["multi_entry_lines_compared"] += l in multi
                c_ = acc[s]["lines"].get(l)
                dist["counts_above_2^53_not_representable_as_f64"] += c_ is not None and c_ > 2**53 and int(float(c_)) != c_
                if got.get(l) != c_ and viol is None:
                    viol = "%s line %d: grcov %s gcov %s%s" % (s, l, got.get(l), c_, " (line listed for several functions)" if l in multi else "")
            gf = {bytes.fromhex(n).decode(): e for n, st, e in rep[s]["funcs"]}
            for n in sorted(set(gf) | set(acc[s]["funcs"])):
                dist["functions_compared"] += 1
                if gf.get(n) != acc[s]["funcs"].get(n) and viol is None:
                    viol = "%s function %s: grcov executed=%s gcov executed=%s" % (s, n, gf.get(n), acc[s]["funcs"].get(n))
        if prog.get("expect_big") and not any(c > 2**53 and c % 2 == 1 for a in acc.values() for c in a["lines"].values()):
            chk.violation({"kind": "driver-error", "case": case, "detail": "the closed-form loop program did not produce an odd count above 2^53 in gcov's account"},
                          has_input=False, tag="gcc-driver")
        if viol:
            chk.violation({"kind": "oracle", "stream": "gcc", "case": case, "impl": rep, "expected": acc, "detail": viol,
                           "clause": "per-line counts and function executed flags equal gcov's own account"}, tag="gcc")
            continue
        chk.nontrivial({"gcc": prog["files"], "runs": prog["runs"], "branch": branch})
        chk.sample({"stream": "gcc", "units": prog["units"], "runs": prog["runs"], "branch": branch,
                    "files_reported": sorted(rep), "m0_head": prog["files"][prog["units"][0]][:160]}, limit=2)
        # correspondence: the glue model over the same items, any split over workers (here: one worker, and a 2-worker split)
        its = [gcc_item_coq(it) for it in o["items"]]
        exprs.append(app("run_gcc", False, [its]))
        ecases.append((case, r1, o["items"]))
        if len(its) > 1:
            k = len(its) // 2
            exprs.append(app("run_gcc", False, [its[k:], its[:k]]))
            ecases.append((case, r1, o["items"]))
    model = vlib.run_model(chk.pid, "Run.ShowTools", exprs)
    dis = []
    for (case, r1, items), rm in zip(ecases, model):
        chk.count()
        if isinstance(rm, tuple) and rm and rm[0] == "@@ERROR":
            dis.append({"case": case, "model": rm})
            continue
        tag, latches, rep = rm
        for l in latches:
            dist["latch_multiple"] += l == 2
            dist["latch_single"] += l == 1
        mrep = report_from_coq(rep)
        if tag != 0 or vlib.canon(mrep) != vlib.canon(r1):
            dis.append({"case": case, "items": items, "impl": r1, "model": {"tag": tag, "report": mrep}})
    for dd in dis[:3]:
        dd.update({"kind": "correspondence", "stream": "gcc", "theorems_at_stake": "C20_gcc_* (Model/Tools.v gcc_step no longer describes lib.rs consumer)"})
        chk.violation(dd, has_input=False, tag="gcc-corr")
    return dist


# ============================================================================
# LLVM stream
# ============================================================================

def llvm_case(cli, sc, idx, case):
    d = os.path.join(sc, "l%d" % idx)
    ind = os.path.join(d, "in")
    os.makedirs(ind)
    os.makedirs(os.path.join(d, "tmp"))
    args = tg.write_layout(ind, case["inputs"])
    args = [os.path.join(ind, a) if case["abs_args"][i % len(case["abs_args"])] else a for i, a in enumerate(args)]
    bp = tg.write_bins(os.path.join(d, "bins"), case["bins"])
    canned = {}
    for e in case["bins"]["ents"]:
        if e["outcome"] == "ok":
            canned[e["id"]] = tg.render_canned(case["canned"][e["id"]])
        elif e["outcome"] == "garbage":
            canned[e["id"]] = case["garbage"][e["id"]]
    runs = {}
    for n in case["threads"]:
        tools = os.path.join(d, "tools%d" % n)
        tg.install_stubs(tools, canned, merge_fails=case["merge_fails"], merge_warns=case.get("merge_warns", False),
                         warn_ids=case.get("warn_ids", []))
        p = sh([cli] + args + ["--binary-path", bp, "--llvm-path", tools, "-t", "lcov", "--threads", str(n), "--no-demangle"]
               + (["--branch"] if case["branch"] else []), ind, env={"TMPDIR": os.path.join(d, "tmp")})
        merges, exports = tg.read_log(tools)
        r = {"exit": p.returncode, "merges": merges, "exports": exports, "stderr": p.stderr.decode(errors="replace")[-600:],
             "tmp_leftover": sorted(os.listdir(os.path.join(d, "tmp")))}
        for fn in r["tmp_leftover"]:
            pth = os.path.join(d, "tmp", fn)
            shutil.rmtree(pth, ignore_errors=True) if os.path.isdir(pth) else os.remove(pth)
        if p.returncode == 0:
            r["report"], r["dup"] = tg.read_lcov(p.stdout.decode(errors="replace"))
        runs[n] = r
    shutil.rmtree(d, ignore_errors=True)
    return runs


def gen_llvm_case(rng, tier):
    bins = tg.gen_bins(rng)
    canned, garbage = {}, {}
    for e in bins["ents"]:
        if e["outcome"] == "ok":
            canned[e["id"]] = tg.gen_canned(rng)
        elif e["outcome"] == "garbage":
            garbage[e["id"]] = rng.choice(tg.GARBAGE)
    return {"inputs": tg.gen_layout(rng, force_kind=rng.choice([None, None, "profraw", "profdata"])), "bins": bins, "canned": canned, "garbage": garbage,
            "branch": rng.random() < 0.6, "threads": [1, 2, 4] if rng.random() < 0.34 else [rng.choice([1, 2, 4])],
            "abs_args": [rng.random() < 0.5 for _ in range(3)], "merge_fails": rng.random() < 0.05,
            # tools that exit 0 AND print a diagnostic on stderr: still successful
            "merge_warns": rng.random() < 0.3,
            "warn_ids": [e["id"] for e in bins["ents"] if e["outcome"] in ("ok", "garbage") and rng.random() < 0.35]}


def obs_form(rep):
    """C01's observable: function start lines are left out (when exports disagree about a start line the first one
    added wins, and the order in which the walker delivers the binaries is not fixed)."""
    return {f: {"lines": c["lines"], "branches": c["branches"], "funcs": [[n, e] for n, s, e in c["funcs"]]} for f, c in rep.items()}


def strip_branches(c):
    return {"lines": c["lines"], "branches": [], "funcs": c["funcs"]}


def llvm_expected_exports(case):
    """(ids that must be exported exactly once, ids inside the known class, ids that may be exported)"""
    bins = case["bins"]
    if bins["single"]:
        e = next(x for x in bins["ents"] if x["path"] == bins["single"])
        return [e["id"] if e["kind"] in ("elf", "elf_noexec", "script", "text") else ""], [], []
    must = [e["id"] for e in bins["ents"] if tg.is_executable(e) and not tg.filtered_by_walker(e, bins)]
    cls = [e["id"] for e in bins["ents"] if tg.is_executable(e) and tg.filtered_by_walker(e, bins)]
    return must, cls, [""]


def llvm_model_expr(case):
    bins = case["bins"]
    num = lambda s: int(s[1:])
    exp = tg.expected_profiles(case["inputs"])
    items = []
    # producer.rs sends the profdata item before the profraw item; with several workers the order of the two is free
    for kind in ("profdata", "profraw"):
        if not exp[kind]:
            continue
        found = []
        for inp in case["inputs"]:
            for rel, i in inp["files"]:
                if rel.endswith("." + kind):
                    found.append(([num(i)], inp["kind"] == "plain"))
        items.append(found)
    if bins["single"]:
        e = next(x for x in bins["ents"] if x["path"] == bins["single"])
        bpath = Raw("(BPFile %s)" % coq([int(e["id"][1:])]))
    else:
        walk = []
        for e in bins["ents"]:
            if tg.filtered_by_walker(e, bins):
                continue      # entries the `ignore` walker does not yield are absent from the oracle data
            content = tg.bin_content(e)
            walk.append(([int(e["id"][1:])], True, min(len(content), 128), content[:4] == b"\x7fELF" and len(content) > 52))
        if bins["ignore_file"]:
            walk.append(([9999], True, 16, False))
        for k, (lp, tgt) in enumerate(bins.get("links", [])):
            walk.append(([8000 + k], False, 0, False))      # a symbolic link: file_type() is not a regular file
        bpath = Raw("(BPDir (map mk_fentry %s))" % coq(walk))
    table = []
    for e in bins["ents"]:
        if e["kind"] in ("empty", "short"):
            continue          # the stand-in cannot read an id from such a file: its export fails
        if e["outcome"] == "ok":
            table.append(([int(e["id"][1:])], Raw("(Some %s)" % coq(list(tg.render_canned(case["canned"][e["id"]]).encode())))))
        elif e["outcome"] == "garbage":
            table.append(([int(e["id"][1:])], Raw("(Some %s)" % coq(list(case["garbage"][e["id"]].encode())))))
    return app("run_llvm", case["branch"], not case["merge_fails"], bpath, table, items)


def llvm_stream(chk, cli, ncases):
    sc = vlib.scratch("c20_llvm")
    rng = chk.rng
    cases = [gen_llvm_case(rng, chk.tier) for _ in range(ncases)]
    # corpus: witness of the known finding (an executable under a dot-directory, as libtool's .libs/)
    wit = {"inputs": [{"kind": "plain", "name": "w.profraw", "files": [["w.profraw", "P1"]], "noise": []}],
           "bins": {"ents": [{"path": ".libs/b0", "kind": "elf", "id": "B0", "outcome": "ok"},
                             {"path": "b1", "kind": "elf", "id": "B1", "outcome": "ok"}], "ignore_file": False, "single": None},
           "canned": {"B0": [["src/a.c", {"lines": [[1, 1]], "branches": [], "funcs": []}]],
                      "B1": [["src/b.c", {"lines": [[1, 1]], "branches": [], "funcs": []}]]}, "garbage": {},
           "branch": False, "threads": [1], "abs_args": [False], "merge_fails": False}
    cov1 = lambda n: {"lines": [[1, n], [2, 1]], "branches": [], "funcs": [[gen.hexname("f%d" % n), 1, True]]}
    same = {"inputs": [{"kind": "dir", "name": "profiles", "files": [["run1/default.profraw", "P1"], ["run2/other.profraw", "P2"]], "noise": []}],
            "bins": {"ents": [{"path": "server/bin/tool", "kind": "elf", "id": "B0", "outcome": "ok"},
                              {"path": "client/bin/tool", "kind": "elf", "id": "B1", "outcome": "ok"},
                              {"path": "libexec/tool", "kind": "elf_noexec", "id": "B2", "outcome": "fail"},
                              {"path": "libexec/helper", "kind": "elf", "id": "B3", "outcome": "ok"},
                              {"path": "tool", "kind": "elf", "id": "B4", "outcome": "ok"}], "ignore_file": False, "single": None},
            "canned": {"B0": [["src/server.c", cov1(3)]], "B1": [["src/client.c", cov1(5)]], "B3": [["src/helper.c", cov1(7)]],
                       "B4": [["src/server.c", cov1(2)]]}, "garbage": {},
            "branch": False, "threads": [1, 2, 4], "abs_args": [False], "merge_fails": False}
    # profile names that differ only by '/' versus '_', in a zip and in a directory
    coll = dict(same, inputs=[{"kind": "zip", "name": "profiles.zip", "files": [["a/b.profraw", "P1"], ["a_b.profraw", "P2"], ["c.profraw", "P3"]], "noise": []},
                              {"kind": "plain", "name": "plain.profraw", "files": [["plain.profraw", "P4"]], "noise": []}], threads=[1, 2])
    coll2 = dict(same, inputs=[{"kind": "dir", "name": "dir1", "files": [["x/y.profdata", "P1"], ["x_y.profdata", "P2"], ["run/1.profraw", "P3"], ["run_1.profraw", "P4"]], "noise": []}],
                 threads=[2])
    # successful exports / merge that print warnings on stderr, next to an export that really fails; and a failing merge
    warn = dict(same, warn_ids=["B0", "B3", "B4"], merge_warns=True, threads=[1, 2])
    mfail = dict(same, merge_fails=True, threads=[1, 2])
    # symbolic links to a binary (libfoo.so -> libfoo.so.1 -> libfoo.so.1.2), to a directory, dangling: the real file is exported once
    lnk = dict(same, bins={"ents": [{"path": "lib/libfoo.so.1.2", "kind": "elf_noexec", "id": "B0", "outcome": "ok"},
                                    {"path": "libexec/tool", "kind": "elf", "id": "B1", "outcome": "ok"},
                                    {"path": "libexec/broken", "kind": "elf", "id": "B3", "outcome": "fail"}],
                             "ignore_file": False, "single": None,
                             "links": [["lib/libfoo.so.1", "libfoo.so.1.2"], ["lib/libfoo.so", "libfoo.so.1"], ["bin/tool", "../libexec/tool"],
                                       ["bin/gone", "../libexec/nothing"], ["libexec2", "libexec"]]}, threads=[1, 4])
    # several .profdata inputs (plain arguments first, then a directory and a zip) next to .profraw ones: all go through the merge
    pdata = dict(same, inputs=[{"kind": "plain", "name": "first.profdata", "files": [["first.profdata", "P1"]], "noise": []},
                               {"kind": "plain", "name": "second.profdata", "files": [["second.profdata", "P2"]], "noise": []},
                               {"kind": "dir", "name": "d", "files": [["x.profdata", "P3"], ["y/z.profdata", "P4"], ["r.profraw", "P5"]], "noise": []},
                               {"kind": "zip", "name": "z.zip", "files": [["x.profdata", "P6"]], "noise": []}], threads=[1, 2])
    pdata1 = dict(same, inputs=[{"kind": "plain", "name": "only.profdata", "files": [["only.profdata", "P1"]], "noise": []}], threads=[1])
    cases = [wit, same, coll, coll2, warn, mfail, lnk, pdata, pdata1] + cases
    with concurrent.futures.ThreadPoolExecutor(max_workers=6) as ex:
        outs = list(ex.map(lambda t: llvm_case(cli, sc, t[0], t[1]), enumerate(cases)))
    known = {e["key"]: e for e in vlib.known_findings(chk.pid) if e.get("status") == "known"}
    dist = {"cases": len(cases), "grcov_runs": 0, "profiles": 0, "inputs_dir": 0, "inputs_zip": 0, "inputs_plain": 0, "both_kinds": 0,
            "same_name_in_several_archives": 0, "archives_with_slash_underscore_colliding_names": 0, "binaries": 0, "executables": 0, "failing_exports": 0, "garbage_exports": 0,
            "non_executables": 0, "hidden_or_ignored_executables": 0, "extra_exports_of_non_executables": 0, "single_file_binary_path": 0,
            "merge_failure_cases": 0, "binary_trees_with_symlinks": 0, "cases_with_two_or_more_profdata": 0, "merges_with_stderr_warning": 0, "successful_exports_with_stderr_warning": 0, "reports_with_shared_files": 0, "cases_with_same_named_executables": 0, "class_executables_not_exported": 0, "class_executables_exported": 0}
    exprs, ecases = [], []
    for case, runs in zip(cases, outs):
        exp = tg.expected_profiles(case["inputs"])
        must, cls, may = llvm_expected_exports(case)
        dist["profiles"] += sum(len(v) for v in exp.values())
        for inp in case["inputs"]:
            dist["inputs_" + inp["kind"]] += 1
        dist["both_kinds"] += bool(exp["profraw"]) and bool(exp["profdata"])
        for inp in case["inputs"]:
            flat = [rel.replace("/", "_") for rel, _ in inp["files"]]
            dist["archives_with_slash_underscore_colliding_names"] += len(flat) != len(set(flat))
        rels = [rel for inp in case["inputs"] if inp["kind"] != "plain" for rel, _ in inp["files"]]
        dist["same_name_in_several_archives"] += len(rels) != len(set(rels))
        dist["binaries"] += len(case["bins"]["ents"])
        dist["executables"] += sum(tg.is_executable(e) for e in case["bins"]["ents"])
        dist["non_executables"] += sum(not tg.is_executable(e) for e in case["bins"]["ents"])
        dist["hidden_or_ignored_executables"] += len(cls)
        dist["single_file_binary_path"] += bool(case["bins"]["single"])
        dist["binary_trees_with_symlinks"] += bool(case["bins"].get("links"))
        dist["cases_with_two_or_more_profdata"] += len(exp["profdata"]) >= 2
        exe_names = [os.path.basename(e["path"]) for e in case["bins"]["ents"] if tg.is_executable(e) and not tg.filtered_by_walker(e, case["bins"])]
        dist["cases_with_same_named_executables"] += len(exe_names) != len(set(exe_names))
        dist["merge_failure_cases"] += case["merge_fails"]
        first_report = None
        ok_case = True
        for n, r in runs.items():
            chk.count()
            dist["grcov_runs"] += 1
            viol = None
            kinds = [k for k in ("profraw", "profdata") if exp[k]]
            by_id = {e["id"]: e for e in case["bins"]["ents"]}
            if r["exit"] != 0:
                viol = ("exit", "grcov exit status %d: %s" % (r["exit"], r["stderr"]))
            if viol is None and r["tmp_leftover"]:
                viol = ("tmpdir-clean", "left in TMPDIR after the run: %s" % r["tmp_leftover"])
            # clause 1: every discovered profile handed to the merge tool exactly once
            if viol is None:
                got = sorted(sorted(m["ids"]) for m in r["merges"])
                want = sorted(exp[k] for k in kinds)
                if got != want:
                    viol = ("each-profile-once", "merge inputs %s expected %s" % (got, want))
                # identity by CONTENT: sha1 of every file the merge tool was given vs sha1 of every generated profile
                goth = sorted(sorted(m["hashes"]) for m in r["merges"])
                wanth = sorted(sorted(tg.profile_hash(i) for i in exp[k]) for k in kinds)
                if viol is None and goth != wanth:
                    viol = ("each-profile-once", "content hashes of the merge inputs %s differ from those of the discovered profiles %s" % (goth, wanth))
                for m in r["merges"]:
                    if m["argv"][:5] != ["merge", "-f", "-", "-sparse", "-o"] or len(m["argv"]) != 6:
                        viol = ("each-profile-once", "unexpected llvm-profdata arguments %s" % m["argv"])
            # clause 2: every executable exported exactly once per merged profile
            miss_in_class = False
            if viol is None and not case["merge_fails"]:
                for m in r["merges"]:
                    ids = [x["id"] for x in r["exports"] if x["token"] == m["token"]]
                    for x in r["exports"]:
                        if x["token"] == m["token"] and (x["argv"][:1] != ["export"] or x["argv"][2:] != ["--instr-profile", m["argv"][5], "--format", "lcov"]):
                            viol = ("each-binary-once", "unexpected llvm-cov arguments %s" % x["argv"])
                    for i in must:
                        if ids.count(i) != 1:
                            viol = ("each-binary-once", "binary %s exported %d times for one merged profile (exports: %s)" % (i, ids.count(i), ids))
                    for i in cls:
                        dist["class_executables_not_exported" if ids.count(i) == 0 else "class_executables_exported"] += 1
                        if ids.count(i) == 0:
                            miss_in_class = True
                        elif ids.count(i) != 1:
                            viol = ("each-binary-once", "binary %s exported %d times" % (i, ids.count(i)))
                    extra = [i for i in ids if i not in must and i not in cls]
                    dist["extra_exports_of_non_executables"] += len(extra)
                    if any(i not in may and not (i in by_id and not tg.is_executable(by_id[i])) for i in extra):
                        viol = ("each-binary-once", "export of something that is not under the binary path: %s" % extra)
                if [x for x in r["exports"] if x["token"] not in [m["token"] for m in r["merges"]]]:
                    viol = ("each-binary-once", "an export used a profile that no recorded merge produced")
            if viol is None and case["merge_fails"] and r["exports"]:
                viol = ("merge-failed", "exports were run although the merge failed")
            # clause 3+4: failing exports dropped, the others kept; report = C01 aggregation of the successful exports
            if viol is None:
                per_file = {}
                nfail = ngarb = 0
                dist["merges_with_stderr_warning"] += sum(m.get("warned", False) for m in r["merges"])
                dist["successful_exports_with_stderr_warning"] += sum(x["rc"] == 0 and x.get("warned", False) for x in r["exports"])
                for x in r["exports"]:
                    e = by_id.get(x["id"])
                    if x["rc"] != 0:
                        nfail += 1
                        continue
                    if e is None or e["outcome"] != "ok":
                        ngarb += 1
                        continue
                    for fn, c in case["canned"][e["id"]]:
                        per_file.setdefault(fn, []).append(c if case["branch"] else strip_branches(c))
                dist["failing_exports"] += nfail
                dist["garbage_exports"] += ngarb
                rep = r["report"]
                if set(rep) != set(per_file):
                    viol = ("report-is-agg", "files differ: report %s expected %s" % (sorted(rep), sorted(per_file)))
                else:
                    for fn in sorted(rep):
                        why = gen.obs_matches(rep[fn], gen.ref_agg(per_file[fn]))
                        if why:
                            viol = ("report-is-agg", "%s: %s" % (fn, why))
                            break
                    dist["reports_with_shared_files"] += any(len(v) > 1 for v in per_file.values())
            if miss_in_class:
                if KNOWN_HIDDEN in known:
                    chk.known(known[KNOWN_HIDDEN])
                elif viol is None:
                    viol = ("each-binary-once", "an executable under a dot-directory / matched by an ignore file was not exported")
            if viol:
                ok_case = False
                chk.violation({"kind": "oracle", "stream": "llvm", "case": case, "threads": n, "impl": r, "detail": viol[1],
                               "clause": viol[0]}, tag="llvm")
                continue
            if first_report is None:
                first_report = r
            elif vlib.canon(obs_form(first_report["report"])) != vlib.canon(obs_form(r["report"])):
                ok_case = False
                chk.violation({"kind": "oracle", "stream": "llvm", "case": case, "threads": n, "impl": r["report"], "expected": first_report["report"],
                               "clause": "every thread count gives the same report"}, tag="llvm")
        if ok_case and first_report is not None:
            if first_report["exports"]:
                chk.nontrivial({"llvm": case["inputs"], "bins": case["bins"]})
            chk.sample({"stream": "llvm", "args": [i["name"] for i in case["inputs"]], "profiles": exp,
                        "binaries": [[e["path"], e["kind"], e["outcome"]] for e in case["bins"]["ents"]],
                        "exports": sorted([x["id"], x["rc"]] for x in first_report["exports"])}, limit=4)
            exprs.append(llvm_model_expr(case))
            ecases.append((case, first_report))
    model = vlib.run_model(chk.pid, "Run.ShowTools", exprs, shard_size=60)
    dis = []
    for (case, r), rm in zip(ecases, model):
        chk.count()
        if isinstance(rm, tuple) and rm and rm[0] == "@@ERROR":
            dis.append({"case": case, "model": rm})
            continue
        tag, mmerges, mexports, rep = rm
        mrep = report_from_coq(rep)
        imerges = sorted(sorted(int(i[1:]) for i in m["ids"]) for m in r["merges"])
        tok = {m["token"]: sorted(int(i[1:]) for i in m["ids"]) for m in r["merges"]}
        # exports of non-executables (stale-buffer effect, see the report) are not predicted by the model and fail anyway
        by_id = {e["id"]: e for e in case["bins"]["ents"]}
        iexports = sorted((tok[x["token"]], int(x["id"][1:])) for x in r["exports"]
                          if x["id"] in by_id and (case["bins"]["single"] or tg.is_executable(by_id[x["id"]])))
        mm = sorted(sorted(x[0] for x in l) for l in mmerges)
        me = sorted((sorted(x[0] for x in l), b[0]) for l, bs in mexports for b in bs
                    if case["bins"]["single"] is None or True)
        if case["bins"]["single"]:
            e = next(x for x in case["bins"]["ents"] if x["path"] == case["bins"]["single"])
            if e["kind"] in ("empty", "short"):
                iexports = me      # the stub cannot read an id from such a file
        if tag != 0 or mm != imerges or [list(a) for a in me] != [list(a) for a in iexports] or vlib.canon(obs_form(mrep)) != vlib.canon(obs_form(r["report"])):
            dis.append({"case": case, "impl": {"merges": imerges, "exports": iexports, "report": r["report"]},
                        "model": {"tag": tag, "merges": mm, "exports": me, "report": mrep}})
    for dd in dis[:3]:
        dd.update({"kind": "correspondence", "stream": "llvm", "theorems_at_stake": "C20_llvm_* (Model/Tools.v no longer describes llvm_tools.rs / lib.rs consumer)"})
        chk.violation(dd, has_input=False, tag="llvm-corr")
    return dist


def run(chk):
    chk.proofs()
    cli = vlib.build_cli()
    quick = chk.tier == "quick"
    chk.extra["gcc_distribution"] = gcc_stream(chk, cli, 40 if quick else 400)
    chk.extra["llvm_distribution"] = llvm_stream(chk, cli, 150 if quick else 1500)
    v = sh(["gcov", "--version"], "/").stdout.decode().split("\n")[0]
    chk.extra["toolchain"] = {"gcov": v, "gcc": sh(["gcc", "--version"], "/").stdout.decode().split("\n")[0]}
    chk.cov["rule"] = ("(GCC) seeded C programs (1-3 translation units, optional sub-directory unit, header with static inline functions, straight-line / "
                       "if-else / for / while / switch / nested / ternary bodies, optional two functions on one line), gcc --coverage -O0, 0-3 runs (two corpus programs at -O2 whose closed-form counting loop yields odd line counts above 2^53); "
                       "gcov -b -c text account (cross-checked with gcov --json-format) vs grcov -t lcov [--branch] --threads 1,2,3,4,8; several translation units per program, some with an extra dot in the file name, a header with executable code in an include directory given as an absolute -I path and units compiled through their absolute path (sources matched by the name gcov itself reports), files that own executable lines but no function (statement fragment #included inside a body, X-macro .def table expanded inside a function, header contributing only a statement macro), some with one .gcda arc counter overwritten by 2^64-1 (gcov succeeds, its JSON carries count -1 and is rejected: the unit contributes nothing, same report as without it), some stale (recompiled after the run: gcov fails on them and they must contribute nothing); glue model fed with "
                       "what `gcov <gcno> -i` leaves in a worker directory.  (LLVM) recording llvm-profdata/llvm-cov stand-ins under --llvm-path; "
                       "layouts over directories, zips, plain arguments (same relative names in several archives, names differing only by '/' vs '_', _1 suffixes, unique bytes per profile and sha1 of every merge input logged by the stand-in, noise files, both profile kinds); "
                       "binary trees with ELF files with/without exec bit, distinct executables sharing a file name in different directories, scripts, text, empty and 1-byte files, failing and unparsable exports, exports and merges that exit 0 but print warnings on stderr, nothing left in TMPDIR (also after a failing merge), symbolic links to binaries / to directories / dangling, dot-directories, "
                       ".ignore rules, single-file binary path, merge failure; non-trivial = distinct case whose run exported at least one binary / distinct program")
    chk.cov["trusted_base"] = ["Coq kernel; vm_compute for the correspondence", "gcc 12 / gcov 12 themselves (the account IS gcov's output)",
                               "the driver's readers of gcov text, gcov JSON and grcov's lcov report", "the stub tools and their logs",
                               "the `ignore` crate walker, `infer::is_app`, zip/walkdir/symlink extraction: results enter the model as data",
                               "Model/Lcov.v parse_lcov (C04) instantiates the `parse` section variable in the LLVM correspondence"]
    chk.assumptions = ["input arguments are pairwise disjoint (a path given twice is two inputs)",
                       "profile file names are UTF-8 and carry exactly the extension .profraw / .profdata",
                       "'executable' = what find_binaries recognises: a regular non-empty file whose first bytes are an application magic (infer::is_app), not the exec bit",
                       "the tools themselves (gcov, llvm-profdata, llvm-cov) are not modelled: theorems are about grcov's glue given their results"]


def replay(chk, path):
    r = json.load(open(path))
    cli = vlib.build_cli()
    if r.get("stream") == "llvm" and "case" in r:
        sc = vlib.scratch("c20_replay")
        print(json.dumps(llvm_case(cli, sc, 0, r["case"]), indent=1, default=str)[:4000])
    elif r.get("stream") == "gcc" and "case" in r:
        sc = vlib.scratch("c20_replay")
        print(json.dumps(gcc_case(cli, sc, 0, r["case"]["program"], r["case"]["branch"]), indent=1, default=str)[:4000])
    else:
        chk.proofs()
