"""C10 - JaCoCo report fidelity.  Proofs + parse_jacoco_xml_report correspondence at event level (well-formed
renderings, fixtures, malformed stream) + the property's own reading of the report model as oracle."""
import glob, json, os
import vlib, gen, jacocogen as jg

HANG_W = b'<report name="r"><package name="p"><sourcefile name="A.java">'
PANIC_W = b'<report name="r"><package name="p"><sourcefile name="A.java"><line nr="1" mi="0" ci="1" mb="0" cb="9223372036854775808"/></sourcefile></package></report>'
ALLOC_W = b'<report name="r"><package name="p"><sourcefile name="A.java"><line nr="1" mi="0" ci="1" mb="0" cb="99999999999"/></sourcefile></package></report>'
MODEL_CAP = 20000          # cb/mb above this are not expanded under vm_compute (below 2^63 the model would build the vector)
ISIZE_MAX = 2**63 - 1


def known_map(chk):
    return {e["key"]: e for e in vlib.known_findings(chk.pid) if e.get("status") == "known"}


def model_eval(chk, impl):
    """run the Gallina descent on the dumped events; None where the case is kept away from vm_compute."""
    exprs, idx = [], []
    for i, ri in enumerate(impl):
        evs = ri.get("events")
        if evs is None:
            continue
        mx = jg.max_counter(evs)
        if MODEL_CAP < mx <= ISIZE_MAX:
            continue
        exprs.append(vlib.app("run_jacoco", jg.events_coq(evs)))
        idx.append(i)
    vals = vlib.run_model(chk.pid, "Run.ShowJacoco", exprs, shard_size=120)
    out = [None] * len(impl)
    for i, v in zip(idx, vals):
        out[i] = v
    return out


def correspond(chk, label, cases, impl, model, dist):
    """model vs implementation on every case; returns disagreement records."""
    dis = []
    for case, ri, rm in zip(cases, impl, model):
        if "res" not in ri:
            dis.append({"case": case, "impl": ri, "what": "harness gave no result"})
            continue
        a = jg.results_from_impl(ri["res"])
        dist["impl_" + a[0]] = dist.get("impl_" + a[0], 0) + 1
        if rm is None:
            dist["model_skipped_large_alloc"] = dist.get("model_skipped_large_alloc", 0) + 1
            continue
        if isinstance(rm, tuple) and rm and rm[0] == "@@ERROR":
            dis.append({"case": case, "impl": a, "model": rm})
            continue
        m = jg.results_from_coq(rm)
        if a[0] != m[0] or (a[0] == "ok" and vlib.canon(a[1]) != vlib.canon(m[1])):
            dis.append({"case": case, "impl": a, "model": m})
    return dis


def report_dis(chk, dis, label):
    for d in dis[:3]:
        d.update({"kind": "correspondence", "engine": "jacoco",
                  "theorems_at_stake": "C10_* (Model/Jacoco.v no longer describes parse_jacoco_xml_report on quick-xml's event stream)"})
        chk.violation(d, has_input=False, tag=label + "-corr")


def run_wellformed(chk, n, dist):
    rng = chk.rng
    reports, cases, meta = [], [], []
    for i in range(n):
        rep = jg.gen_report(rng, exhaustive_lines=(i % 50 == 7))
        reports.append(rep)
        for style in (None, jg.PLAIN):
            xml = jg.render(rng, rep, style)
            cases.append({"xml": xml.hex()})
            meta.append((i, style is None))
    impl = vlib.run_impl("jacoco", cases, chk.pid, parallel=4)
    model = model_eval(chk, impl)
    dis = correspond(chk, "wf", cases, impl, model, dist)
    for (i, randomised), case, ri in zip(meta, cases, impl):
        chk.count()
        rep = reports[i]
        if "res" not in ri:
            continue
        exp = jg.ref_denote(rep)
        got = jg.results_from_impl(ri["res"])
        if not jg.wf_report(rep):
            dist["not_wf_generated"] = dist.get("not_wf_generated", 0) + 1
            continue
        if got[0] != "ok" or vlib.canon(got[1]) != vlib.canon(exp):
            chk.violation({"kind": "oracle", "engine": "jacoco", "case": case, "xml": bytes.fromhex(case["xml"]).decode("utf-8", "replace"),
                           "impl": got, "expected": exp,
                           "clause": "one record package/sourcefile per sourcefile; branch line = cb true then mb false, other line = [ci>0]; "
                                     "Class#method on the class's source file, start = line, executed iff METHOD covered > 0; unused elements change nothing"},
                          tag="wf")
            continue
        pk = rep["packages"]
        dist["packages"] += len(pk)
        dist["default_package"] += any(p["name"] == "" for p in pk)
        dist["classes"] += sum(len(p["classes"]) for p in pk)
        dist["nested_classes"] += sum(1 for p in pk for c in p["classes"] if "$" in c["name"])
        dist["classes_without_sourcefilename"] += sum(1 for p in pk for c in p["classes"] if c["sourcefilename"] is None)
        dist["several_top_level_per_file"] += sum(1 for p in pk for c in p["classes"] if c["name"].endswith("Helper"))
        dist["methods"] += sum(len(c["methods"]) for p in pk for c in p["classes"])
        dist["sourcefiles"] += sum(len(p["sourcefiles"]) for p in pk)
        dist["kotlin_files"] += sum(1 for p in pk for s in p["sourcefiles"] if s["name"].endswith(".kt"))
        dist["lines"] += sum(len(s["lines"]) for p in pk for s in p["sourcefiles"])
        dist["branch_lines"] += sum(1 for p in pk for s in p["sourcefiles"] for l in s["lines"] if l["mb"] + l["cb"] > 0)
        dist["interleaved"] += any(p["order"] != sorted(p["order"]) for p in pk)
        dist["grouped"] += any(isinstance(x, dict) for x in rep["layout"])
        dist["escaped_names"] += b"&lt;" in bytes.fromhex(case["xml"]) or b"&amp;" in bytes.fromhex(case["xml"])
        if randomised and got[1]:
            chk.nontrivial(got[1])
            chk.sample({"xml": bytes.fromhex(case["xml"]).decode("utf-8", "replace")[:400], "records": [bytes.fromhex(r[0]).decode("utf-8", "replace") for r in got[1]]}, limit=2)
    report_dis(chk, dis, "wf")


def run_fixtures(chk, dist):
    cases, names = [], []
    for p in sorted(glob.glob(os.path.join(vlib.REPO, "test", "jacoco", "*.xml"))):
        data = open(p, "rb").read()
        if not data:
            continue                      # emptied by the sandbox
        cases.append({"xml": data.hex()})
        names.append(os.path.basename(p))
    impl = vlib.run_impl("jacoco", cases, chk.pid)
    model = model_eval(chk, impl)
    dis = correspond(chk, "fixture", cases, impl, model, dist)
    for nme, ri in zip(names, impl):
        chk.count()
        got = jg.results_from_impl(ri.get("res", {}))
        if nme != "not_jacoco_file.xml" and (got[0] != "ok" or not got[1]):
            chk.violation({"kind": "oracle", "engine": "jacoco", "fixture": nme, "impl": got, "clause": "a JaCoCo fixture of /repo/test/jacoco must parse to a non-empty result"}, tag="fixture")
        elif got[0] == "ok" and got[1]:
            chk.nontrivial(["fixture", nme])
    dist["fixtures"] = len(cases)
    report_dis(chk, dis, "fixture")


def run_malformed(chk, n, dist):
    rng = chk.rng
    cases = []
    for i in range(n):
        rep = jg.gen_report(rng)
        xml = jg.render(rng, rep, None if rng.random() < 0.7 else jg.PLAIN)
        for _ in range(rng.choice([1, 1, 2])):
            xml = jg.mutate(rng, xml)
        cases.append({"xml": xml.hex()})
    impl = vlib.run_impl("jacoco", cases, chk.pid, parallel=8)
    model = model_eval(chk, impl)
    sub = {}
    dis = correspond(chk, "mal", cases, impl, model, sub)
    kn = known_map(chk)
    for case, ri in zip(cases, impl):
        chk.count()
        a = jg.results_from_impl(ri.get("res", {}))
        if a[0] in ("err", "hang", "panic", "abort"):
            chk.nontrivial(["mal", a[0], case["xml"][:64]])
        # C10 constrains well-formed reports only: on this stream the agreement with the model is checked; a hang is
        # always a violation, a panic/abort only outside the known class (re-confirmed on the witnesses in run_witnesses)
        if a[0] == "hang":
            chk.violation({"kind": "oracle", "engine": "jacoco", "case": case, "impl": a, "clause": "parser must terminate"}, tag="mal")
        if a[0] in ("panic", "abort") and "jacoco-branch-vector-alloc" not in kn:
            chk.violation({"kind": "oracle", "engine": "jacoco", "case": case, "impl": a, "clause": "parser must not panic/abort"}, tag="mal")
        if a[0] == "other":
            chk.violation({"kind": "oracle", "engine": "jacoco", "case": case, "impl": ri, "clause": "unexpected outcome class"}, tag="mal")
    dist["malformed"] = {k.replace("impl_", ""): v for k, v in sub.items()}
    report_dis(chk, dis, "mal")


def run_witnesses(chk, dist):
    """re-confirm the known findings on the implementation (and the model where it can be evaluated)."""
    cases = [{"xml": HANG_W.hex()}, {"xml": PANIC_W.hex()}, {"xml": ALLOC_W.hex()},
             {"xml": PANIC_W.replace(b'mb="0" cb="9223372036854775808"', b'mb="9223372036854775808" cb="0"').hex()}]
    impl = vlib.run_impl("jacoco", cases, chk.pid)
    model = model_eval(chk, impl)
    dis = correspond(chk, "wit", cases, impl, model, {})
    kn = known_map(chk)
    got = [jg.results_from_impl(r.get("res", {}))[0] for r in impl]
    chk.count(len(cases))
    dist["witnesses"] = got
    # corpus: the report that ends inside <sourcefile> used to spin for ever (fixed by 0b9ca48); it must give an error
    if got[0] != "err":
        chk.violation({"kind": "oracle", "engine": "jacoco", "case": cases[0], "xml": HANG_W.decode(), "impl": got[0],
                       "clause": "a truncated report must be rejected with an error (it used to spin for ever: fixed finding jacoco-eof-hang)"}, tag="hang")
    bad = [g for g in (got[1], got[2], got[3]) if g in ("panic", "abort")]
    if bad:
        if "jacoco-branch-vector-alloc" in kn:
            chk.known(kn["jacoco-branch-vector-alloc"])
        else:
            chk.violation({"kind": "oracle", "engine": "jacoco", "case": cases[1], "xml": PANIC_W.decode(), "impl": got[1:],
                           "clause": "a <line> with a huge cb/mb must not panic or abort the process"}, tag="alloc")
    elif "jacoco-branch-vector-alloc" in kn:
        vlib.log("[C10] known finding jacoco-branch-vector-alloc no longer reproduces (got %s): mark it fixed" % got[1:])
    report_dis(chk, dis, "wit")


def run_spec(chk, n, dist):
    """tie the Gallina SPEC (render_report / denote / wf_report in Model/JacocoSpec.v) to the generator and to the
    driver's reading: for generated reports the canonical Gallina rendering fed to the Gallina descent, the Gallina
    denotation, and the Python reference must give the same file records."""
    rng = chk.rng
    exprs, exps = [], []
    for i in range(n):
        rep = jg.gen_report(rng)
        if not jg.wf_report(rep):
            continue
        exprs.append(vlib.app("run_jacoco_spec", jg.report_coq(rep)))
        exps.append((rep, jg.ref_denote(rep)))
    vals = vlib.run_model(chk.pid, "Run.ShowJacoco", exprs, shard_size=120)
    bad = []
    for (rep, exp), v in zip(exps, vals):
        chk.count()
        if isinstance(v, tuple) and v and v[0] == "@@ERROR":
            bad.append({"report": rep, "model": v})
            continue
        wf, parsed, den = v
        p = jg.results_from_coq(parsed)
        d = jg.results_from_coq((0, den))
        if not wf or p[0] != "ok" or vlib.canon(p[1]) != vlib.canon(exp) or vlib.canon(d[1]) != vlib.canon(exp):
            bad.append({"report": rep, "wf": wf, "parsed": p, "denote": d, "expected": exp})
    dist["spec_reports"] = len(exprs)
    for b in bad[:3]:
        b.update({"kind": "correspondence", "engine": "jacoco-spec", "theorems_at_stake": "C10_jacoco_sound (Gallina denote differs from the driver's reading of the property)"})
        chk.violation(b, has_input=False, tag="spec")


def run(chk):
    chk.proofs()
    quick = chk.tier == "quick"
    dist = {k: 0 for k in ["packages", "default_package", "classes", "nested_classes", "classes_without_sourcefilename", "several_top_level_per_file",
                           "methods", "sourcefiles", "kotlin_files", "lines", "branch_lines", "interleaved", "grouped", "escaped_names"]}
    run_witnesses(chk, dist)
    run_fixtures(chk, dist)
    run_wellformed(chk, 100 if quick else 2000, dist)
    run_malformed(chk, 250 if quick else 4000, dist)
    if hasattr(jg, "report_coq"):
        run_spec(chk, 100 if quick else 1000, dist)
    chk.extra["distribution"] = dist
    chk.cov["rule"] = ("generated report models (0-3 packages incl. default package and repeated package, group nesting, 0-3 files per package with nested "
                       "classes, several top-level classes per file, classes with and without sourcefilename, .java/.kt, 0-3 methods per class, 0-8 lines per "
                       "file with mi/ci/mb/cb from {0,1,2,5} (every combination in every 50th report) and a few large branch counts), each rendered twice "
                       "(randomised spelling: attribute order, extra attributes, <x/> vs <x></x>, entity and character references, quotes, whitespace, comments, "
                       "PIs, DOCTYPE, counters at every level, class/sourcefile interleaving; and a plain spelling): implementation result = the driver's "
                       "reading of the model (oracle) and = Gallina descent run on the quick-xml event stream dumped for the same bytes; /repo/test/jacoco "
                       "fixtures; malformed stream (truncation, attribute substitution/removal, tag removal/duplication, token insertion, byte flips) compared "
                       "on outcome class ok/err/panic and on the full result when ok (a hang is a violation); non-trivial = distinct non-empty result sets (well-formed) or "
                       "distinct non-ok outcomes (malformed)")
    chk.cov["trusted_base"] = ["Coq kernel; vm_compute for the correspondence",
                               "quick-xml 0.37 tokeniser, attribute iterator, unescaping, local_name (its event stream enters the model as data dumped by the harness with the reader configuration of parser.rs:847-850)",
                               "str::parse::<u32/u64> is modelled (parse_uint), FxHashMap iteration order is abstracted (results compared as multisets)",
                               "impl_run harness (fork + CPU-time limit to observe hangs (none since fix 0b9ca48), address-space limit 1 GiB to observe allocation aborts), Python reference"]
    chk.assumptions = ["cb + mb of one line below 2^63 and small enough to allocate (otherwise: known finding jacoco-branch-vector-alloc)",
                       "method names unique within a class (the property's quantifier; overloaded methods share one Class#method key and the last one wins)"]


def replay(chk, path):
    r = json.load(open(path))
    if "case" in r and "xml" in r["case"]:
        cases = [r["case"]]
        impl = vlib.run_impl("jacoco", cases, chk.pid)
        model = model_eval(chk, impl)
        dis = correspond(chk, "replay", cases, impl, model, {})
        report_dis(chk, dis, "replay")
        if r.get("expected") is not None:
            got = jg.results_from_impl(impl[0].get("res", {}))
            if got[0] != "ok" or vlib.canon(got[1]) != vlib.canon(r["expected"]):
                chk.violation({"kind": "oracle", "engine": "jacoco", "case": r["case"], "impl": got, "expected": r["expected"], "clause": r.get("clause")}, tag="replay")
    else:
        chk.proofs()
