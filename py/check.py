"""bin/check Cxx [--tier quick|thorough] [--replay path]"""
import argparse, importlib, os, sys, traceback
sys.path.insert(0, os.path.dirname(os.path.abspath(__file__)))
import vlib


def main():
    ap = argparse.ArgumentParser()
    ap.add_argument("pid")
    ap.add_argument("--tier", default=os.environ.get("VERIF_TIER", "quick"), choices=["quick", "thorough"])
    ap.add_argument("--replay", default=None)
    a = ap.parse_args()
    seed = int(os.environ.get("VERIF_SEED", "20260930"))
    mod = importlib.import_module(a.pid.lower())
    chk = vlib.Check(a.pid, a.tier, seed)
    try:
        if a.replay:
            mod.replay(chk, a.replay)
        else:
            mod.run(chk)
    except vlib.BuildError as e:
        # the implementation no longer builds with the harness: nothing is shown to hold
        chk.violation({"kind": "build-error", "detail": str(e)[-3000:]}, has_input=False, tag="build")
    except Exception:
        tb = traceback.format_exc()
        vlib.log(tb)
        chk.violation({"kind": "check-crashed", "detail": tb[-3000:]}, has_input=False, tag="crash")
    rc = chk.finish()
    vlib.log("[%s] tier=%s evaluations=%d distinct_nontrivial=%d obligations=%d/%d violations=%d wall=%.1fs" % (
        a.pid, a.tier, chk.cov["evaluations"], chk.cov["distinct_nontrivial"], chk.cov["discharged"],
        chk.cov["obligations"], len(chk.violations), __import__("time").time() - chk.t0))
    sys.exit(rc)


main()
