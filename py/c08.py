"""C08 - gcno/gcda counts agree with llvm-cov gcov.  Proofs about the counting algorithm + a three-way differential:
llvm-cov-14 gcov (reference) vs Gcno::compute vs the Gallina model, on generated C programs compiled with clang-14."""
import json, os
import vlib
import gcnolib as G
import cgen


def norm_name(n):
    return n[2:] if n.startswith("./") else n


def of_impl(res):
    """canonical impl/model result -> {file: {"lines": {n: c}, "funcs": {name: executed}}}"""
    out = {}
    for hexname, c in res:
        out[norm_name(bytes.fromhex(hexname).decode())] = {"lines": {l: x for l, x in c["lines"]},
                                                           "funcs": {bytes.fromhex(f[0]).decode(): f[2] for f in c["funcs"]}}
    return out


def compare(ref, got):
    """reference (gcov) vs grcov-derived: list of differences"""
    diffs = []
    ref = {norm_name(k): v for k, v in ref.items()}
    for f in sorted(set(ref) | set(got)):
        if f not in ref or f not in got:
            # a file whose functions have no instrumented line is not reported by one of the two: only a difference if it has lines
            side = ref.get(f) or got.get(f)
            if side["lines"]:
                diffs.append(["file only on one side", f])
            continue
        rl, gl = ref[f]["lines"], got[f]["lines"]
        if set(rl) != set(gl):
            diffs.append(["instrumented lines", f, sorted(set(rl) ^ set(gl))])
        for l in sorted(set(rl) & set(gl)):
            if rl[l] != gl[l]:
                diffs.append(["count", f, l, rl[l], gl[l]])
        for fn, called in ref[f]["funcs"].items():
            if fn in got[f]["funcs"] and got[f]["funcs"][fn] != (called > 0):
                diffs.append(["executed", f, fn, called, got[f]["funcs"][fn]])
        if set(ref[f]["funcs"]) != set(got[f]["funcs"]):
            diffs.append(["functions", f, sorted(set(ref[f]["funcs"]) ^ set(got[f]["funcs"]))])
    return diffs


def synth_flow_section(chk, dist, n):
    """gcno/gcda pairs synthesised from random CFGs with a real (random-walk) profile, arcs of a block listed in shuffled
    or descending destination order as clang <= 10 wrote them (clang 11+ sorts them): three references - the flow
    semantics (every block on its own line: count = visits), llvm-cov-14 gcov on the synthetic pair, the Gallina model"""
    sc = vlib.scratch("c08_synth")
    items = []
    for i in range(n):
        f, counters, exp = G.flow_function(chk.rng, i + 1, tree=(i % 2 == 1), order=chk.rng.choice(["shuffle", "desc"]), walks=chk.rng.randrange(1, 9))
        version = chk.rng.choice([b"*204", b"*704"])
        items.append({"f": f, "exp": exp, "gcno": G.synth_gcno([f], version=version), "gcda": G.synth_gcda([f], {f["ident"]: counters}, version=version)})
    cases = [G.case(it["gcno"], [it["gcda"]], True) for it in items]
    impl = G.run_guarded(cases, chk.pid)
    nref = max(4, n // 4)
    model = G.run_model(chk.pid, cases[:nref], shard_size=20)
    for i, (it, c, r) in enumerate(zip(items, cases, impl)):
        chk.count()
        rep = {"synthetic": True, "gcno": c["gcno"], "gcdas": c["gcdas"], "arcs": [[s_, [list(x) for x in ds]] for s_, ds in it["f"]["arcs"]], "expected": it["exp"]}
        if "ok" not in r:
            chk.violation(dict(rep, kind="oracle", impl=r, clause="Gcno::compute must accept a well-formed gcno/gcda pair"), tag="synth")
            continue
        got = G.canon_impl(r)
        gl = {l: x for _n, c_ in got for l, x in c_["lines"]}
        gb = {l: v for _n, c_ in got for l, v in c_["branches"]}
        ge = all(f_[2] for _n, c_ in got for f_ in c_["funcs"])
        exp = it["exp"]
        if gl != exp["lines"] or ge != exp["executed"] or gb != exp["branches"]:
            chk.violation(dict(rep, kind="oracle", engine="gcno", impl={"lines": gl, "branches": gb, "executed": ge},
                               clause="per-line counts, branch outcomes and the executed flag equal the flow semantics of the recorded profile (counters belong to the arcs in notes-file order)"), tag="synth")
        dist["synthetic_flow"] = dist.get("synthetic_flow", 0) + 1
        if i < nref:
            try:
                ref = cgen.gcov_reference_bytes(os.path.join(sc, "s%d" % i), {"s.c": "".join("/* %d */\n" % k for k in range(1, 40))}, it["gcno"], it["gcda"])
                diffs = compare(ref, of_impl(got))
                if diffs:
                    chk.violation(dict(rep, kind="oracle", engine="gcno", differences=diffs[:20], reference=ref,
                                       clause="per-line counts and executed flags equal those of llvm-cov gcov (synthetic pair)"), tag="synth-gcov")
                dist["synthetic_gcov"] = dist.get("synthetic_gcov", 0) + 1
            except Exception as ex:
                chk.extra.setdefault("skipped_programs", []).append("synthetic gcov: " + str(ex)[:200])
            rm = model[i]
            if isinstance(rm, tuple) and rm and rm[0] == "@@ERROR":
                chk.violation(dict(rep, kind="correspondence", model=rm), has_input=False, tag="corr")
            else:
                k, cm = G.canon_model(rm)
                if k != "ok" or vlib.canon(cm) != vlib.canon(got):
                    chk.violation(dict(rep, kind="correspondence", engine="gcno", impl=got, model=[k, cm],
                                       theorems_at_stake="C08_* (the model no longer describes Gcno::compute)"), has_input=False, tag="corr")
        if any(exp["lines"].values()):
            chk.nontrivial(["synth", c["gcno"][:200]])


_dump_cache = {}


def line_arcs(chk, case, fname, line):
    """arcs (src, dst, count) among the blocks that carry `line`, from the model's decoded graph after counting"""
    key = case["gcno"][:64] + str(len(case["gcno"])) + "".join(g[:32] for g in case["gcdas"])
    if key not in _dump_cache:
        ex = [vlib.app("run_dump", list(bytes.fromhex(case["gcno"])), [list(bytes.fromhex(x)) for x in case["gcdas"]])]
        _dump_cache[key] = vlib.run_model(chk.pid, "Run.ShowGcno", ex)[0]
    out, nblocks = [], 0
    for name, edges, blocks in _dump_cache[key]:
        on = {i for i, (lines, _c) in enumerate(blocks) if line in lines}
        if not on:
            continue
        nblocks = max(nblocks, len(on))
        out += [(s_, d_, c_) for (s_, d_, _fl, c_) in edges if s_ in on and d_ in on]
    return out, nblocks


def split_known(chk, p, case, diffs):
    """differences inside the known class C08/single-line-goto-cycles: a count difference on a line carried by >= 4
    blocks whose internal circulation has more than one cycle decomposition (decided on the model's structure)"""
    rest, known = [], []
    for d in diffs:
        if d[0] == "count":
            arcs, nb = line_arcs(chk, case, d[1], d[2])
            if nb >= 4 and cgen.ambiguous_cycle_count(arcs):
                known.append(d)
                continue
        rest.append(d)
    return rest, known


def run(chk):
    chk.proofs()
    quick = chk.tier == "quick"
    n = 12 if quick else 300
    sc = vlib.scratch("c08_clang")
    progs = []
    ngoto = 4 if quick else 80
    todo = [(cgen.GOTO_WITNESS[0], cgen.GOTO_WITNESS[1])] + [(f, a) for f, a in cgen.SHAPES] + \
           [(cgen.goto_program(chk.rng), [[str(chk.rng.randrange(0, 6))]]) for _ in range(ngoto)] + \
           [(cgen.program(chk.rng), None) for _ in range(n)]
    be_every = 3 if quick else 2
    for i, (files, fixed_args) in enumerate(todo):
        d = os.path.join(sc, "p%d" % i)
        version = cgen.VERSIONS[(i + i // len(cgen.VERSIONS)) % len(cgen.VERSIONS)]          # rotate the gcov format versions grcov reads as LLVM output
        try:
            gcno = cgen.build(d, files, version=version)
            args = fixed_args if fixed_args is not None else cgen.arg_sets(chk.rng, chk.rng.randrange(0, 4))
            singles, merged = cgen.profiles(d, args)
            ref = cgen.gcov_reference(d, merged is not None)
        except Exception as ex:
            chk.extra.setdefault("skipped_programs", []).append(str(ex)[:200])
            continue
        progs.append({"files": files, "args": args, "gcno": gcno, "singles": singles, "merged": merged, "ref": ref, "version": version, "endian": "little"})
        if i % be_every == 1 and merged is not None:
            # big-endian twin: the same files with every 32-bit word byte-swapped; llvm-cov gcov on the twin is the reference
            try:
                bg = cgen.to_big_endian_gcno(gcno)
                bs = [cgen.to_big_endian_gcda(x) for x in singles]
                bm = cgen.to_big_endian_gcda(merged)
                bref = cgen.gcov_reference_bytes(d + "_be", files, bg, bm)
            except Exception as ex:
                chk.extra.setdefault("skipped_programs", []).append("big-endian twin: " + str(ex)[:200])
                continue
            if {norm_name(k): v for k, v in bref.items()} != {norm_name(k): v for k, v in ref.items()}:
                chk.extra.setdefault("reference_be_differs", []).append(i)    # the reference tool itself reads the twin differently: recorded
            progs.append({"files": files, "args": args, "gcno": bg, "singles": bs, "merged": bm, "ref": bref, "version": version, "endian": "big"})
    cases = []
    for p in progs:
        cases.append(G.case(p["gcno"], [p["merged"]] if p["merged"] is not None else [], True))
        cases.append(G.case(p["gcno"], p["singles"], True))
    impl = G.run_guarded(cases, chk.pid)
    msel = [i for i, c in enumerate(cases) if len(c["gcno"]) <= 16000 * 2 and (not quick or i % 2 == 0 or i < 8)]
    model = dict(zip(msel, G.run_model(chk.pid, [cases[i] for i in msel], shard_size=8)))
    # flow conservation and forest witness on the model state after stop (hypotheses of C08_flow_unique), per function
    fsel = [i for i in msel if i % 2 == 0]
    flow = dict(zip(fsel, vlib.run_model(chk.pid, "Run.ShowGcno",
                                         [vlib.app("run_flow2", list(bytes.fromhex(cases[i]["gcno"])), [list(bytes.fromhex(x)) for x in cases[i]["gcdas"]]) for i in fsel],
                                         shard_size=8)))
    dist = {"programs": len(progs), "flow_functions": 0, "flow_conserving_and_forest": 0, "runs": {}, "lines_compared": 0, "executed_lines": 0, "functions": 0, "functions_executed": 0,
            "multi_file": 0, "model_cases": 0, "gcno_bytes": []}
    dist["versions"], dist["big_endian_twins"], dist["executed_by_version"] = {}, 0, {}
    for pi, p in enumerate(progs):
        dist["versions"][p["version"]] = dist["versions"].get(p["version"], 0) + 1
        dist["big_endian_twins"] += p["endian"] == "big"
        key_ = p["version"] + ("/BE" if p["endian"] == "big" else "")
        dist["executed_by_version"][key_] = dist["executed_by_version"].get(key_, 0) + sum(1 for v in p["ref"].values() for c in v["lines"].values() if c > 0)
        dist["runs"][str(len(p["args"]))] = dist["runs"].get(str(len(p["args"])), 0) + 1
        dist["gcno_bytes"].append(len(p["gcno"]))
        dist["multi_file"] += len(p["ref"]) > 1
        for which, ci in (("merged", 2 * pi), ("per-run list", 2 * pi + 1)):
            chk.count()
            r = impl[ci]
            rep = {"source": p["files"], "args": p["args"], "gcno": p["gcno"].hex(), "gcdas": cases[ci]["gcdas"], "which": which,
                   "coverage_version": p["version"], "endian": p["endian"]}
            if "ok" not in r:
                chk.violation(dict(rep, kind="oracle", impl=r, clause="Gcno::compute must accept the files the toolchain wrote"), tag="accept")
                continue
            got = of_impl(G.canon_impl(r))
            diffs = compare(p["ref"], got)
            if diffs:
                diffs, known = split_known(chk, p, cases[ci], diffs)
                dist["known_class_diffs"] = dist.get("known_class_diffs", 0) + len(known)
                if known and p["files"] is cgen.GOTO_WITNESS[0]:
                    for e in vlib.known_findings("C08"):
                        if e.get("key") == "single-line-goto-cycles":
                            chk.known(e)
            if diffs:
                chk.violation(dict(rep, kind="oracle", engine="gcno", differences=diffs[:20], reference=p["ref"], impl=got,
                                   clause="per-line counts, instrumented lines and executed flags equal those of llvm-cov gcov"), tag="gcov")
            if ci in flow:
                fr = flow[ci]
                if isinstance(fr, tuple) and fr and fr[0] == "@@ERROR":
                    chk.violation(dict(rep, kind="correspondence", model=fr), has_input=False, tag="flow")
                else:
                    tag_, funs = fr
                    dist["flow_functions"] += len(funs)
                    good = sum(1 for (_nb, _ne, cons, forest, cons_adj, rooted) in funs if cons and forest and cons_adj and rooted)
                    dist["flow_conserving_and_forest"] += good
                    if tag_ != 0 or good != len(funs):
                        chk.violation(dict(rep, kind="oracle", engine="gcno", flow=[tag_, funs],
                                           clause="after counting, the arc counts of a toolchain-written profile satisfy flow conservation (by arc ends and by adjacency lists, sums < 2^64), the ON_TREE arcs form a forest (peel order) with a rooted witness, and block counters were the measured out-sums (hypotheses of C08_flow_unique / C08_flow_recovery)"), tag="flow")
            if ci in model:
                rm = model[ci]
                dist["model_cases"] += 1
                if isinstance(rm, tuple) and rm and rm[0] == "@@ERROR":
                    chk.violation(dict(rep, kind="correspondence", model=rm), has_input=False, tag="corr")
                else:
                    k, cm = G.canon_model(rm)
                    if k != "ok" or vlib.canon(cm) != vlib.canon(G.canon_impl(r)):
                        chk.violation(dict(rep, kind="correspondence", engine="gcno", impl=G.canon_impl(r), model=[k, cm],
                                           theorems_at_stake="C08_* (the model no longer describes Gcno::compute)"), has_input=False, tag="corr")
        for f, v in p["ref"].items():
            dist["lines_compared"] += len(v["lines"])
            dist["executed_lines"] += sum(1 for c in v["lines"].values() if c > 0)
            dist["functions"] += len(v["funcs"])
            dist["functions_executed"] += sum(1 for c in v["funcs"].values() if c > 0)
        if any(c > 0 for v in p["ref"].values() for c in v["lines"].values()):
            chk.nontrivial(["prog", pi, p["files"]["t.c"][:400]])
    dist["gcno_bytes"] = {"min": min(dist["gcno_bytes"] or [0]), "max": max(dist["gcno_bytes"] or [0])}
    synth_flow_section(chk, dist, 40 if quick else 600)
    chk.extra["distribution"] = dist
    if progs:
        chk.sample({"source": progs[0]["files"]["t.c"][:600], "args": progs[0]["args"]}, limit=1)
    chk.cov["rule"] = ("programs from a seeded C grammar (straight-line code, nested if/else, for/while/do loops, switch with fall-through, && / ||, ?:, early return, "
                       "break/continue, several statements per line, 1-4 functions + main, optionally static inline functions in an included header, functions never called), "
                       "compiled with clang-14 --coverage -O0 with the gcov format version rotating over -Xclang -coverage-version= 408* (default), 407*, 402*, 409*, 406*, 404* "
                       "(the exit block is the last block below 4.8 and block 1 from 4.8 on; cfg checksums from 4.7 on), run 0-3 times with different arguments; every third program (every second in thorough) "
                       "also as a big-endian twin (own converter: every 32-bit word byte-swapped, string payload bytes kept, counters low word first) with llvm-cov gcov on the twin as reference; compared: llvm-cov-14 gcov -b -c on the runtime-merged gcda "
                       "(per-line counts, '-' vs instrumented, function 'called' counts) vs Gcno::compute on [merged gcda] and on the list of per-run gcda vs the Gallina model on the same bytes; "
                       "plus gcno/gcda pairs synthesised from random CFGs with a random-walk profile whose blocks list their arcs in shuffled / descending destination order (clang <= 10 layout; formats 4.2 and 4.7, "
                       "with and without a spanning tree), judged against the flow semantics (one block per line), llvm-cov gcov on the synthetic pair and the model; "
                       "non-trivial = program with at least one executed line; distinct by source text")
    chk.cov["trusted_base"] = ["llvm-cov-14 gcov is the reference (not modelled)", "clang-14 and its profile runtime as producers", "parser of the .gcov text in py/cgen.py",
                               "Coq kernel, vm_compute, impl_run harness"]
    chk.assumptions = ["agreement with the reference tool's line attribution is validated differentially, not proved; the theorems are about the counting algorithm of reader.rs",
                       "GCC-format gcno (version >= 80 paths) is compared with the checked-in fixtures only (C15 correspondence), not with gcov",
                       "clang-14 also writes -coverage-version 800*/801* and 900*/B0x*; llvm-cov-14 gcov reads them, but clang emits them in the GCC 8/9 record layout, which grcov decodes with its GCC rules "
                       "(lines outside [start_line, end_line] dropped: most lines missing at 800*; an empty string written as one zero word is 'Invalid string (only zeros)' at 900* and later): "
                       "these versions are not LLVM output as far as grcov is concerned and are left out; A0x* is rejected by llvm-cov-14 itself"]


def replay(chk, path):
    r = json.load(open(path))
    if "gcno" in r:
        c = G.case(bytes.fromhex(r["gcno"]), [bytes.fromhex(x) for x in r.get("gcdas", [])], True)
        print(json.dumps(G.run_guarded([c], chk.pid)[0])[:3000])
    else:
        chk.proofs()
