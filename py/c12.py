"""C12 - one record per source file.  Proofs + engine `rewrite` (the report pipeline of main.rs:
merge_same_paths(rewrite_paths(.., None, ..), filter) against the model `report_list` and against the driver's own
per-path aggregate) + the CLI (`grcov x.info [-s ..] [-p ..] -t lcov|files|covdir`, which includes the keying of add_results)."""
import collections, json, os, shutil
import vlib, gen, pathgen

R = pathgen.R


def key_ids(cov_lines):
    return sorted(l - 1000 for l, _ in cov_lines if 1000 <= l < 2000)


def crel(rb):
    """the component sequence of a reported path (PathBuf equality), as bytes"""
    parts = rb.split(b"/")
    keep = [p for n, p in enumerate(parts) if p != b"" and not (p == b"." and (n > 0 or rb.startswith(b"/")))]
    return (b"/" if rb.startswith(b"/") else b"") + b"/".join(keep)


def covered(agg):
    return any(n != 0 for _, n in agg["lines"]) and \
        (len(agg["funcs"]) <= 1 or any(e and bytes.fromhex(n) != b"top-level" for n, (_, e) in agg["funcs"].items()))


def obs_equal(a, b):
    """two records up to the start line of functions (the first record merged lends it; order is hash order)"""
    fa = sorted((n, e) for n, _, e in a["funcs"])
    fb = sorted((n, e) for n, _, e in b["funcs"])
    return sorted(map(list, a["lines"])) == sorted(map(list, b["lines"])) and \
        sorted([l, list(v)] for l, v in a["branches"]) == sorted([l, list(v)] for l, v in b["branches"]) and fa == fb


# ---------------------------------------------------------------------------------------------
# engine stream: merge_same_paths(rewrite_paths(.., None, ..), filter)
# ---------------------------------------------------------------------------------------------
def engine_stream(chk, cases):
    impl = vlib.run_impl("rewrite", cases, chk.pid, parallel=4)
    exprs, idx = [], []
    for ci, (c, ri) in enumerate(zip(cases, impl)):
        if "merged" in ri:
            exprs.append(pathgen.model_case_expr(c, bytes.fromhex(ri["root"]), ri["globs"], fn=1))
            idx.append(ci)
    model = dict(zip(idx, vlib.run_model(chk.pid, "Run.ShowRewrite", exprs, shard_size=40)))
    dist = collections.Counter()
    dis = []
    for ci, (c, ri) in enumerate(zip(cases, impl)):
        if "merged" not in ri:
            chk.count()
            chk.violation({"kind": "oracle", "engine": "rewrite", "case": c, "impl": ri, "clause": "the harness must be able to run the case"}, tag="eng")
            continue
        root = bytes.fromhex(ri["root"])
        rm = model.get(ci)
        model_err = isinstance(rm, tuple) and rm and rm[0] == "@@ERROR"
        if model_err:
            dis.append({"case": c, "model": rm})
        for vi, v in enumerate(c["variants"]):
            chk.count()
            mg = ri["merged"][vi]
            dist["runs"] += 1
            if isinstance(mg, dict):
                dist["panic"] += 1
                if not model_err and rm[vi][0] != 2:
                    dis.append({"case": c, "variant": vi, "impl": mg, "model_tag": rm[vi][0]})
                continue
            alone = ri["runs"][vi]
            if not isinstance(alone, dict):
                rels_alone = [r for _, r, _ in alone]
                dist["runs_where_rewrite_paths_alone_duplicates"] += len(rels_alone) != len(set(rels_alone))
            # ---- one record per source file
            rels = [bytes.fromhex(r) for _, r, _ in mg]
            crels = [crel(r) for r in rels]
            if len(set(rels)) != len(rels) or len(set(crels)) != len(crels):
                chk.violation({"kind": "oracle", "engine": "rewrite", "case": c, "variant": v, "impl": pathgen.canon_run(mg),
                               "clause": "each distinct source file appears at most once in a report"}, tag="eng")
                continue
            # ---- the record of a path is the C01 aggregate of the retained records with that path, --filter on the aggregate
            base = ri["runs"][0]
            verd = {r: (i, k) for r, i, k in ri["globs"][vi]}
            exists = dict(ri["exists"])
            groups = collections.defaultdict(list)
            for a, r, cv in base:
                gi, gk = verd[r]
                if (not gi) and (not v["keep"] or gk) and (not v["ine"] or exists[a]):
                    groups[crel(bytes.fromhex(r))].append((a, r, cv))
            want = {}
            for k, g in groups.items():
                agg = gen.ref_agg([cv for _, _, cv in g])
                if v["filter"] is None or covered(agg) == v["filter"]:
                    want[k] = (agg, g)
            got = {crel(bytes.fromhex(r)): (a, r, cv) for a, r, cv in mg}
            ok = set(got) == set(want)
            if ok:
                for k, (a, r, cv) in got.items():
                    agg, g = want[k]
                    if gen.obs_matches(cv, agg) or (a, r) not in {(ga, gr) for ga, gr, _ in g}:
                        ok = False
            if not ok:
                chk.violation({"kind": "oracle", "engine": "rewrite", "case": c, "variant": v, "impl": pathgen.canon_run(mg),
                               "expected_paths": sorted(k.decode(errors="replace") for k in want),
                               "clause": "inputs that denote the same file are aggregated into a single record according to C01 (and --filter is decided on it)"}, tag="eng")
                continue
            merged_groups = sum(1 for k in got if len(want[k][1]) > 1)
            dist["records_merged_from_several_keys"] += merged_groups
            dist["runs_with_merging"] += merged_groups > 0
            dist["records_with_a_line_less_key_merged_in"] += sum(1 for k in got if len(want[k][1]) > 1 and any(not cv["lines"] for _, _, cv in want[k][1]))
            if merged_groups:
                chk.nontrivial(("eng", vi, [k for k, _ in c["keys"]], c["source_dir"], c["prefix_dir"], c["mapping"], c["files"], c["symlinks"]))
            # ---- correspondence with report_paths (Model/Rewrite.v)
            if not model_err:
                tag, mrs, _ = pathgen.model_run(rm[vi], root)
                mgot = {crel(bytes.fromhex(r)): (a, r, cv) for a, r, cv in mrs}
                same = tag == 0 and len(mrs) == len(mgot) and set(mgot) == set(got)
                if same:
                    for k in got:
                        g = {(ga, gr) for ga, gr, _ in want[k][1]}
                        if not obs_equal(mgot[k][2], got[k][2]) or (mgot[k][0], mgot[k][1]) not in g:
                            same = False
                if not same and not pathgen_backslash(c):
                    dis.append({"case": c, "variant": vi, "root": root.decode(), "impl": pathgen.canon_run(mg), "model": mrs, "model_tag": tag})
    for d in dis[:3]:
        d.update({"kind": "correspondence", "engine": "rewrite", "theorems_at_stake": "C12_* (report_list no longer describes merge_same_paths after rewrite_paths)"})
        chk.violation(d, has_input=False, tag="eng-corr")
    return dict(dist)


def pathgen_backslash(c):
    return c["mapping"] is not None and any(b"\\" in bytes.fromhex(v) for _, v in c["mapping"])


# ---------------------------------------------------------------------------------------------
# CLI stream
# ---------------------------------------------------------------------------------------------
UNDER = ["foo/bar.c", "main.c", "foo/sub/deep.c", "lib/util.h", "gone/missing.c", "foo/é ü.c"]
ONDISK = ["foo/bar.c", "main.c", "foo/sub/deep.c", "lib/util.h", "foo/é ü.c"]
PREFIX = "/builds/worker"


def inside_prefix(rng, prefix):
    """the prefix itself re-spelt with '//' or '/./' between two of its components (same components, other text)"""
    cut = [n for n, ch in enumerate(prefix) if ch == "/" and n > 0]
    if not cut:
        return prefix + "/."
    n = rng.choice(cut)
    return prefix[:n] + rng.choice(["//", "/./", "/.//"]) + prefix[n + 1:]


def flip_first(k):
    return (k[0].lower() if k[0].isupper() else k[0].upper()) + k[1:]


def cli_spellings(rng, u, root, sd, pd, safe=False, mapping=None, marks=None):
    """(key, by_construction_path) pairs; path None when the property does not fix it.
    safe: only spellings that fs::canonicalize resolves (the file exists): add_results merges them.
    mapping: a dict that receives --path-mapping entries for mapped spellings of u: the record spells the key exactly, or with
    the other case of its first letter (both directions); the VALUE is u, or the build-machine path <prefix>/u (mapped first, then
    the prefix is removed).  marks: a dict key -> kind of spelling, for the measured distribution"""
    marks = {} if marks is None else marks
    out = [("./" + u, u), (u.replace("/", "//", 1) if "/" in u else "./" + u, u), (u.replace("/", "/./", 1) if "/" in u else u, u)]
    must = [(u, u)]
    if not safe:
        out.append((u.replace("/", "\\") if "/" in u else u, u))
    if sd:
        out.append((root + "/src/" + u, u))
        out.append((root + "/src/./" + u, u))
        if os.path.exists(root + "/src/" + u):
            # (for a missing file this spelling is C11's known finding unresolved-dotdot-abs)
            out.append((root + "/run/../src/" + u, u))
    if pd and not safe:
        for k in (pd + "/" + u, pd + "//" + u):
            marks[k] = "prefix"
        out.append((pd + "/" + u, u))
        out.append((pd + "//" + u, u))
        # '//' and '/./' INSIDE the prefix part: the prefix is removed component-wise, not as text
        k = inside_prefix(rng, pd) + "/" + u
        marks[k] = "inside-prefix"
        must.append((k, u))
        if rng.random() < 0.5:
            k = inside_prefix(rng, pd) + rng.choice(["/", "//", "/./"]) + u
            marks[k] = "inside-prefix"
            out.append((k, u))
        if rng.random() < 0.5:
            must.append((pd + "/" + u, u))
    if mapping is not None and not safe:
        flat = u.replace("/", "_")
        for key in rng.sample(["C:/obj/dist/include/" + flat, "gen/obj/" + flat, "Build/" + flat, "z:/w/" + flat], rng.randrange(1, 3)):
            mapping[key] = (pd + "/" + u) if (pd and rng.random() < 0.6) else u
            if "/" in u and rng.random() < 0.3:
                # a mapping written on Windows (no '.' / '..' in it): reported as the same file, with '/'
                mapping[key] = u.replace("/", "\\")
            rec = rng.choice([flip_first(key), flip_first(key), key])
            if rng.random() < 0.25:
                rec = rec.replace("/", "\\")                      # the record's backslashes become '/' before the lookup
            marks[rec] = "mapped"
            must.append((rec, u))
    rng.shuffle(out)
    seen, res = set(), []
    for k, p in must + out[:rng.randrange(0, len(out) + 1)]:
        if k not in seen:
            seen.add(k)
            res.append((k, p))
    rng.shuffle(res)
    return res


def render_lcov(recs):
    """tracefile text of [(SF name, cov)..]; FN before FNDA, BRDA with block 0 and consecutive branch numbers"""
    out = []
    for k, cov in recs:
        out.append("SF:" + k)
        for n, start, _ in cov["funcs"]:
            out.append("FN:%d,%s" % (start, bytes.fromhex(n).decode()))
        for n, _, ex in cov["funcs"]:
            out.append("FNDA:%d,%s" % (3 if ex else 0, bytes.fromhex(n).decode()))
        for l, v in cov["branches"]:
            for bi, t in enumerate(v):
                out.append("BRDA:%d,0,%d,%s" % (l, bi, "2" if t else "-"))
        for l, n in cov["lines"]:
            out.append("DA:%d,%d" % (l, n))
        out.append("end_of_record")
    return "\n".join(out) + "\n"


def parse_lcov(txt):
    """[[path, [[line, count]..]]..] (lines only; used by C11's CLI stream too)"""
    return [[path, cov["lines"]] for path, cov in parse_lcov_full(txt)]


def parse_lcov_full(txt):
    """[[path, cov]..] with cov in the JSON form of the harness (names as hex)"""
    recs, cur = [], None
    for line in txt.split("\n"):
        if line.startswith("SF:"):
            cur = [line[3:], {"lines": [], "branches": {}, "funcs": {}}]
        elif cur is None:
            continue
        elif line.startswith("DA:"):
            l, n = line[3:].split(",")[:2]
            cur[1]["lines"].append([int(l), int(n)])
        elif line.startswith("FN:"):
            st, name = line[3:].split(",", 1)
            cur[1]["funcs"].setdefault(name, [int(st), False])[0] = int(st)
        elif line.startswith("FNDA:"):
            c, name = line[5:].split(",", 1)
            cur[1]["funcs"].setdefault(name, [0, False])[1] = int(c) > 0
        elif line.startswith("BRDA:"):
            l, _, bi, t = line[5:].split(",")
            v = cur[1]["branches"].setdefault(int(l), {})
            v[int(bi)] = t not in ("-", "0")
        elif line == "end_of_record":
            c = cur[1]
            recs.append([cur[0], {"lines": c["lines"],
                                  "branches": [[l, [v[k] for k in sorted(v)]] for l, v in sorted(c["branches"].items())],
                                  "funcs": [[n.encode().hex(), st, ex] for n, (st, ex) in sorted(c["funcs"].items())]}])
            cur = None
    return recs


def input_ids(cov):
    """which inputs a record carries: by key line 1000+i, by function id<i>, by branch line 2000+i"""
    ids = {l - 1000 for l, _ in cov["lines"] if 1000 <= l < 2000}
    ids |= {l - 2000 for l, _ in cov["branches"] if 2000 <= l < 3000}
    for n, _, _ in cov["funcs"]:
        name = bytes.fromhex(n).decode(errors="replace")
        if name.startswith("id") and name[2:].isdigit():
            ids.add(int(name[2:]))
    return ids


def gen_record(rng, i, branch):
    """coverage of input i: ~25% without any DA line (function-only, or branch-only under --branch)"""
    fn = lambda name, ex: [name.encode().hex(), {"f": 3, "g": 7, "top-level": 1}.get(name, 20 + i), ex]
    r = rng.random()
    shared = [fn(n, rng.random() < 0.4) for n in ("f", "g", "top-level") if rng.random() < 0.3]
    if r < 0.13 and branch:
        kind = "branch-only"
        cov = {"lines": [], "funcs": [], "branches": [[2000 + i, [rng.random() < 0.5 for _ in range(rng.randrange(1, 4))]]]}
    elif r < 0.27:
        kind = "function-only"
        cov = {"lines": [], "funcs": sorted([fn("id%d" % i, rng.random() < 0.5)] + shared), "branches": []}
    else:
        kind = "lines"
        lines = sorted(set(rng.sample([1, 2, 3, 4, 5, 6], rng.randrange(0, 4))))
        cov = {"lines": [[l, rng.choice([0, 0, 1, 3])] for l in lines] + [[1000 + i, rng.choice([0, 0, 1])]],
               "funcs": sorted(([fn("id%d" % i, rng.random() < 0.5)] if rng.random() < 0.7 else []) + shared), "branches": []}
    if branch and kind != "function-only" and rng.random() < 0.5:
        cov["branches"] = sorted(cov["branches"] + [[l, [rng.random() < 0.5 for _ in range(rng.randrange(1, 5))]] for l in (10, 11) if rng.random() < 0.6])
    return kind, cov


def covdir_walk(node, path, out):
    """collect (path, is_file, linesTotal, linesCovered, [children totals])"""
    ch = node.get("children")
    if ch is None:
        out.append((path, True, node["linesTotal"], node["linesCovered"], None))
        return
    out.append((path, False, node["linesTotal"], node["linesCovered"],
                (sum(c["linesTotal"] for c in ch.values()), sum(c["linesCovered"] for c in ch.values()))))
    for name, c in ch.items():
        covdir_walk(c, path + [name], out)


def check_report(chk, replay, rep, recs, intent, flt, dist, akeys):
    """one lcov report against the property: every path once, its record = the C01 aggregate (lines, branches, functions)
    of all inputs whose spelling denotes it, present iff the AGGREGATE has the status asked by --filter.  Returns
    (ok, {path: cov})."""
    by_path = collections.defaultdict(list)
    for path, cov in rep:
        by_path[path].append(cov)
    ok = True
    want = {}
    for path in sorted(set(intent)):
        ids = [i for i, p in enumerate(intent) if p == path]
        agg = gen.ref_agg([recs[i][1] for i in ids])
        if flt is None or covered(agg) == flt:
            want[path] = (ids, agg)
    for path, rs in by_path.items():
        if len(rs) > 1:
            chk.violation(dict(replay, path=path, clause="each distinct source file appears at most once in a report"), tag="cli")
            ok = False
    if not ok:
        return False, {}
    if set(by_path) != set(want):
        chk.violation(dict(replay, reported=sorted(by_path), expected=sorted(want),
                           clause="every source file is reported once under the path its spellings denote" if flt is None else
                                  "--filter reports exactly the files whose aggregated record has the requested status (decided after merging the spellings)"), tag="cli")
        return False, {}
    for path, (ids, agg) in want.items():
        cov = by_path[path][0]
        got_ids = input_ids(cov)
        exp_ids = set().union(*[input_ids(recs[i][1]) for i in ids])      # (identical records share one id)
        if got_ids != exp_ids:
            chk.violation(dict(replay, path=path, merged_inputs=sorted(got_ids), expected_inputs=sorted(exp_ids),
                               clause="inputs that refer to the same file through different spellings are aggregated into a single record (none dropped: "
                                      "line-less, function-only and branch-only inputs included)"), tag="cli")
            ok = False
            continue
        why = gen.obs_matches(cov, agg)
        if why:
            chk.violation(dict(replay, path=path, got=cov, why=why, clause="the single record of a file is the C01 aggregate of its inputs (lines, branches, functions)"), tag="cli")
            ok = False
            continue
        if flt is None:
            dist["records_merged_from_several_spellings"] += len(ids) > 1
            dist["records_merged_across_add_results_keys"] += len({akeys[i] for i in ids}) > 1
            dist["records_with_a_line_less_input_merged_in"] += len(ids) > 1 and any(not recs[i][1]["lines"] for i in ids)
    return ok, {p: v[0] for p, v in by_path.items()}


def cli_stream(chk, n):
    exe = vlib.build_cli()
    sc = os.path.realpath(vlib.scratch("cli_" + chk.pid))
    rng = chk.rng
    dist = collections.Counter()
    for ci in range(n):
        root = os.path.join(sc, "c%d" % ci)
        for u in ONDISK:
            if ci == 0 or rng.random() < 0.75:
                p = os.path.join(root, "src", u)
                os.makedirs(os.path.dirname(p), exist_ok=True)
                with open(p, "w") as f:
                    f.write("x\n")
        os.makedirs(os.path.join(root, "src"), exist_ok=True)
        os.makedirs(os.path.join(root, "run"), exist_ok=True)
        sd = None if (ci == 0 or rng.random() < 0.4) else os.path.join(root, "src")
        # -p: a build-machine prefix that does not exist here, or one that exists locally (through a symlink, relative to the
        # working directory, with ./ or ..): it is removed as the literal leading components of the recorded paths either way
        for dname in ("build/obj", "run/build/obj", "other"):
            os.makedirs(os.path.join(root, dname), exist_ok=True)
        os.symlink(os.path.join(root, "build"), os.path.join(root, "lnk"))
        pd_kind = rng.choice(["absent", "absent", "symlink", "symlink-sub", "relative", "relative-dot", "dotdot"]) if (ci != 0 and rng.random() < 0.55) else None
        pd = {None: None, "absent": PREFIX, "symlink": root + "/lnk", "symlink-sub": root + "/lnk/obj", "relative": "build/obj",
              "relative-dot": "./build/obj", "dotdot": root + "/other/../build/obj"}[pd_kind]
        branch = ci != 0 and rng.random() < 0.5
        with_filter = ci != 0 and rng.random() < 0.55
        recs, intent = [], []
        markd = {}
        mapping = {} if (ci != 0 and rng.random() < 0.45) else None
        if ci == 0:
            fam = [("foo/./bar.c", "foo/bar.c"), ("foo/bar.c", "foo/bar.c"), ("foo//bar.c", "foo/bar.c")]     # the witness of the former finding
        else:
            fam = []
            safe = bool(sd) and rng.random() < 0.45
            present = [u for u in ONDISK if os.path.exists(os.path.join(root, "src", u))]
            pool = present if (safe and present) else UNDER
            for u in rng.sample(pool, min(len(pool), rng.randrange(1, 4))):
                fam += cli_spellings(rng, u, root, sd, pd, safe and bool(present), mapping, markd)
            dist["safe_cases"] += safe and bool(present)
        kinds = []
        for i, (k, p) in enumerate(fam):
            kind, cov = gen_record(rng, i, branch) if ci else ("lines", {"lines": [[1, i], [1000 + i, 1]], "funcs": [], "branches": []})
            kinds.append(kind)
            recs.append((k, cov))
            intent.append(p)
        # the key under which add_results stores each record ("the same file on disk")
        def addkey(k):
            if sd:
                p = os.path.join(sd, k)
                if os.path.exists(p):
                    return os.path.realpath(p)
            return k
        akeys = [addkey(k) for k, _ in recs]
        forced = []
        if with_filter:
            # make sure the status of a file differs from the status of some of its spellings: two inputs that stay distinct map
            # keys until merge_same_paths, one without any executed line, one executed
            pairs = [(a, b) for a in range(len(recs)) for b in range(len(recs)) if a != b and intent[a] == intent[b] and akeys[a] != akeys[b]]
            if pairs:
                a, b = rng.choice(pairs)
                fnid = lambda i, ex: [("id%d" % i).encode().hex(), 20 + i, ex]
                recs[a] = (recs[a][0], {"lines": [[2, 0], [1000 + a, 0]], "funcs": [fnid(a, False)], "branches": []})
                recs[b] = (recs[b][0], {"lines": [[2, 4], [1000 + b, 1]], "funcs": [fnid(b, True)], "branches": []})
                kinds[a] = kinds[b] = "lines"
                forced = [a, b]
                dist["filter_cases_with_mixed_status_spellings"] += 1
        marks = [markd.get(k) for k, _ in recs]
        if ci != 0 and rng.random() < 0.8:
            # the very same record under 2-3 spellings of one file that stay distinct map keys until merge_same_paths: the aggregate
            # of k equal records has k times the counts (inputs are then identified by their multiplicity, not by an id of their own)
            used = set(forced)
            by = collections.defaultdict(list)
            for i in range(len(recs)):
                if i not in used and (intent[i], akeys[i]) not in {(intent[j], akeys[j]) for j in by[intent[i]]}:
                    by[intent[i]].append(i)
            cands = [g for g in by.values() if len(g) >= 2]
            if cands:
                g = rng.choice(cands)
                g = g[:rng.choice([2, 3, 4, 4])]
                a = g[0]
                twin = {"lines": [[1, rng.choice([1, 2])], [4, 0], [1000 + a, 1]], "funcs": [[("id%d" % a).encode().hex(), 20 + a, True]],
                        "branches": [[10, [True, False]]] if branch else []}
                for i in g:
                    recs[i] = (recs[i][0], json.loads(json.dumps(twin)))
                    kinds[i] = "twin"
                dist["cases_with_identical_records"] += 1
                dist["identical_records_are_the_whole_file"] += all(intent[i] != intent[a] or i in g for i in range(len(recs)))
        info = os.path.join(root, "run", "in.info")
        with open(info, "w") as f:
            f.write(render_lcov(recs))
        args = [exe, info] + (["-s", sd] if sd else []) + (["-p", pd] if pd else []) + (["--branch"] if branch else [])
        if mapping:
            mfile = os.path.join(root, "run", "map.json")
            with open(mfile, "w") as f:
                json.dump(mapping, f)
            args += ["--path-mapping", mfile]
            dist["with_path_mapping"] += 1
            dist["mapped_records_key_upper_record_lower"] += sum(1 for k, _ in recs if flip_first(k.replace("\\", "/")) in mapping and k[0].islower())
            dist["mapped_records_key_lower_record_upper"] += sum(1 for k, _ in recs if flip_first(k.replace("\\", "/")) in mapping and k[0].isupper())
        dist["records_with_respelt_prefix"] += sum(1 for (k, _), m in zip(recs, marks) if m == "inside-prefix")
        dist["records_under_a_locally_existing_prefix"] += sum(1 for (k, _), m in zip(recs, marks) if m in ("prefix", "inside-prefix") and pd_kind not in (None, "absent"))
        dist["mapped_values_starting_with_prefix"] += sum(1 for v in (mapping or {}).values() if pd and v.startswith(pd + "/"))
        dist["mapped_values_with_backslashes"] += sum(1 for v in (mapping or {}).values() if "\\" in v)
        if pd_kind:
            dist["prefix_" + pd_kind] += 1
        outs = {}
        todo = [("lcov", None), ("files", None), ("covdir", None)] + ([("lcov", True), ("lcov", False)] if with_filter else [])
        for t, flt in todo:
            extra = [] if flt is None else ["--filter", "covered" if flt else "uncovered"]
            p = vlib.sh(args + extra + ["-t", t], cwd=os.path.join(root, "run"), timeout=120)
            chk.count()
            if p.returncode != 0:
                chk.violation({"kind": "oracle", "engine": "cli", "args": args[1:] + extra + ["-t", t], "input": render_lcov(recs), "stderr": p.stderr[-800:],
                               "clause": "grcov must produce a report"}, tag="cli")
                outs = None
                break
            outs[(t, flt)] = p.stdout
        if outs is None:
            continue
        replay = {"kind": "oracle", "engine": "cli", "args": args[1:], "input": render_lcov(recs), "lcov": outs[("lcov", None)], "files": outs[("files", None)],
                  "path_mapping": mapping}
        rep = parse_lcov_full(outs[("lcov", None)])
        files = [l for l in outs[("files", None)].split("\n") if l]
        if sorted(files) != sorted(r[0] for r in rep):
            chk.violation(dict(replay, clause="-t files and -t lcov list the same paths"), tag="cli")
            continue
        good, by_path = check_report(chk, replay, rep, recs, intent, None, dist, akeys)
        if ci == 0 and good:
            dist["former_witness_now_one_record"] = 1
        for flt in ((True, False) if with_filter else ()):
            r2 = dict(replay, args=args[1:] + ["--filter", "covered" if flt else "uncovered"], lcov=outs[("lcov", flt)])
            g2, bp2 = check_report(chk, r2, parse_lcov_full(outs[("lcov", flt)]), recs, intent, flt, dist, akeys)
            dist["filter_reports_checked"] += 1
            dist["filter_reports_nonempty"] += bool(bp2)
        # per-directory and global totals count every file once
        if good:
            tree = json.loads(outs[("covdir", None)])
            nodes = []
            covdir_walk(tree, [], nodes)
            file_nodes = [x for x in nodes if x[1]]
            chk.count()
            per_file = {p: (len(c["lines"]), sum(1 for _, n in c["lines"] if n > 0)) for p, c in by_path.items()}
            ok = len(file_nodes) == len(per_file)
            for path, is_file, tot, covd, kids in nodes:
                if is_file:
                    name = "/".join(path).replace("//", "/")
                    ok = ok and per_file.get(name, per_file.get("/" + name.lstrip("/"))) == (tot, covd)
                else:
                    ok = ok and kids == (tot, covd)
            if tree["linesTotal"] != sum(v[0] for v in per_file.values()) or tree["linesCovered"] != sum(v[1] for v in per_file.values()):
                ok = False
            if not ok:
                chk.violation(dict(replay, covdir=outs[("covdir", None)], clause="per-directory and global totals count every file once"), tag="cli")
            dist["totals_checked"] += 1
            dist["totals_checked_on_cases_with_several_spellings_of_a_file"] += any(len(input_ids(c)) > 1 for c in by_path.values())
        dist["cases"] += 1
        dist["with_source_dir"] += bool(sd)
        dist["with_prefix_dir"] += bool(pd)
        dist["with_branch"] += branch
        dist["with_filter_runs"] += with_filter
        for k in kinds:
            dist["inputs_" + k] += 1
        if len(fam) > 1:
            chk.nontrivial(("cli", [k for k, _ in recs], kinds, bool(sd), bool(pd), branch, with_filter, sorted(os.listdir(os.path.join(root, "src")))))
        chk.sample({"keys": [k.replace(root, "{R}") for k, _ in recs], "args": [a.replace(root, "{R}") for a in args[2:]], "reported": sorted(files)}, limit=3)
        shutil.rmtree(root, ignore_errors=True)
    return dict(dist)


def lineless_variants(rng, case):
    """C11's generator gives every key a line; here every key also carries a function id<i>, and about a quarter of the keys
    have no line at all (function-only or branch-only), so that merging a line-less record into an existing one is exercised"""
    for i, kc in enumerate(case["keys"]):
        cov = kc[1]
        cov["funcs"] = sorted(cov["funcs"] + [[("id%d" % i).encode().hex(), 20 + i, rng.random() < 0.5]], key=lambda x: bytes.fromhex(x[0]))
        r = rng.random()
        if r < 0.1:
            cov["lines"], cov["funcs"] = [], []
            cov["branches"] = sorted(cov["branches"] + [[2000 + i, [rng.random() < 0.5 for _ in range(rng.randrange(1, 4))]]])
        elif r < 0.27:
            cov["lines"] = []
    return case


def twin_variants(rng, case, dist_holder):
    """2-3 keys that spell the same underlying file get the very same record (merging equal records must still sum them)"""
    by = collections.defaultdict(list)
    for i, m in enumerate(case["meta"]["keys"]):
        by[m[1]].append(i)
    cands = [g for g in by.values() if len(g) >= 2]
    if cands and rng.random() < 0.45:
        g = rng.choice(cands)[:rng.choice([2, 2, 3])]
        twin = {"lines": [[1, rng.choice([1, 2])], [4, 0]], "branches": [[7, [True, False]]], "funcs": [["id".encode().hex(), 9, True]]}
        for i in g:
            case["keys"][i][1] = json.loads(json.dumps(twin))
        dist_holder["cases_with_identical_records"] += 1
    return case


def run(chk):
    chk.proofs()
    quick = chk.tier == "quick"
    d2 = cli_stream(chk, 60 if quick else 600)
    cases = []
    twins = collections.Counter()
    for i in range(120 if quick else 1500):
        c = pathgen.make_case(chk.rng, i)
        c["variants"] = [c["variants"][0], c["variants"][chk.rng.choice([1, 2, 3, 4, 5, 6])], c["variants"][chk.rng.choice([3, 4])]]
        cases.append(twin_variants(chk.rng, lineless_variants(chk.rng, c), twins))
    d1 = engine_stream(chk, cases)
    d1.update(twins)
    chk.extra["distribution"] = {"engine": d1, "cli": d2}
    chk.cov["rule"] = ("(1) CLI: generated tracefiles in which 1-3 underlying files appear in up to 10 spellings each ('./', '//', '/./', backslash, absolute, "
                       "absolute with './', absolute through '..', prefixed, prefixed with '//' after the prefix, prefixed with '//' or '/./' INSIDE the prefix part, and "
                       "--path-mapping keys spelt exactly or with the other case of their first letter (key upper / record lower and the converse, also with backslashes)), "
                       "files present on disk or not, with and without -s / -p / --path-mapping / --branch; -p is a build-machine prefix absent from this machine or one that "
                       "exists here (through a symlink, relative to the working directory, with './' or '..'); mapping values are the repository path or the "
                       "build-machine path <prefix>/<path> (mapped first, then the prefix is removed), or the repository path written with backslashes; in half of the cases 2-3 spellings of one file that stay "
                       "distinct map keys carry the very same record (the aggregate then has k times the counts); "
                       "every input is identifiable by a key line, a function id<i> or a branch line, about a quarter of the inputs carry no DA line at all "
                       "(function-only, branch-only); reports -t lcov, files, covdir and, in about half of the cases, --filter covered and --filter uncovered "
                       "(with two spellings of one file forced to differ in status whenever two of them stay distinct map keys): every path is listed once, its "
                       "record is the C01 aggregate (lines, branches, functions) of exactly the inputs whose spelling denotes it, --filter lists exactly the files "
                       "whose AGGREGATE has the status, each with the full aggregate, and the covdir totals of every directory and of the whole report equal the "
                       "sum over the files listed. (2) engine rewrite: merge_same_paths(rewrite_paths(.., None, ..), filter) on C11's generated cases with a function "
                       "id<i> per key, a quarter of the keys line-less, and identical records under 2-3 spellings of one file in part of the cases: no duplicate path (as string and as component sequence), every record = the driver's "
                       "own aggregate of the retained records with that path with --filter decided on the aggregate, and agreement with the model report_paths. "
                       "non-trivial = a CLI case with at least two spellings, or an engine run in which at least one record was merged from several keys; distinct by content")
    chk.cov["trusted_base"] = ["Coq kernel; vm_compute", "grcov's lcov parser and lcov/covdir/files writers (C04, C03) on the CLI stream",
                               "os.path.realpath / os.path.exists of the driver (only to report how many merges crossed add_results keys)",
                               "impl_run harness (composes rewrite_paths and merge_same_paths the way main.rs does), grcov CLI built from /repo's working tree"]
    chk.assumptions = ["as for C11 (no .java/.kt keys, no trailing '/', valid globs)",
                       "which of the merged records lends abs_path, rel_path spelling and function start lines depends on hash order: compared as a set membership / ignored",
                       "one tracefile per CLI run; order independence of the aggregate is C01/C02"]


def replay(chk, path):
    r = json.load(open(path))
    if r.get("engine") == "rewrite" and "case" in r:
        engine_stream(chk, [r["case"]])
    elif r.get("engine") == "cli":
        exe = vlib.build_cli()
        sc = vlib.scratch("cli_replay_" + chk.pid)
        with open(os.path.join(sc, "in.info"), "w") as f:
            f.write(r["input"])
        args = [a for a in r["args"][1:]]
        if r.get("path_mapping") and "--path-mapping" in args:
            with open(os.path.join(sc, "map.json"), "w") as f:
                json.dump(r["path_mapping"], f)
            args[args.index("--path-mapping") + 1] = os.path.join(sc, "map.json")
        p = vlib.sh([exe, os.path.join(sc, "in.info")] + args + ["-t", "lcov"], cwd=sc)
        paths = [x[0] for x in parse_lcov(p.stdout)]
        chk.count()
        if len(paths) != len(set(paths)):
            chk.violation(dict(r, lcov=p.stdout), tag="replay")
    else:
        chk.proofs()
