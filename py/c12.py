"""C12 - one record per source file.  Proofs + engine `rewrite` (the report pipeline of main.rs:
merge_same_paths(rewrite_paths(.., None, ..), filter) against the model `report_list` and against the driver's own
per-path aggregate) + the CLI (`grcov x.info [-s ..] [-p ..] -t lcov|files|covdir`, which includes the keying of add_results)."""
import collections, json, os, shutil
import vlib, gen, pathgen

R = pathgen.R


def key_ids(cov_lines):
    return sorted(l - 1000 for l, _ in cov_lines if 1000 <= l < 2000)


def crel(rb):
    """the component sequence of a reported path (PathBuf equality), as bytes"""
    parts = rb.split(b"/")
    keep = [p for n, p in enumerate(parts) if p != b"" and not (p == b"." and (n > 0 or rb.startswith(b"/")))]
    return (b"/" if rb.startswith(b"/") else b"") + b"/".join(keep)


def covered(agg):
    return any(n != 0 for _, n in agg["lines"]) and \
        (len(agg["funcs"]) <= 1 or any(e and bytes.fromhex(n) != b"top-level" for n, (_, e) in agg["funcs"].items()))


def obs_equal(a, b):
    """two records up to the start line of functions (the first record merged lends it; order is hash order)"""
    fa = sorted((n, e) for n, _, e in a["funcs"])
    fb = sorted((n, e) for n, _, e in b["funcs"])
    return sorted(map(list, a["lines"])) == sorted(map(list, b["lines"])) and \
        sorted([l, list(v)] for l, v in a["branches"]) == sorted([l, list(v)] for l, v in b["branches"]) and fa == fb


# ---------------------------------------------------------------------------------------------
# engine stream: merge_same_paths(rewrite_paths(.., None, ..), filter)
# ---------------------------------------------------------------------------------------------
def engine_stream(chk, cases):
    impl = vlib.run_impl("rewrite", cases, chk.pid, parallel=4)
    exprs, idx = [], []
    for ci, (c, ri) in enumerate(zip(cases, impl)):
        if "merged" in ri:
            exprs.append(pathgen.model_case_expr(c, bytes.fromhex(ri["root"]), ri["globs"], fn=1))
            idx.append(ci)
    model = dict(zip(idx, vlib.run_model(chk.pid, "Run.ShowRewrite", exprs, shard_size=40)))
    dist = collections.Counter()
    dis = []
    for ci, (c, ri) in enumerate(zip(cases, impl)):
        if "merged" not in ri:
            chk.count()
            chk.violation({"kind": "oracle", "engine": "rewrite", "case": c, "impl": ri, "clause": "the harness must be able to run the case"}, tag="eng")
            continue
        root = bytes.fromhex(ri["root"])
        rm = model.get(ci)
        model_err = isinstance(rm, tuple) and rm and rm[0] == "@@ERROR"
        if model_err:
            dis.append({"case": c, "model": rm})
        for vi, v in enumerate(c["variants"]):
            chk.count()
            mg = ri["merged"][vi]
            dist["runs"] += 1
            if isinstance(mg, dict):
                dist["panic"] += 1
                if not model_err and rm[vi][0] != 2:
                    dis.append({"case": c, "variant": vi, "impl": mg, "model_tag": rm[vi][0]})
                continue
            alone = ri["runs"][vi]
            if not isinstance(alone, dict):
                rels_alone = [r for _, r, _ in alone]
                dist["runs_where_rewrite_paths_alone_duplicates"] += len(rels_alone) != len(set(rels_alone))
            # ---- one record per source file
            rels = [bytes.fromhex(r) for _, r, _ in mg]
            crels = [crel(r) for r in rels]
            if len(set(rels)) != len(rels) or len(set(crels)) != len(crels):
                chk.violation({"kind": "oracle", "engine": "rewrite", "case": c, "variant": v, "impl": pathgen.canon_run(mg),
                               "clause": "each distinct source file appears at most once in a report"}, tag="eng")
                continue
            # ---- the record of a path is the C01 aggregate of the retained records with that path, --filter on the aggregate
            base = ri["runs"][0]
            verd = {r: (i, k) for r, i, k in ri["globs"][vi]}
            exists = dict(ri["exists"])
            groups = collections.defaultdict(list)
            for a, r, cv in base:
                gi, gk = verd[r]
                if (not gi) and (not v["keep"] or gk) and (not v["ine"] or exists[a]):
                    groups[crel(bytes.fromhex(r))].append((a, r, cv))
            want = {}
            for k, g in groups.items():
                agg = gen.ref_agg([cv for _, _, cv in g])
                if v["filter"] is None or covered(agg) == v["filter"]:
                    want[k] = (agg, g)
            got = {crel(bytes.fromhex(r)): (a, r, cv) for a, r, cv in mg}
            ok = set(got) == set(want)
            if ok:
                for k, (a, r, cv) in got.items():
                    agg, g = want[k]
                    if gen.obs_matches(cv, agg) or (a, r) not in {(ga, gr) for ga, gr, _ in g}:
                        ok = False
            if not ok:
                chk.violation({"kind": "oracle", "engine": "rewrite", "case": c, "variant": v, "impl": pathgen.canon_run(mg),
                               "expected_paths": sorted(k.decode(errors="replace") for k in want),
                               "clause": "inputs that denote the same file are aggregated into a single record according to C01 (and --filter is decided on it)"}, tag="eng")
                continue
            merged_groups = sum(1 for k in got if len(want[k][1]) > 1)
            dist["records_merged_from_several_keys"] += merged_groups
            dist["runs_with_merging"] += merged_groups > 0
            if merged_groups:
                chk.nontrivial(("eng", vi, [k for k, _ in c["keys"]], c["source_dir"], c["prefix_dir"], c["mapping"], c["files"], c["symlinks"]))
            # ---- correspondence with report_paths (Model/Rewrite.v)
            if not model_err:
                tag, mrs, _ = pathgen.model_run(rm[vi], root)
                mgot = {crel(bytes.fromhex(r)): (a, r, cv) for a, r, cv in mrs}
                same = tag == 0 and len(mrs) == len(mgot) and set(mgot) == set(got)
                if same:
                    for k in got:
                        g = {(ga, gr) for ga, gr, _ in want[k][1]}
                        if not obs_equal(mgot[k][2], got[k][2]) or (mgot[k][0], mgot[k][1]) not in g:
                            same = False
                if not same and not pathgen_backslash(c):
                    dis.append({"case": c, "variant": vi, "root": root.decode(), "impl": pathgen.canon_run(mg), "model": mrs, "model_tag": tag})
    for d in dis[:3]:
        d.update({"kind": "correspondence", "engine": "rewrite", "theorems_at_stake": "C12_* (report_list no longer describes merge_same_paths after rewrite_paths)"})
        chk.violation(d, has_input=False, tag="eng-corr")
    return dict(dist)


def pathgen_backslash(c):
    return c["mapping"] is not None and any(b"\\" in bytes.fromhex(v) for _, v in c["mapping"])


# ---------------------------------------------------------------------------------------------
# CLI stream
# ---------------------------------------------------------------------------------------------
UNDER = ["foo/bar.c", "main.c", "foo/sub/deep.c", "lib/util.h", "gone/missing.c", "foo/é ü.c"]
ONDISK = ["foo/bar.c", "main.c", "foo/sub/deep.c", "lib/util.h", "foo/é ü.c"]
PREFIX = "/builds/worker"


def cli_spellings(rng, u, root, sd, pd, safe=False):
    """(key, by_construction_path) pairs; path None when the property does not fix it.
    safe: only spellings that fs::canonicalize resolves (the file exists): add_results merges them"""
    out = [(u, u), ("./" + u, u), (u.replace("/", "//", 1) if "/" in u else "./" + u, u), (u.replace("/", "/./", 1) if "/" in u else u, u)]
    if not safe:
        out.append((u.replace("/", "\\") if "/" in u else u, u))
    if sd:
        out.append((root + "/src/" + u, u))
        out.append((root + "/src/./" + u, u))
        if os.path.exists(root + "/src/" + u):
            # (for a missing file this spelling is C11's known finding unresolved-dotdot-abs)
            out.append((root + "/run/../src/" + u, u))
    if pd and not safe:
        out.append((PREFIX + "/" + u, u))
        out.append((PREFIX + "//" + u, u))
    rng.shuffle(out)
    seen, res = set(), []
    for k, p in out[:rng.randrange(1, len(out) + 1)]:
        if k not in seen:
            seen.add(k)
            res.append((k, p))
    return res


def render_lcov(recs):
    out = []
    for k, cov in recs:
        out.append("SF:" + k)
        for l, n in cov["lines"]:
            out.append("DA:%d,%d" % (l, n))
        out.append("end_of_record")
    return "\n".join(out) + "\n"


def parse_lcov(txt):
    recs, cur = [], None
    for line in txt.split("\n"):
        if line.startswith("SF:"):
            cur = [line[3:], []]
        elif line.startswith("DA:") and cur is not None:
            l, n = line[3:].split(",")[:2]
            cur[1].append([int(l), int(n)])
        elif line == "end_of_record" and cur is not None:
            recs.append(cur)
            cur = None
    return recs


def covdir_walk(node, path, out):
    """collect (path, is_file, linesTotal, linesCovered, [children totals])"""
    ch = node.get("children")
    if ch is None:
        out.append((path, True, node["linesTotal"], node["linesCovered"], None))
        return
    out.append((path, False, node["linesTotal"], node["linesCovered"],
                (sum(c["linesTotal"] for c in ch.values()), sum(c["linesCovered"] for c in ch.values()))))
    for name, c in ch.items():
        covdir_walk(c, path + [name], out)


def cli_stream(chk, n):
    exe = vlib.build_cli()
    sc = os.path.realpath(vlib.scratch("cli_" + chk.pid))
    rng = chk.rng
    dist = collections.Counter()
    for ci in range(n):
        root = os.path.join(sc, "c%d" % ci)
        for u in ONDISK:
            if ci == 0 or rng.random() < 0.75:
                p = os.path.join(root, "src", u)
                os.makedirs(os.path.dirname(p), exist_ok=True)
                with open(p, "w") as f:
                    f.write("x\n")
        os.makedirs(os.path.join(root, "src"), exist_ok=True)
        os.makedirs(os.path.join(root, "run"), exist_ok=True)
        sd = None if (ci == 0 or rng.random() < 0.35) else os.path.join(root, "src")
        pd = PREFIX if (ci != 0 and rng.random() < 0.5) else None
        recs, intent = [], []
        if ci == 0:
            fam = [("foo/./bar.c", "foo/bar.c"), ("foo/bar.c", "foo/bar.c"), ("foo//bar.c", "foo/bar.c")]     # the witness of the finding
        else:
            fam = []
            safe = bool(sd) and rng.random() < 0.55
            present = [u for u in ONDISK if os.path.exists(os.path.join(root, "src", u))]
            pool = present if (safe and present) else UNDER
            for u in rng.sample(pool, min(len(pool), rng.randrange(1, 4))):
                fam += cli_spellings(rng, u, root, sd, pd, safe and bool(present))
            dist["safe_cases"] += safe and bool(present)
        for i, (k, p) in enumerate(fam):
            lines = sorted(set(rng.sample([1, 2, 3, 4, 5, 6], rng.randrange(0, 4))))
            cov = {"lines": [[l, rng.choice([0, 1, 3])] for l in lines] + [[1000 + i, rng.choice([0, 1])]], "branches": [], "funcs": []}
            recs.append((k, cov))
            intent.append(p)
        info = os.path.join(root, "run", "in.info")
        with open(info, "w") as f:
            f.write(render_lcov(recs))
        # the key under which add_results stores each record (the property's reading of "the same file on disk")
        def addkey(k):
            if sd:
                p = os.path.join(sd, k)
                if os.path.exists(p):
                    return os.path.realpath(p)
            return k
        akeys = [addkey(k) for k, _ in recs]
        args = [exe, info] + (["-s", sd] if sd else []) + (["-p", pd] if pd else [])
        outs = {}
        for t in ("lcov", "files", "covdir"):
            p = vlib.sh(args + ["-t", t], cwd=os.path.join(root, "run"), timeout=120)
            chk.count()
            if p.returncode != 0:
                chk.violation({"kind": "oracle", "engine": "cli", "args": args[1:] + ["-t", t], "input": render_lcov(recs), "stderr": p.stderr[-800:],
                               "clause": "grcov must produce a report"}, tag="cli")
                outs = None
                break
            outs[t] = p.stdout
        if outs is None:
            continue
        rep = parse_lcov(outs["lcov"])
        files = [l for l in outs["files"].split("\n") if l]
        replay = {"kind": "oracle", "engine": "cli", "args": args[1:], "input": render_lcov(recs), "lcov": outs["lcov"], "files": outs["files"]}
        if sorted(files) != sorted(r[0] for r in rep):
            chk.violation(dict(replay, clause="-t files and -t lcov list the same paths"), tag="cli")
            continue
        by_path = collections.defaultdict(list)
        for path, das in rep:
            by_path[path].append(das)
        bad = False
        for path, rs in by_path.items():
            if len(rs) > 1:
                chk.violation(dict(replay, path=path, clause="each distinct source file appears at most once in a report"), tag="cli")
                bad = True
                continue
            das = rs[0]
            t = set(key_ids(das))
            # the record aggregates exactly the inputs that denote this path (whatever their spelling), according to C01
            exp_ids = {i for i, p in enumerate(intent) if p == path}
            if not t or t != exp_ids:
                chk.violation(dict(replay, path=path, merged_inputs=sorted(t), expected_inputs=sorted(exp_ids),
                                   clause="inputs that refer to the same file through different spellings are aggregated into a single record"), tag="cli")
                bad = True
                continue
            exp = gen.ref_agg([recs[i][1] for i in sorted(t)])["lines"]
            if sorted(das) != exp:
                chk.violation(dict(replay, path=path, got=sorted(das), expected=exp, clause="the single record of a file is the C01 aggregate of its inputs"), tag="cli")
                bad = True
            dist["records_merged_from_several_spellings"] += len(t) > 1
            dist["records_merged_across_add_results_keys"] += len({akeys[i] for i in t}) > 1
        if set(by_path) != {p for p in intent}:
            chk.violation(dict(replay, clause="every input file is reported once under the path its spellings denote"), tag="cli")
            bad = True
        if ci == 0 and not bad:
            dist["former_witness_now_one_record"] = 1
        # per-directory and global totals count every file once
        tree = json.loads(outs["covdir"])
        nodes = []
        covdir_walk(tree, [], nodes)
        file_nodes = [x for x in nodes if x[1]]
        chk.count()
        per_file = {p: (len(d[0]), sum(1 for _, c in d[0] if c > 0)) for p, d in by_path.items()}
        ok = len(file_nodes) == len(per_file)
        for path, is_file, tot, covd, kids in nodes:
            if is_file:
                name = "/".join(path).replace("//", "/")
                ok = ok and per_file.get(name, per_file.get("/" + name.lstrip("/"))) == (tot, covd)
            else:
                ok = ok and kids == (tot, covd)
        if tree["linesTotal"] != sum(v[0] for v in per_file.values()) or tree["linesCovered"] != sum(v[1] for v in per_file.values()):
            ok = False
        if not ok and not bad:
            chk.violation(dict(replay, covdir=outs["covdir"], clause="per-directory and global totals count every file once"), tag="cli")
        dist["totals_checked"] += 1
        dist["totals_checked_on_cases_with_several_spellings_of_a_file"] += any(len(key_ids(d[0])) > 1 for d in by_path.values())
        dist["cases"] += 1
        dist["with_source_dir"] += bool(sd)
        dist["with_prefix_dir"] += bool(pd)
        if len(fam) > 1:
            chk.nontrivial(("cli", [k for k, _ in recs], bool(sd), bool(pd), sorted(os.listdir(os.path.join(root, "src")))))
        chk.sample({"keys": [k.replace(root, "{R}") for k, _ in recs], "args": [a.replace(root, "{R}") for a in args[2:]], "reported": sorted(files)}, limit=3)
        shutil.rmtree(root, ignore_errors=True)
    return dict(dist)


def run(chk):
    chk.proofs()
    quick = chk.tier == "quick"
    d2 = cli_stream(chk, 60 if quick else 600)
    cases = []
    for i in range(120 if quick else 1500):
        c = pathgen.make_case(chk.rng, i)
        c["variants"] = [c["variants"][0], c["variants"][chk.rng.choice([1, 2, 3, 4, 5, 6])], c["variants"][chk.rng.choice([3, 4])]]
        cases.append(c)
    d1 = engine_stream(chk, cases)
    chk.extra["distribution"] = {"engine": d1, "cli": d2}
    chk.cov["rule"] = ("(1) CLI: generated tracefiles in which 1-3 underlying files appear in up to 10 spellings each ('./', '//', '/./', backslash, absolute, "
                       "absolute with './', absolute through '..', prefixed, prefixed with '//'), files present on disk or not, with and without -s / -p, reports "
                       "-t lcov, files, covdir: every path is listed once, its record is the C01 aggregate of exactly the inputs whose spelling denotes it, "
                       "and the covdir totals of every directory and of the whole report equal the sum over the files listed. (2) engine rewrite: "
                       "merge_same_paths(rewrite_paths(.., None, ..), filter) as main.rs calls it, on C11's generated cases (trees, symlinks, mapping, prefix, "
                       "ignore / keep-only / existence / filter variants): no duplicate path (as string and as component sequence), every record = the driver's "
                       "own aggregate of the retained records with that path with --filter decided on the aggregate, and agreement with the model report_paths. "
                       "non-trivial = a CLI case with at least two spellings, or an engine run in which at least one record was merged from several keys; distinct by content")
    chk.cov["trusted_base"] = ["Coq kernel; vm_compute", "grcov's lcov parser and lcov/covdir/files writers (C04, C03) on the CLI stream",
                               "os.path.realpath / os.path.exists of the driver (only to report how many merges crossed add_results keys)",
                               "impl_run harness (composes rewrite_paths and merge_same_paths the way main.rs does), grcov CLI built from /repo's working tree"]
    chk.assumptions = ["as for C11 (no .java/.kt keys, no trailing '/', valid globs)",
                       "which of the merged records lends abs_path, rel_path spelling and function start lines depends on hash order: compared as a set membership / ignored",
                       "one tracefile per CLI run; order independence of the aggregate is C01/C02"]


def replay(chk, path):
    r = json.load(open(path))
    if r.get("engine") == "rewrite" and "case" in r:
        engine_stream(chk, [r["case"]])
    elif r.get("engine") == "cli":
        exe = vlib.build_cli()
        sc = vlib.scratch("cli_replay_" + chk.pid)
        with open(os.path.join(sc, "in.info"), "w") as f:
            f.write(r["input"])
        p = vlib.sh([exe, os.path.join(sc, "in.info")] + [a for a in r["args"][1:]] + ["-t", "lcov"], cwd=sc)
        paths = [x[0] for x in parse_lcov(p.stdout)]
        chk.count()
        if len(paths) != len(set(paths)):
            chk.violation(dict(r, lcov=p.stdout), tag="replay")
    else:
        chk.proofs()
