"""Generators for C11/C12: path spellings, filesystem trees, rewrite_paths cases, and the conversions
between the harness' JSON, the Gallina entry points of Run/ShowRewrite.v and Python values."""
import json
import gen


def canon(v):
    return json.dumps(v, sort_keys=True)

from vlib import Raw, coq, app

R = "{R}"          # placeholder of the canonical temp root inside keys / options

# ---------------------------------------------------------------------------------------------
# std::path facts (engine pathfacts  vs  run_facts)
# ---------------------------------------------------------------------------------------------
TOK = ["/", "/", "//", ".", "..", "a", "bb", "c.c", "...", ".h", "é", "x y", "a", "/", "./", "../", "/./", "\\"]


def rand_path(rng, maxtok=7):
    n = rng.randrange(0, maxtok + 1)
    return "".join(rng.choice(TOK) for _ in range(n))


def comps_py(s):
    """independent reading of Appendix D: (abs, segs) with segs as 'c' | 'u' | ('n', bytes)"""
    b = s.encode() if isinstance(s, str) else s
    absolute = b.startswith(b"/")
    raw = b.split(b"/")
    segs = []
    for i, w in enumerate(raw):
        if w == b"":
            continue
        if w == b".":
            if i == 0 and not absolute:
                segs.append("c")
            continue
        segs.append("u" if w == b".." else ("n", w))
    return absolute, segs


def facts_pairs(rng, n):
    out = [("", ""), ("/", ""), ("", "/"), (".", "."), ("./a", "."), ("./a", "a"), ("/a/b", "/"), ("/a/b", "/a"), ("a/b", "b"),
           ("/a/b", "a/b"), ("a/./b", "a/b"), ("a//b/", "a"), ("..", ".."), ("/..", "/"), ("a/..", "a"), ("./.", "."), (".//.", ""),
           ("a", ""), ("/", "/"), ("a/b/../c", "a/b"), ("/a/../../b", "/a"), ("./../a", "./.."), ("a/b", "./a")]
    while len(out) < n:
        a = rand_path(rng)
        r = rng.random()
        if r < 0.35:
            b = rand_path(rng, 4)
        else:
            # a prefix / suffix of a's spelling in another spelling, so that the relations hold non-trivially
            absolute, segs = comps_py(a)
            txt = [b"." if s == "c" else b".." if s == "u" else s[1] for s in segs]
            k = rng.randrange(0, len(txt) + 1)
            if r < 0.7:
                sep = rng.choice(["/", "//", "/./"])
                b = ("/" if absolute else "") + sep.join(x.decode() for x in txt[:k])
            else:
                b = "/".join(x.decode() for x in txt[k:])
        out.append((a, b))
    return out[:n]


def path_json_to_py(v):
    """harness [abs, [[0]|[1]|[2,hex]..]] -> (abs, [(tag, bytes)..]) as run_facts prints it"""
    return (v[0], [(s[0], list(bytes.fromhex(s[1])) if s[0] == 2 else []) for s in v[1]])


def path_coq_to_py(v):
    a, segs = v
    return (a, [(t, list(n)) for t, n in segs])


def facts_impl_view(ri):
    """the harness' answer in the shape of run_facts"""
    o = lambda x: [] if x is None else [path_json_to_py(x["some"])]
    return (path_json_to_py(ri["comps"]), path_json_to_py(ri["join"]),
            (ri["starts_with"], ri["ends_with"], o(ri["strip_prefix"])),
            (o(ri["parent"]), [path_json_to_py(x) for x in ri["ancestors"]]),
            (o(ri["normalize"]), list(bytes.fromhex(ri["normalize"]["raw"])) if ri["normalize"] else []),
            (ri["has_no_parent"], ri["is_empty"]))


def facts_model_view(rm):
    # Coq prints left-nested pairs flat: the leading show_path pair is spliced into the outer tuple
    ca, cs, j, jr, (sw, ew, sp), (par, anc), (nm, nr), (hnp, ie, wf) = rm
    c = (ca, cs)
    # jr (render of the joined path) is not compared: PathBuf keeps the raw bytes of both operands
    return (path_coq_to_py(c), path_coq_to_py(j), (sw, ew, [path_coq_to_py(x) for x in sp]),
            ([path_coq_to_py(x) for x in par], [path_coq_to_py(x) for x in anc]),
            ([path_coq_to_py(x) for x in nm], list(nr)), (hnp, ie)), wf


# ---------------------------------------------------------------------------------------------
# rewrite_paths cases
# ---------------------------------------------------------------------------------------------
DIRS = ["src", "src/foo", "src/foo/sub", "src/lib", "other", "work", "work/foo", "pre/fix", "src/src/foo"]
FILES_POOL = ["src/foo/bar.c", "src/foo/sub/deep.c", "src/main.c", "src/lib/util.h", "other/ext.c",
              "work/foo/bar.c", "src/src/foo/x.c", "pre/fix/main.c", "src/foo/é ü.c"]
UNDER = ["foo/bar.c", "main.c", "foo/sub/deep.c", "lib/util.h", "gone/missing.c", "foo/é ü.c", "new.c", "src/foo/x.c"]
GLOBS = [["foo/*"], ["*.h"], ["**/sub/**"], ["main.c"], ["foo/**", "lib/*"], ["/*"], ["*"], ["**/*.c"], ["src/*"],
         ["**/bar.c"], ["gone/*", "*.h"], ["foo/ba?.c"], ["[fm]*"], ["nomatch/*"], ["**"], ["/**/src/**"]]
PREFIXES = ["/builds/worker", R + "/pre/fix", "C:/proj", "/builds/worker/"]


def hx(s):
    return (s if isinstance(s, bytes) else s.encode()).hex()


def spell(rng, u, world):
    """one spelling of the file `u` (relative to the source dir).  Returns (key, note, intends) where intends is
    'same' when the spelling denotes <source_dir>/u for a reader who knows the options, else a label."""
    sd = world["sd_rel"]          # 'src' or None
    parts = u.split("/")
    kind = rng.choice(["plain", "dot", "dslash", "middot", "bslash", "abs", "absdot", "absup", "prefix", "inup", "overlap",
                       "mapped", "escape", "escape_abs", "updown", "trail_up", "bslash_abs", "mixed"])
    if kind == "plain":
        return u, kind, "same"
    if kind == "dot":
        return "./" + u, kind, "same"
    if kind == "dslash":
        i = rng.randrange(len(parts))
        return "/".join(parts[:i]) + ("//" if i else "") + "/".join(parts[i:]) if i else u.replace("/", "//", 1), kind, "same"
    if kind == "middot":
        return u.replace("/", "/./", 1) if "/" in u else "./" + u, kind, "same"
    if kind == "bslash":
        return u.replace("/", "\\"), kind, "same"
    if kind == "abs":
        return R + "/" + (sd + "/" if sd else "") + u, kind, "same"
    if kind == "bslash_abs":
        return (R + "/" + (sd + "/" if sd else "") + u).replace("/", "\\") if rng.random() < 0.3 else R + "/" + (sd + "\\" if sd else "") + u.replace("/", "\\"), kind, "same"
    if kind == "absdot":
        return R + "/./" + (sd + "//" if sd else "") + u, kind, "same"
    if kind == "absup":
        d = rng.choice(["other", "nonexistent"])
        return R + "/" + d + "/../" + (sd + "/" if sd else "") + u, kind, "same-lexically"
    if kind == "prefix":
        return world["prefix_spelled"].rstrip("/") + "/" + u, kind, "same" if world["prefix"] else "other"
    if kind == "inup":
        d = rng.choice(["foo", "zz", "lib"])
        return d + "/../" + u, kind, "same-lexically"
    if kind == "overlap":
        return (sd or "src") + "/" + u, kind, "overlap"
    if kind == "mapped":
        k = rng.choice(["Mapped_", "mapped_", "m/"]) + u.replace("/", "_")
        world["mapping_wanted"].append((k, u))
        return k, kind, "mapped"
    if kind == "escape":
        return "../" * rng.randrange(1, 4) + u, kind, "escape"
    if kind == "escape_abs":
        return "/.." + "/.." * rng.randrange(0, 3) + "/" + u, kind, "escape"
    if kind == "updown":
        return "../" + (sd or "src") + "/" + u, kind, "escape"
    if kind == "trail_up":
        return u + "/../" + parts[-1], kind, "other"
    return "./" + u.replace("/", "//./", 1).replace(".c", ".c"), kind, "same"


def make_case(rng, idx):
    files = [f for f in FILES_POOL if rng.random() < 0.7]
    links = []
    if rng.random() < 0.3:
        links = rng.sample([("src/link.c", "foo/bar.c"), ("src/ldir", R + "/other"), ("other/back.c", R + "/src/main.c"),
                            ("src/foo/up", ".."), ("work/dangling.c", "nowhere.c"), ("src/abs2rel", "../other")], rng.randrange(1, 4))
    sd_rel = rng.choice(["src", "src", "src", None, None])
    prefix = rng.choice([None, None, "default", rng.choice(PREFIXES)])
    if prefix == "default":
        prefix = (R + "/" + sd_rel) if sd_rel else None
    world = {"sd_rel": sd_rel, "prefix": prefix, "prefix_spelled": prefix or "/builds/worker", "mapping_wanted": []}
    unders = rng.sample(UNDER, rng.randrange(1, 4))
    if links and rng.random() < 0.7:
        unders.append(rng.choice(["link.c", "ldir/ext.c", "foo/up/main.c", "abs2rel/ext.c"]))
    keys = []
    seen = set()
    for u in unders:
        for _ in range(rng.randrange(1, 5)):
            k, note, intends = spell(rng, u, world)
            if k in seen or k == "":
                continue
            seen.add(k)
            keys.append((k, u, note, intends))
    if rng.random() < 0.08 and "" not in seen:
        keys.append(("", "", "empty", "other"))
    use_mapping = bool(world["mapping_wanted"]) or rng.random() < 0.1
    mapping = None
    if use_mapping:
        mapping = {}
        for k, u in world["mapping_wanted"]:
            mk = rng.choice([k, k[0].lower() + k[1:], k[0].upper() + k[1:]]).replace("\\", "/")
            # (the mapped value may be a build-machine path under the prefix: mapped first, then the prefix is removed)
            v = rng.choice([u, u, (R + "/" + (sd_rel + "/" if sd_rel else "") + u), "./" + u, "zz/../" + u] +
                           ([prefix.rstrip("/") + "/" + u, prefix.rstrip("/") + "//" + u] if prefix else []))
            mapping[mk] = v
        if rng.random() < 0.3:
            mapping["unused.c"] = "nothing.c"
        if rng.random() < 0.15 and keys:
            # a plain key that happens to be mapped
            k0 = keys[0][0]
            if k0 and "\\" not in k0 and k0[0].isascii():
                mapping[k0[0].lower() + k0[1:]] = rng.choice(UNDER)
    kcov = []
    for i, (k, u, note, intends) in enumerate(keys):
        c = gen.cov(rng, max_lines=4, lines_pool=[1, 2, 3, 5, 8, 2**32 - 1], names_pool=["f", "g", "top-level", "main", "café"])
        # a line number unique to the key lets the oracle trace every reported record back to its key
        c["lines"] = sorted(c["lines"] + [[1000 + i, rng.choice([0, 0, 1, 7])]])
        kcov.append([hx(k), c])
    g = rng.choice(GLOBS)
    g2 = rng.choice(GLOBS)
    variants = [
        {"ine": False, "ignore": [], "keep": [], "filter": None},
        {"ine": False, "ignore": g, "keep": [], "filter": None},
        {"ine": False, "ignore": [], "keep": g, "filter": None},
        {"ine": False, "ignore": [], "keep": [], "filter": True},
        {"ine": False, "ignore": [], "keep": [], "filter": False},
        {"ine": True, "ignore": [], "keep": [], "filter": None},
        {"ine": rng.random() < 0.5, "ignore": rng.choice([[], g, g2]), "keep": rng.choice([[], g2, g]), "filter": rng.choice([None, True, False])},
    ]
    source_dir = None if sd_rel is None else R + "/" + sd_rel
    if sd_rel and rng.random() < 0.04:
        source_dir = sd_rel                 # relative source_dir: the assert fires
    return {"id": idx, "dirs": [hx(d) for d in DIRS], "files": [hx(f) for f in files], "symlinks": [[hx(a), hx(b)] for a, b in links],
            "cwd": hx(rng.choice(["", "work", "work", "src"])), "keys": kcov,
            "source_dir": None if source_dir is None else hx(source_dir), "prefix_dir": None if prefix is None else hx(prefix),
            "mapping": None if mapping is None else [[hx(k), hx(v)] for k, v in sorted(mapping.items())],
            "variants": variants,
            "meta": {"keys": [[k, u, note, intends] for k, u, note, intends in keys], "sd_rel": sd_rel}}


# ---- model expression -----------------------------------------------------------------------------

def sub(hexs, root):
    return bytes.fromhex(hexs).replace(R.encode(), root)


def names_of(b):
    return [list(x) for x in b.split(b"/") if x != b""]


def cb(b, root):
    """bytes -> Coq term, writing the root's bytes as the let-bound variable rb"""
    parts = b.split(root)
    if len(parts) == 1:
        return Raw(coq(list(b)))
    out = []
    for i, p in enumerate(parts):
        if i:
            out.append("rb")
        if p:
            out.append(coq(list(p)))
    return Raw("(" + " ++ ".join(out) + ")")


def model_case_expr(case, root, globs, fn=0):
    """one Coq expression for all variants of a case (run_case of Run/ShowRewrite.v)"""
    rel = lambda h: names_of(bytes.fromhex(h))
    dirs = [rel(d) for d in case["dirs"]]
    for f in [l[0] for l in case["symlinks"]] + case["files"]:
        ns = rel(f)
        for i in range(1, len(ns)):
            if ns[:i] not in dirs:
                dirs.append(ns[:i])          # parents are created by the harness too
    files = [rel(f) for f in case["files"]]
    links = [(rel(l[0]), cb(sub(l[1], root), root)) for l in case["symlinks"]]
    mapping = Raw("None") if case["mapping"] is None else Raw("(Some %s)" % coq([(cb(sub(k, root), root), cb(sub(v, root), root)) for k, v in case["mapping"]]))
    opt = lambda h: Raw("None") if h is None else Raw("(Some %s)" % cb(sub(h, root), root))
    kvs = [(cb(sub(k, root), root), gen.cov_coq(c)) for k, c in case["keys"]]
    vs = []
    for v, g in zip(case["variants"], globs):
        filt = Raw("None") if v["filter"] is None else Raw("(Some %s)" % coq(v["filter"]))
        vs.append((v["ine"], bool(v["keep"]), filt, [(cb(bytes.fromhex(r), root), (i, k)) for r, i, k in g]))
    body = app("run_case", fn, Raw("rb"), Raw("rn"), dirs, files, links, rel(case["cwd"]), mapping, opt(case["source_dir"]), opt(case["prefix_dir"]), kvs, vs)
    return Raw("let rb := %s in let rn := %s in %s" % (coq(list(root)), coq(names_of(root)), body))


def canon_run(run):
    """[[abs hex, rel hex, cov]..] -> sorted canonical list"""
    return sorted(([a, r, gen.cov_canon(c)] for a, r, c in run), key=canon)


def model_run(rm, root=b""):
    """parsed (tag, [(abs, rel, cov_l)..], missing) -> (tag, canonical list, missing); paths printed by run_case
    as (1, rest) stand for root ++ rest"""
    tag, rs, missing = rm
    un = lambda x: (root + bytes(x[1])) if isinstance(x, tuple) and x[0] == 1 else bytes(x[1]) if isinstance(x, tuple) else bytes(x)
    rs = [(un((t0, t1)), un(r), c) for t0, t1, r, c in rs]     # the leading pair is printed spliced
    return tag, sorted(([bytes(a).hex(), bytes(r).hex(), gen.cov_from_coq(c)] for a, r, c in rs), key=canon), [bytes(m) for m in missing]
