"""JaCoCo report models, their XML renderings (many spellings of one model), the property's own reading
(reference denotation), the malformed stream, and the conversion of harness event dumps into Gallina terms.
All randomness comes from the rng passed in."""
import vlib

NUMS = [0, 1, 2, 5]
PKGS = ["", "", "org/example", "com/x", "a", "org/gradle/kotlin", "p&q/<r>", "café/ü", "x y/z'w"]
TOPS = ["Person", "Top", "A", "B", "Main", "Hello", "X&Y", "Ünï", "Gen<T>", "Quo\"te"]
INNERS = ["Inner", "Age", "1", "2", "Deep", "Companion", "a&b"]
METHODS = ["<init>", "<clinit>", "main", "run", "get", "setX", "lambda$main$0", "a&b", "x<y>", "q\"uo'te", "日本", "access$000", "fun name"]
DESCS = ["()V", "(I)V", "([Ljava/lang/String;)V", "(Ljava/lang/Object;)Z"]
CTYPES = ["INSTRUCTION", "BRANCH", "LINE", "COMPLEXITY", "METHOD", "CLASS"]
LINE_POOL = list(range(1, 40)) + [100, 1000, 65535, 2**31, 2**32 - 1]


# ---------------------------------------------------------------------------
# report models
# ---------------------------------------------------------------------------

def gen_line(rng, nr):
    r = rng.random()
    if r < 0.08:
        big = rng.choice([7, 64, 300, 2000])
        return {"nr": nr, "mi": rng.choice(NUMS), "ci": rng.choice(NUMS), "mb": rng.choice([0, 1, big]), "cb": rng.choice([0, 2, big])}
    if r < 0.5:
        return {"nr": nr, "mi": rng.choice(NUMS), "ci": rng.choice(NUMS), "mb": 0, "cb": 0}
    return {"nr": nr, "mi": rng.choice(NUMS), "ci": rng.choice(NUMS), "mb": rng.choice(NUMS), "cb": rng.choice(NUMS)}


def gen_package(rng, name, exhaustive_lines=False):
    """classes (nested, several top-level per file, with/without sourcefilename) and sourcefiles."""
    ext = rng.choice([".java", ".java", ".kt"])
    ntop = rng.randrange(0, 4)
    tops = rng.sample(TOPS, ntop)
    classes, sourcefiles = [], []
    prefix = (name + "/") if name else ""
    files = []
    for t in tops:
        use_attr = ext == ".kt" or rng.random() < 0.7
        fname = t + ext
        files.append(fname)
        simple = [t]
        for _ in range(rng.randrange(0, 3)):
            base = rng.choice(simple)
            cand = base + "$" + rng.choice(INNERS)
            if cand not in simple:
                simple.append(cand)
        # a second top-level class living in the same file (needs the attribute to be attributed to it)
        if use_attr and rng.random() < 0.3:
            extra = t + "Helper"
            simple.append(extra)
        for s in simple:
            ms = []
            for mn in rng.sample(METHODS, rng.randrange(0, 4)):
                ms.append({"name": mn, "desc": rng.choice(DESCS), "line": rng.choice(LINE_POOL),
                           "covered": rng.choice(NUMS), "missed": rng.choice(NUMS)})
            classes.append({"name": prefix + s, "sourcefilename": fname if use_attr else None, "methods": ms})
    # sourcefiles: usually one per file, sometimes one without classes, sometimes a class file without sourcefile
    for f in files:
        if rng.random() < 0.9:
            sourcefiles.append(f)
    if rng.random() < 0.2:
        sourcefiles.append("Orphan" + ext)
    sfs = []
    for f in sourcefiles:
        if exhaustive_lines:
            combos = [(mi, ci, mb, cb) for mi in NUMS for ci in NUMS for mb in NUMS for cb in NUMS]
            rng.shuffle(combos)
            lines = [{"nr": i + 1, "mi": c[0], "ci": c[1], "mb": c[2], "cb": c[3]} for i, c in enumerate(combos)]
        else:
            nrs = rng.sample(LINE_POOL, rng.randrange(0, 9))
            if rng.random() < 0.7:
                nrs.sort()
            lines = [gen_line(rng, nr) for nr in nrs]
        sfs.append({"name": f, "lines": lines})
    # interleaving of class and sourcefile children
    order = [("c", i) for i in range(len(classes))] + [("s", i) for i in range(len(sfs))]
    mode = rng.random()
    if mode < 0.4:
        pass                                  # JaCoCo's own order: classes then sourcefiles
    elif mode < 0.6:
        order = [x for x in order if x[0] == "s"] + [x for x in order if x[0] == "c"]
    else:
        rng.shuffle(order)
    return {"name": name, "classes": classes, "sourcefiles": sfs, "order": order}


def gen_report(rng, exhaustive_lines=False):
    npk = rng.choice([0, 1, 1, 1, 2, 2, 3])
    names = []
    for _ in range(npk):
        n = rng.choice(PKGS)
        if n in names and rng.random() < 0.8:      # the same package twice is allowed but rare
            continue
        names.append(n)
    pkgs = [gen_package(rng, n, exhaustive_lines and i == 0) for i, n in enumerate(names)]
    # group structure: a tree whose leaves are package indices
    items = list(range(len(pkgs)))
    def group(xs, depth):
        if depth > 2 or len(xs) == 0 or rng.random() < 0.6:
            return xs
        k = rng.randrange(0, len(xs) + 1)
        return [{"group": "g%d" % depth, "items": group(xs[:k], depth + 1)}] + xs[k:]
    return {"packages": pkgs, "layout": group(items, 0), "sessions": rng.randrange(0, 3)}


# ---------------------------------------------------------------------------
# the property's own reading (independent of the Gallina model)
# ---------------------------------------------------------------------------

def ref_denote(report):
    """list of (name bytes, cov JSON) per C10's text; one list entry per (package occurrence, file)."""
    out = []
    for p in report["packages"]:
        recs = {}
        def rec(f):
            return recs.setdefault(f, {"lines": {}, "branches": {}, "funcs": {}})
        for sf in p["sourcefiles"]:
            r = rec(sf["name"])
            for l in sf["lines"]:
                if l["mb"] + l["cb"] > 0:
                    r["branches"][l["nr"]] = [True] * l["cb"] + [False] * l["mb"]
                else:
                    r["lines"][l["nr"]] = 1 if l["ci"] > 0 else 0
        for c in p["classes"]:
            simple = c["name"].split("/")[-1]
            f = c["sourcefilename"] if c["sourcefilename"] is not None else simple.split("$")[0] + ".java"
            r = rec(f)
            for m in c["methods"]:
                r["funcs"][simple + "#" + m["name"]] = (m["line"], m["covered"] > 0)
        for f, r in recs.items():
            nm = (p["name"] + "/" + f) if p["name"] != "" else f
            out.append((nm.encode(), {
                "lines": sorted([k, v] for k, v in r["lines"].items()),
                "branches": sorted([k, v] for k, v in r["branches"].items()),
                "funcs": sorted(([k.encode().hex(), s, e] for k, (s, e) in r["funcs"].items()), key=lambda x: bytes.fromhex(x[0]))}))
    return canon_results(out)


def canon_results(rs):
    """[(name bytes, cov)] -> sorted list of [hex name, cov] (a multiset of file records)."""
    return sorted(([n.hex(), c] for n, c in rs), key=lambda x: (x[0], vlib.canon(x[1])))


def results_from_impl(res):
    if "ok" in res:
        out = []
        for n, c in res["ok"]:
            out.append((bytes.fromhex(n), {"lines": sorted(c["lines"]), "branches": sorted(c["branches"]),
                                           "funcs": sorted(c["funcs"], key=lambda x: bytes.fromhex(x[0]))}))
        return ("ok", canon_results(out))
    for k in ("err", "panic", "hang", "abort"):
        if k in res:
            return (k, None)
    return ("other", res)


TAGS = {0: "ok", 1: "err", 2: "panic", 3: "fuel"}


def results_from_coq(v):
    tag, rs = v
    if tag != 0:
        return (TAGS[tag], None)
    out = []
    for n, (ls, bs, fs) in rs:
        out.append((bytes(n), {"lines": sorted([a, b] for a, b in ls), "branches": sorted([a, list(b)] for a, b in bs),
                               "funcs": sorted(([bytes(fn).hex(), s, e] for fn, (s, e) in fs), key=lambda x: bytes.fromhex(x[0]))}))
    return ("ok", canon_results(out))


# ---------------------------------------------------------------------------
# XML rendering: many spellings of one model
# ---------------------------------------------------------------------------

def esc(rng, s, quote):
    """attribute value with the characters that must be escaped escaped, others sometimes as references."""
    out = []
    for ch in s:
        if ch == "<":
            out.append(rng.choice(["&lt;", "&#60;", "&#x3C;"]))
        elif ch == "&":
            out.append(rng.choice(["&amp;", "&#38;"]))
        elif ch == ">":
            out.append(rng.choice(["&gt;", ">"]))
        elif ch == '"':
            out.append("&quot;" if quote == '"' or rng.random() < 0.5 else '"')
        elif ch == "'":
            out.append("&apos;" if quote == "'" or rng.random() < 0.5 else "'")
        elif rng.random() < 0.03 and ch.isalnum():
            out.append(rng.choice(["&#%d;" % ord(ch), "&#x%X;" % ord(ch)]))
        else:
            out.append(ch)
    return "".join(out)


EXTRA_ATTRS = [("x", "1"), ("foo", "a&b"), ("desc", "()V"), ("id", "7"), ("xml:lang", "en"), ("names", "n"), ("lines", "3")]


class Renderer:
    def __init__(self, rng, style=None):
        self.rng = rng
        st = style or {}
        self.shuffle_attrs = st.get("shuffle_attrs", rng.random() < 0.7)
        self.extra_attrs = st.get("extra_attrs", rng.random() < 0.3)
        self.empty_form = st.get("empty_form", rng.random())        # probability that a childless element is written <x/>
        self.ws = st.get("ws", rng.choice(["", "", "\n", "\n  ", " ", "\r\n"]))
        self.comments = st.get("comments", rng.random() < 0.2)
        self.counters = st.get("counters", rng.random() < 0.8)
        self.single_quote = st.get("single_quote", rng.random() < 0.2)
        self.out = []

    def sep(self):
        if self.comments and self.rng.random() < 0.15:
            self.out.append(self.rng.choice(["<!-- c -->", "<!--<method name=\"x\"/>-->", "<?pi x?>"]))
        self.out.append(self.ws)

    def attrs(self, pairs, numeric=()):
        """pairs: [(key, value str)]; numeric keys are written plainly (the <line> loop does not unescape)."""
        rng = self.rng
        pairs = list(pairs)
        if self.extra_attrs:
            have = {k for k, _ in pairs}
            for k, v in rng.sample(EXTRA_ATTRS, rng.randrange(0, 3)):
                if k not in have:
                    pairs.append((k, v))
        if self.shuffle_attrs:
            rng.shuffle(pairs)
        s = []
        for k, v in pairs:
            q = "'" if self.single_quote and rng.random() < 0.5 else '"'
            val = v if k in numeric else esc(rng, v, q)
            eq = rng.choice(["=", "=", "=", " = "]) if self.ws else "="
            s.append(" %s%s%s%s%s" % (k, eq, q, val, q))
        return "".join(s)

    def elem(self, name, attrs, children=None, numeric=()):
        """children: None/[] = childless; else a callable that renders them."""
        a = self.attrs(attrs, numeric)
        if not children:
            if self.rng.random() < self.empty_form:
                self.out.append("<%s%s%s/>" % (name, a, self.rng.choice(["", " "])))
            else:
                self.out.append("<%s%s></%s>" % (name, a, name))
        else:
            self.out.append("<%s%s>" % (name, a))
            self.sep()
            children()
            self.out.append("</%s%s>" % (name, self.rng.choice(["", "", " "])))
        self.sep()

    def counter(self, typ, missed, covered):
        self.elem("counter", [("type", typ), ("missed", str(missed)), ("covered", str(covered))])

    def noise_counters(self, exclude=()):
        if not self.counters:
            return
        for t in CTYPES:
            if t not in exclude and self.rng.random() < 0.6:
                self.counter(t, self.rng.choice(NUMS), self.rng.choice(NUMS))

    def method(self, m):
        def body():
            items = [("METHOD", m["missed"], m["covered"])]
            if self.counters:
                for t in ["INSTRUCTION", "BRANCH", "LINE", "COMPLEXITY"]:
                    if self.rng.random() < 0.7:
                        items.append((t, self.rng.choice(NUMS), self.rng.choice(NUMS)))
            if self.shuffle_attrs:
                self.rng.shuffle(items)
            else:
                items = items[1:] + items[:1]      # JaCoCo's order: METHOD last
            for it in items:
                self.counter(*it)
        self.elem("method", [("name", m["name"]), ("desc", m["desc"]), ("line", str(m["line"]))], body)

    def klass(self, c):
        at = [("name", c["name"])]
        if c["sourcefilename"] is not None:
            at.append(("sourcefilename", c["sourcefilename"]))
        has_children = bool(c["methods"]) or self.counters

        def body():
            for m in c["methods"]:
                self.method(m)
            self.noise_counters()                    # class-level counters, including METHOD and CLASS
        self.elem("class", at, body if has_children else None)

    def sourcefile(self, sf):
        def body():
            for l in sf["lines"]:
                self.elem("line", [("nr", str(l["nr"])), ("mi", str(l["mi"])), ("ci", str(l["ci"])), ("mb", str(l["mb"])), ("cb", str(l["cb"]))],
                          numeric=("nr", "mi", "ci", "mb", "cb"))
            self.noise_counters()
        self.elem("sourcefile", [("name", sf["name"])], body if (sf["lines"] or self.counters) else None)

    def package(self, p):
        def body():
            for kind, i in p["order"]:
                if kind == "c":
                    self.klass(p["classes"][i])
                else:
                    self.sourcefile(p["sourcefiles"][i])
            self.noise_counters()
        self.elem("package", [("name", p["name"])], body if (p["order"] or self.counters) else None)

    def layout(self, report, items):
        for it in items:
            if isinstance(it, dict):
                def body(it=it):
                    self.layout(report, it["items"])
                    self.noise_counters()
                self.elem("group", [("name", it["group"])], body if (it["items"] or self.counters) else None)
            else:
                self.package(report["packages"][it])

    def report(self, report):
        rng = self.rng
        if rng.random() < 0.8:
            self.out.append('<?xml version="1.0" encoding="UTF-8" standalone="yes"?>')
        if rng.random() < 0.8:
            self.out.append('<!DOCTYPE report PUBLIC "-//JACOCO//DTD Report 1.1//EN" "report.dtd">')
        self.out.append(self.ws)

        def body():
            for i in range(report["sessions"]):
                self.elem("sessioninfo", [("id", "host-%d" % i), ("start", "1523002732292"), ("dump", "1523002732308")])
            self.layout(report, report["layout"])
            self.noise_counters()
        self.elem("report", [("name", "JaCoCo Coverage Report")], body)
        return "".join(self.out).encode("utf-8")


def render(rng, report, style=None):
    return Renderer(rng, style).report(report)


PLAIN = {"shuffle_attrs": False, "extra_attrs": False, "empty_form": 1.0, "ws": "", "comments": False, "counters": False, "single_quote": False}


def wf_report(report):
    """the property's domain: what a JaCoCo report looks like (names unique where JaCoCo makes them unique)."""
    for p in report["packages"]:
        if p["name"].startswith("/"):
            return False
        sfn = [s["name"] for s in p["sourcefiles"]]
        if len(set(sfn)) != len(sfn) or any(n == "" or n.startswith("/") for n in sfn):
            return False
        simple = [c["name"].split("/")[-1] for c in p["classes"]]
        if len(set(simple)) != len(simple):
            return False
        for c in p["classes"]:
            mn = [m["name"] for m in c["methods"]]
            if len(set(mn)) != len(mn):
                return False
        for s in p["sourcefiles"]:
            nr = [l["nr"] for l in s["lines"]]
            if len(set(nr)) != len(nr):
                return False
    return True


# ---------------------------------------------------------------------------
# malformed stream
# ---------------------------------------------------------------------------

BAD_TOKENS = [b"", b"-1", b"+1", b"+", b"01", b" 1", b"1 ", b"abc", b"1e3", b"4294967295", b"4294967296", b"18446744073709551615",
              b"18446744073709551616", b"9223372036854775808", b"&#49;", b"&bogus;", b"&", b"<", b">", b"\"", b"'", b"/", b"\xff", b"\xc3\xa9",
              b"<line/>", b"<counter/>", b"<counter type=\"METHOD\"/>", b"<method/>", b"<method name=\"m\"/>", b"<class/>", b"<sourcefile/>",
              b"<package/>", b"</package>", b"</class>", b"</method>", b"</sourcefile>", b"</report>", b"<x:line nr=\"1\" ci=\"1\" mb=\"0\" cb=\"0\"/>",
              b"<![CDATA[<line/>]]>", b"<!--", b"-->", b"<?", b"<!DOCTYPE", b" name=\"dup\" name=\"dup\"", b"METHOD", b"method", b"3000", b"5000"]


def mutate(rng, data):
    import re
    r = rng.random()
    if not data:
        return data
    if r < 0.30:
        # truncation: anywhere, or right after a '>' (between elements: the reader ends inside an open element)
        if rng.random() < 0.5:
            return data[:rng.randrange(0, len(data))]
        cuts = [m.end() for m in re.finditer(rb">", data)]
        return data[:rng.choice(cuts)] if cuts else data[:0]
    if r < 0.50:
        # replace one attribute value
        vals = list(re.finditer(rb'="([^"]*)"', data))
        if vals:
            m = rng.choice(vals)
            return data[:m.start(1)] + rng.choice(BAD_TOKENS) + data[m.end(1):]
    if r < 0.62:
        # drop one attribute
        ats = list(re.finditer(rb' [A-Za-z:]+="[^"]*"', data))
        if ats:
            m = rng.choice(ats)
            return data[:m.start()] + data[m.end():]
    if r < 0.72:
        # drop or duplicate one tag
        tags = list(re.finditer(rb"<[^>]*>", data))
        if tags:
            m = rng.choice(tags)
            if rng.random() < 0.6:
                return data[:m.start()] + data[m.end():]
            return data[:m.end()] + m.group(0) + data[m.end():]
    if r < 0.9:
        i = rng.randrange(0, len(data))
        j = min(len(data), i + rng.randrange(0, 4))
        return data[:i] + rng.choice(BAD_TOKENS) + data[j:]
    b = bytearray(data)
    for _ in range(rng.randrange(1, 4)):
        b[rng.randrange(len(b))] = rng.choice([0, 10, 32, 34, 38, 39, 47, 60, 62, 61, 200, 255, rng.randrange(256)])
    return bytes(b)


# ---------------------------------------------------------------------------
# harness event dump -> Gallina term
# ---------------------------------------------------------------------------

DICT = {b"package": "n_package", b"class": "n_class", b"sourcefile": "n_sourcefile", b"method": "n_method", b"counter": "n_counter",
        b"line": "n_line", b"name": "k_name", b"type": "k_type", b"covered": "k_covered", b"sourcefilename": "k_sourcefilename",
        b"ci": "k_ci", b"cb": "k_cb", b"mb": "k_mb", b"nr": "k_nr", b"METHOD": "v_METHOD"}
for _w in ["report", "group", "sessioninfo", "mi", "missed", "desc", "id", "start", "dump", "INSTRUCTION", "BRANCH", "LINE", "COMPLEXITY", "CLASS", "0", "1", "2", "5"]:
    DICT[_w.encode()] = "d_" + _w


def bytes_coq(b):
    if b in DICT:
        return DICT[b]
    if all(32 <= x < 127 and x != 34 for x in b):
        return '(bs "%s")' % b.decode("ascii")
    return "[" + "; ".join(str(x) for x in b) + "]"


def attr_coq(a):
    if a == "bad":
        return "ABad"
    k, raw, un = a
    if raw == un:
        return "A %s %s" % (bytes_coq(bytes.fromhex(k)), bytes_coq(bytes.fromhex(raw)))
    u = "None" if un is None else "(Some %s)" % bytes_coq(bytes.fromhex(un))
    return "AOk %s %s %s" % (bytes_coq(bytes.fromhex(k)), bytes_coq(bytes.fromhex(raw)), u)


def events_coq(evs):
    out = []
    for e in evs:
        t = e[0]
        if t == "S":
            out.append("S %s [%s]" % (bytes_coq(bytes.fromhex(e[1])), "; ".join(attr_coq(a) for a in e[2])))
        elif t == "E":
            out.append("E %s" % bytes_coq(bytes.fromhex(e[1])))
        elif t == "T":
            out.append("Text")
        elif t == "O":
            out.append("Other")
        elif t == "Z":
            out.append("Eof")
        elif t == "X":
            out.append("XmlErr")
        else:
            raise ValueError("unexpected event %r" % (e,))
    return vlib.Raw("[" + "; ".join(out) + "]")


def max_counter(evs):
    """largest cb/mb value readable in the dumped <line> attributes (to keep huge vectors out of vm_compute)."""
    mx = 0
    for e in evs:
        if e[0] == "S":
            for a in e[2]:
                if a != "bad" and bytes.fromhex(a[0]) in (b"cb", b"mb"):
                    raw = bytes.fromhex(a[1]).lstrip(b"+")
                    if raw.isdigit() and len(raw) < 40:
                        mx = max(mx, int(raw))
    return mx



def report_coq(rep):
    """report model -> Gallina jreport (Model/JacocoSpec.v)."""
    def b(s):
        return bytes_coq(s.encode("utf-8"))
    pk = []
    for p in rep["packages"]:
        ch = []
        for kind, i in p["order"]:
            if kind == "c":
                c = p["classes"][i]
                ms = "; ".join("mkM %s %d %d" % (b(m["name"]), m["line"], m["covered"]) for m in c["methods"])
                sfn = "None" if c["sourcefilename"] is None else "(Some %s)" % b(c["sourcefilename"])
                ch.append("JC (mkC %s %s [%s])" % (b(c["name"]), sfn, ms))
            else:
                s = p["sourcefiles"][i]
                ls = "; ".join("mkL %d %d %d %d %d" % (l["nr"], l["mi"], l["ci"], l["mb"], l["cb"]) for l in s["lines"])
                ch.append("JS (mkSF %s [%s])" % (b(s["name"]), ls))
        pk.append("mkP %s [%s]" % (b(p["name"]), "; ".join(ch)))
    return vlib.Raw("[" + "; ".join(pk) + "]")
