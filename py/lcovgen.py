"""lcov record-level generator, renderer, Coq term builder and reference semantics (C04/C05/C06)."""
import gen
from vlib import Raw, coq

U64 = 2**64 - 1
SKIP_KEYS = ["FNF", "FNH", "FNL", "FNA", "BRF", "BRH", "DAX", "SFX", "FNX", "B", "D", "FNDB", "BRDB"]
OTHER_LINES = ["TN:test", "TN:", "LF:3", "LH:2", "VER:1.2", "MCDC:3,2,t,1,0,'a'", "MCF:2", "MCH:1", "#comment", " indented",
               "0trailing", "xyz", "TN:café", "LH:0\r"]


def dig(rng, n):
    s = str(n)
    if rng.random() < 0.1:
        s = "0" * rng.randrange(1, 3) + s
    return s.encode()


def gen_rec(rng, lines, names, fn_declared):
    """returns a record tuple; names is the section's function-name pool; fn_declared tracks FN seen."""
    r = rng.random()
    if r < 0.30:
        return ("DA", dig(rng, rng.choice(lines)), dig(rng, gen.count(rng)))
    if r < 0.36:
        return ("DAneg", dig(rng, rng.choice(lines)), rng.choice([b"1", b"5", b"12", b"", b"x"]))
    if r < 0.50:
        cand = [n for n in names if n not in fn_declared]
        if cand:
            n = rng.choice(cand)
            fn_declared.append(n)
            return ("FN", dig(rng, rng.choice(lines)), n.encode())
    if r < 0.64:
        if fn_declared and rng.random() < 0.93:
            return ("FNDA", dig(rng, rng.choice([0, 0, 1, 2, 7, U64, 2**32, 2**63, 10 * 2**32, 2**32 + 1])), rng.choice(fn_declared).encode())
        if names and rng.random() < 0.5:
            # FNDA before (or without) its FN: the known-finding class
            return ("FNDA", dig(rng, 1), rng.choice(names).encode())
    if r < 0.86:
        t = rng.choice([None, None, b"0", b"00", b"1", b"2", b"10", b"100", b"05", str(U64).encode()])
        return ("BRDA", dig(rng, rng.choice(lines)), dig(rng, rng.choice([0, 0, 1, 2, 7])),
                dig(rng, rng.choice([0, 0, 1, 1, 2, 3, 5])), t)
    if r < 0.91:
        return ("Skip", rng.choice(SKIP_KEYS).encode(), rng.choice([b"", b"3", b"1,2", b"foo,bar"]))
    if r < 0.97:
        return ("Other", rng.choice(OTHER_LINES).encode())
    return ("Blank",)


def gen_section(rng, crlf_mode):
    lines = rng.sample(gen.LINES, rng.randrange(1, 5))
    names = rng.sample(gen.NAMES, rng.randrange(0, 4))
    declared = []
    recs = []
    for _ in range(rng.randrange(0, 14)):
        recs.append((gen_rec(rng, lines, names, declared), pick_eol(rng, crlf_mode)))
    if rng.random() < 0.5:
        rng.shuffle(recs)   # arbitrary order (may put FNDA before FN: known class)
    pre = []
    for _ in range(rng.randrange(0, 3)):
        pre.append(((rng.choice([("Other", rng.choice(OTHER_LINES).encode()), ("Blank",)])), pick_eol(rng, crlf_mode)))
    return {"pre": pre, "name": rng.choice(gen.PATHS).encode(), "name_crlf": pick_eol(rng, crlf_mode),
            "recs": recs, "end_crlf": pick_eol(rng, crlf_mode)}


def pick_eol(rng, mode):
    if mode == 0:
        return False
    if mode == 1:
        return True
    return rng.random() < 0.5


def gen_file(rng):
    mode = rng.choice([0, 0, 1, 2])
    secs = [gen_section(rng, mode) for _ in range(rng.choice([1, 1, 2, 3]))]
    trailer = []
    if rng.random() < 0.2:
        trailer.append((("Other", b"TN:trailing"), False))
    return {"sections": secs, "trailer": trailer}


def eol(c):
    return b"\r\n" if c else b"\n"


def render_rec(r, crlf):
    k = r[0]
    if k == "DA":
        b = b"DA:" + r[1] + b"," + r[2]
    elif k == "DAneg":
        b = b"DA:" + r[1] + b",-" + r[2]
    elif k == "FN":
        b = b"FN:" + r[1] + b"," + r[2]
    elif k == "FNDA":
        b = b"FNDA:" + r[1] + b"," + r[2]
    elif k == "BRDA":
        b = b"BRDA:" + r[1] + b"," + r[2] + b"," + r[3] + b"," + (r[4] if r[4] is not None else b"-")
    elif k == "Skip":
        b = r[1] + b":" + r[2]
    elif k == "Other":
        b = r[1]
    else:
        b = b""
    return b + eol(crlf)


def render_file(f):
    out = b""
    for s in f["sections"]:
        for r, c in s["pre"]:
            out += render_rec(r, c)
        out += b"SF:" + s["name"] + eol(s["name_crlf"])
        for r, c in s["recs"]:
            out += render_rec(r, c)
        out += b"end_of_record" + eol(s["end_crlf"])
    for r, c in f["trailer"]:
        out += render_rec(r, c)
    return out


def rec_coq(r):
    k = r[0]
    L = lambda b: coq(list(b))
    if k == "DA":
        return Raw("(RDA %s %s)" % (L(r[1]), L(r[2])))
    if k == "DAneg":
        return Raw("(RDAneg %s %s)" % (L(r[1]), L(r[2])))
    if k == "FN":
        return Raw("(RFN %s %s)" % (L(r[1]), L(r[2])))
    if k == "FNDA":
        return Raw("(RFNDA %s %s)" % (L(r[1]), L(r[2])))
    if k == "BRDA":
        t = "None" if r[4] is None else "(Some %s)" % L(r[4])
        return Raw("(RBRDA %s %s %s %s)" % (L(r[1]), L(r[2]), L(r[3]), t))
    if k == "Skip":
        return Raw("(RSkip %s %s)" % (L(r[1]), L(r[2])))
    if k == "Other":
        return Raw("(ROther %s)" % L(r[1]))
    return Raw("RBlank")


def file_coq(f):
    secs = []
    for s in f["sections"]:
        secs.append(Raw("(mkSection %s %s %s %s %s)" % (
            coq([(rec_coq(r), c) for r, c in s["pre"]]), coq(list(s["name"])), coq(s["name_crlf"]),
            coq([(rec_coq(r), c) for r, c in s["recs"]]), coq(s["end_crlf"]))))
    return Raw("(mkLfile %s %s)" % (coq(secs), coq([(rec_coq(r), c) for r, c in f["trailer"]])))


def known_fnda_first(s):
    seen = set()
    for r, _ in s["recs"]:
        if r[0] == "FN":
            seen.add(r[2])
        elif r[0] == "FNDA" and r[2] not in seen:
            return True
    return False


def ref_section(s, branch):
    """The property's reading of a section (Python, independent of model and code)."""
    lines, br, fns, fnda = {}, {}, {}, {}
    for r, _ in s["recs"]:
        k = r[0]
        if k == "DA":
            l = int(r[1])
            lines[l] = lines.get(l, 0) + int(r[2])
        elif k == "DAneg":
            l = int(r[1])
            lines[l] = lines.get(l, 0)
        elif k == "FN":
            fns.setdefault(r[2], int(r[1]))
        elif k == "FNDA":
            fnda[r[2]] = fnda.get(r[2], False) or int(r[1]) != 0
        elif k == "BRDA" and branch:
            l, n = int(r[1]), int(r[3])
            d = br.setdefault(l, {})
            d[n] = d.get(n, False) or (r[4] is not None and int(r[4]) > 0)
    return {
        "lines": sorted([l, min(c, U64)] for l, c in lines.items()),
        "branches": sorted([l, [d.get(i, False) for i in range(max(d) + 1)]] for l, d in br.items()),
        "funcs": sorted([[n.hex(), st, fnda.get(n, False)] for n, st in fns.items()], key=lambda x: bytes.fromhex(x[0])),
    }


def results_from_coq(v):
    """parsed show_results -> ('ok', [[hexname, cov]..]) | ('err',) | ('panic',) | ('fuel',)"""
    tag, rs = v
    if tag == 0:
        return ("ok", [[bytes(n).hex(), gen.cov_from_coq(c)] for n, c in rs])
    return (["ok", "err", "panic", "fuel"][tag],)


def results_from_impl(r):
    if "ok" in r:
        return ("ok", [[n, gen.cov_canon(c)] for n, c in r["ok"]])
    if "err" in r:
        return ("err",)
    if "panic" in r:
        return ("panic",)
    if "huge_branch_vector" in r:
        return ("huge", r["huge_branch_vector"])
    return ("crash", r)


import re as _re
_BRDA = _re.compile(rb"BRDA:(\d+),(\d+),(\d+)")


def huge_branch_number(data, limit=1 << 20):
    """known-finding class C14/lcov-branch-number-alloc: a BRDA record whose branch number (as the parser
    reads it: decimal, wrapped to u32) is so large that add_branch allocates a vector of that many slots"""
    for m in _BRDA.finditer(data):
        if int(m.group(3)) % (1 << 32) >= limit:
            return True
    return False


def model_unfriendly(data, limit=1 << 12):
    """inputs on which the Gallina model would build a giant branch vector too (it is faithful): any line that
    mentions BRDA and carries, after its first number, a decimal token whose u32 value is >= limit; lines are
    cut at LF only, so fields shifted by corruption are covered as well"""
    for line in data.split(b"\n"):
        i = line.find(b"BRDA")
        if i < 0:
            continue
        toks = _re.findall(rb"\d+", line[i:])
        for t in toks[1:]:
            if int(t) % (1 << 32) >= limit:
                return True
    return False
