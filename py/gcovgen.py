"""gcov intermediate formats (C09): coverage-model generator, text (gcov <= 7) and JSON (gcov >= 9)
serialisers, Coq term builders and the reference reading of the records (the property oracle)."""
import json
import math
import gen
from vlib import Raw, coq

U64 = 2**64 - 1
U32 = 2**32 - 1
KINDS = ["taken", "nottaken", "notexec"]
COUNTS = [0, 1, 2, 7, 2**32 - 1, 2**32, 2**32 + 1, 2**53 - 1, 2**53, 2**53 + 1, 2**54 + 1, 2**63 - 1, 2**63, 2**63 + 1, U64 - 1, U64]
LINES = [1, 2, 3, 4, 5, 7, 10, 100, 65536, 2**31, U32]
FNAMES = gen.NAMES + ["_ZN3FooIiE3barEv", "Foo<int, std::pair<a, b> >::bar(int, char)", "operator,", "f:g", "λ", "a\tb", "0"]
PATHS = gen.PATHS + ["/usr/include/c++/7/bits/stl_vector.h", "C:/x/y.c", "a:b.c", "x,y.c", "dir with space/é日本.cpp", "f"]
OTHER = [(b"version", b"7.3.0"), (b"version", b"4.9.2"), (b"File", b"a.c"), (b"lcounts", b"1,2"), (b" lcount", b"1,2"),
         (b"function ", b"x"), (b"cwd", b"/tmp/b"), (b"", b"empty key"), (b"foo", b""), (b"branches", b"1,taken"),
         (b"FILE", b"x:y"), (b"lcount\r", b"1,1")]

# ---------------------------------------------------------------- coverage model

def count(rng):
    r = rng.random()
    if r < 0.4:
        return rng.choice(COUNTS)
    if r < 0.8:
        return rng.randrange(0, 60)
    return rng.randrange(0, U64 + 1)


def gen_model(rng, max_files=3):
    """[{name, funcs:[{name,start,count}], lines:[{line,count,branches:[kind..]}]}]; names are bytes."""
    files = []
    for _ in range(rng.choice([1, 1, 2, 3][:max_files + 1])):
        nl = rng.choice([0, 1, 1, 2, 3, 5, 8])
        lines = []
        for ln in sorted(rng.sample(LINES, min(nl, len(LINES)))):
            nb = rng.choice([0, 0, 0, 1, 2, 3, 6])
            lines.append({"line": ln, "count": count(rng), "branches": [rng.choice(KINDS) for _ in range(nb)]})
        funcs = [{"name": n.encode(), "start": rng.choice(LINES), "count": rng.choice([0, 0, 1, 2, 9, 2**32, U64, count(rng)])}
                 for n in rng.sample(FNAMES, rng.choice([0, 1, 1, 2, 3]))]
        files.append({"name": rng.choice(PATHS).encode(), "funcs": funcs, "lines": lines})
    return files


_SHAPES = None


def shape_models():
    """fixed coverage models: {no, one, several} lines x {no, one, several} functions x branches, alone and in company"""
    global _SHAPES
    if _SHAPES is None:
        import copy
        ls = {0: [], 1: [{"line": 3, "count": 7, "branches": []}],
              2: [{"line": 1, "count": 0, "branches": ["taken", "nottaken"]}, {"line": 2, "count": 5, "branches": []},
                  {"line": 9, "count": 2**64 - 1, "branches": ["notexec"]}]}
        fs = {0: [], 1: [{"name": b"f", "start": 3, "count": 1}],
              2: [{"name": b"g<T, U>", "start": 1, "count": 0}, {"name": b"h", "start": 2, "count": 2**32}]}
        one = lambda a, b: {"name": b"s%d%d.c" % (a, b), "funcs": fs[b], "lines": ls[a]}
        singles = [[one(a, b)] for a in (0, 1, 2) for b in (0, 1, 2)]
        multi = [[one(a, b) for a in (0, 1, 2) for b in (0, 1, 2)],
                 [one(1, 0), one(0, 1), one(1, 1)],      # lines/no functions, functions/no lines, both
                 [one(0, 1), one(1, 0)], [one(0, 0), one(2, 0), one(0, 2)]]
        _SHAPES = singles + multi
    import copy
    # no sharing between the files of a model (the text serialiser rewrites counts it spells as negative)
    return [[copy.deepcopy(f) for f in m] for m in _SHAPES]


def ref_model(files):
    """what a coverage model says (files without lines omitted)."""
    out = []
    for f in files:
        if not f["lines"]:
            continue
        lines, br, fn = {}, {}, {}
        for l in f["lines"]:
            lines[l["line"]] = l["count"]
            if l["branches"]:
                br[l["line"]] = [k == "taken" for k in l["branches"]]
        for g in f["funcs"]:
            fn[g["name"]] = (g["start"], g["count"] != 0)
        out.append([f["name"].hex(), canon(lines, br, fn)])
    return out


def canon(lines, br, fn):
    return {"lines": sorted([l, c] for l, c in lines.items()),
            "branches": sorted([l, v] for l, v in br.items()),
            "funcs": sorted([[n.hex(), s, e] for n, (s, e) in fn.items()], key=lambda x: bytes.fromhex(x[0]))}


# ---------------------------------------------------------------- text form: records

def dig(rng, n, zeros=0.08):
    s = str(n)
    if rng.random() < zeros:
        s = "0" * rng.randrange(1, 3) + s
    return s.encode()


def text_report(rng, files):
    """model -> report {pre:[(rec,crlf)], sections:[{name,crlf,recs:[(rec,crlf)]}]} in gcov's order
    (functions, then per line lcount followed by its branch records), with the format's variations."""
    mode = rng.choice([0, 0, 0, 1, 2])
    eol = lambda: False if mode == 0 else True if mode == 1 else rng.random() < 0.5
    pre = []
    if rng.random() < 0.5:
        pre.append((("other", b"version", rng.choice([b"7.3.0", b"5.4.0", b"4.9"])), eol()))
    secs = []
    for f in files:
        recs = []
        for g in f["funcs"]:
            if rng.random() < 0.2:
                # old gcov prints a call counter above 2^63 through a signed type: a negative number, which is NOT zero
                g["count"] = rng.choice([2**63, 2**63 + 1, U64, U64 - 4, rng.randrange(2**63, 2**64)])
                recs.append(("function", dig(rng, g["start"]), str(g["count"] - 2**64).encode(), g["name"]))
            else:
                recs.append(("function", dig(rng, g["start"]), str(g["count"]).encode(), g["name"]))
        for l in f["lines"]:
            c = l["count"]
            if rng.random() < 0.12:
                # a negative count (gcov overflow artefact) reads as 0
                recs.append(("lcount", dig(rng, l["line"]), True, rng.choice([b"1", b"5", b"9223372036854775808", b"0"])))
                l["count"] = 0
            else:
                recs.append(("lcount", dig(rng, l["line"]), False, dig(rng, c, 0.05)))
            for k in l["branches"]:
                recs.append(("branch", dig(rng, l["line"]), k))
        for _ in range(rng.choice([0, 0, 0, 1, 2])):
            k, t = rng.choice(OTHER)
            recs.insert(rng.randrange(len(recs) + 1), ("other", k, t))
        if rng.random() < 0.15:
            # record order is not part of the format's meaning (the branch records of a line keep their order)
            keyed = [(rng.random(), x) for x in recs if x[0] != "branch"]
            brs_ = [x for x in recs if x[0] == "branch"]
            recs = [x for _, x in sorted(keyed, key=lambda t: t[0])]
            for b in brs_:
                pos = [i for i, x in enumerate(recs) if x[0] == "branch"]
                recs.insert(rng.randrange((pos[-1] + 1) if pos else 0, len(recs) + 1), b)
        secs.append({"name": f["name"], "crlf": eol(), "recs": [(x, eol()) for x in recs]})
    return {"pre": pre, "sections": secs}


def gen_text_report(rng):
    """a report built directly from records (duplicates, orphans, arbitrary order)."""
    mode = rng.choice([0, 0, 1, 2])
    eol = lambda: False if mode == 0 else True if mode == 1 else rng.random() < 0.5
    pre = [((("other",) + rng.choice(OTHER)), eol()) for _ in range(rng.choice([0, 0, 1, 2]))]
    secs = []
    for _ in range(rng.choice([0, 1, 1, 2, 3])):
        lines = rng.sample(LINES, rng.randrange(1, 4))
        names = rng.sample(FNAMES, rng.randrange(0, 3))
        recs = []
        for _ in range(rng.randrange(0, 12)):
            r = rng.random()
            if r < 0.35:
                if rng.random() < 0.15:
                    recs.append(("lcount", dig(rng, rng.choice(lines)), True, rng.choice([b"1", b"12", b"0", b"007"])))
                else:
                    recs.append(("lcount", dig(rng, rng.choice(lines)), False, dig(rng, count(rng))))
            elif r < 0.65:
                recs.append(("branch", dig(rng, rng.choice(lines)), rng.choice(KINDS)))
            elif r < 0.85 and names:
                recs.append(("function", dig(rng, rng.choice(LINES)), str(rng.choice([0, 0, 1, 5, U64, 10**25, -1, -5, -2**63, -10**25])).encode(),
                             rng.choice(names).encode()))
            else:
                recs.append(("other",) + rng.choice(OTHER))
        secs.append({"name": rng.choice(PATHS).encode(), "crlf": eol(), "recs": [(x, eol()) for x in recs]})
    return {"pre": pre, "sections": secs}


def eolb(c):
    return b"\r\n" if c else b"\n"


def render_rec(r):
    k = r[0]
    if k == "function":
        return b"function:" + r[1] + b"," + r[2] + b"," + r[3]
    if k == "lcount":
        return b"lcount:" + r[1] + b"," + (b"-" if r[2] else b"") + r[3]
    if k == "branch":
        return b"branch:" + r[1] + b"," + r[2].encode()
    return r[1] + b":" + r[2]


def render_report(f):
    out = b""
    for r, c in f["pre"]:
        out += render_rec(r) + eolb(c)
    for s in f["sections"]:
        out += b"file:" + s["name"] + eolb(s["crlf"])
        for r, c in s["recs"]:
            out += render_rec(r) + eolb(c)
    return out


def rec_coq(r):
    L = lambda b: coq(list(b))
    k = r[0]
    if k == "function":
        return Raw("(GFunction %s %s %s)" % (L(r[1]), L(r[2]), L(r[3])))
    if k == "lcount":
        return Raw("(GLcount %s %s %s)" % (L(r[1]), coq(r[2]), L(r[3])))
    if k == "branch":
        return Raw("(GBranch %s %s)" % (L(r[1]), {"taken": "BTaken", "nottaken": "BNotTaken", "notexec": "BNotExec"}[r[2]]))
    return Raw("(GOther %s %s)" % (L(r[1]), L(r[2])))


def report_coq(f):
    secs = [Raw("(mkGSection %s %s %s)" % (coq(list(s["name"])), coq(s["crlf"]), coq([(rec_coq(r), c) for r, c in s["recs"]])))
            for s in f["sections"]]
    return Raw("(mkGReport %s %s)" % (coq([(rec_coq(r), c) for r, c in f["pre"]]), coq(secs)))


def ref_report(f):
    """The property's reading of a text report (Python, independent of model and code)."""
    out = []
    for s in f["sections"]:
        lines, br, fn = {}, {}, {}
        for r, _ in s["recs"]:
            if r[0] == "lcount":
                lines[int(r[1])] = 0 if r[2] else int(r[3])
            elif r[0] == "branch":
                br.setdefault(int(r[1]), []).append(r[2] == "taken")
            elif r[0] == "function":
                fn[r[3]] = (int(r[1]), int(r[2]) != 0)
        if lines:
            out.append([s["name"].hex(), canon(lines, br, fn)])
    return out


# ---------------------------------------------------------------- JSON form

def float_parts(x):
    """binary64 -> (neg, mant, exp2) with x = (-1)^neg * mant * 2^exp2 exactly, as the harness prints it."""
    import struct
    bits = struct.unpack(">Q", struct.pack(">d", x))[0]
    neg = bits >> 63 == 1
    e = (bits >> 52) & 0x7FF
    frac = bits & ((1 << 52) - 1)
    if e == 0:
        return (neg, frac, -1074)
    return (neg, frac | (1 << 52), e - 1075)


def num_of_token(tok):
    """what serde_json::Number holds for a JSON number token: ('u', n) | ('i', n<0) | ('f', neg, mant, exp2)."""
    t = tok
    if all(ch in "-0123456789" for ch in t):
        v = int(t)
        if t.startswith("-"):
            if v == 0:
                return ("f",) + float_parts(-0.0)
            if v >= -2**63:
                return ("i", v)
        elif v <= U64:
            return ("u", v)
    x = float(t)
    if math.isinf(x):
        return None      # "number out of range"
    return ("f",) + float_parts(x)


def num_from_harness(v):
    if "u" in v:
        return ("u", int(v["u"]))
    if "i" in v:
        return ("i", int(v["i"]))
    neg, m, e = v["f"]
    return ("f", bool(neg), int(m), int(e))


def num_coq(n):
    if n[0] == "u":
        return Raw("(JU %d)" % n[1])
    if n[0] == "i":
        return Raw("(JI %d)" % (-n[1]))
    return Raw("(JF %s %d (%d)%%Z)" % (coq(n[1]), n[2], n[3]))


def num_value(n):
    """exact value as a Fraction"""
    from fractions import Fraction
    if n[0] in ("u", "i"):
        return Fraction(n[1])
    v = Fraction(n[2]) * (Fraction(2) ** n[3])
    return -v if n[1] else v


def spell(rng, v, floats=0.25):
    """a JSON token for the non-negative integer v: integer literal, or (when v is exactly a binary64 value)
    a floating-point spelling of that value."""
    if rng.random() >= floats or float(v) != v or int(float(v)) != v:
        return str(v)
    r = rng.random()
    if r < 0.3 and v < 10**15:
        return "%d.0" % v
    if r < 0.5 and v < 10**15:
        return "%d.000e0" % v
    if r < 0.65 and v % 1000 == 0 and v > 0:
        return "%de3" % (v // 1000)
    if r < 0.8 and v < 10**14:
        return "%d.0E-1" % (v * 10)
    return repr(float(v)).replace("e+", rng.choice(["e+", "e", "E"]))


def split_count(rng, c, k):
    """k non-negative integers; their sum is c, or - when c is 2^64-1 - sometimes MORE than c (the clamp is what the line says)"""
    if c == U64 and rng.random() < 0.8:
        if k == 2:
            return list(rng.choice([[U64, 1], [2**63, 2**63], [1, U64], [U64, 0], [U64, U64]]))
        return list(rng.choice([[2**63, 2**63 - 1, 5], [U64, U64, U64], [U64 - 1, 0, 2], [0, U64, 0], [2**63, 1, 2**63]]))
    cuts = sorted(rng.randrange(0, c + 1) for _ in range(k - 1))
    parts = [b_ - a_ for a_, b_ in zip([0] + cuts, cuts + [c])]
    if rng.random() < 0.3:
        parts = [0] * (k - 1) + [c]        # f never ran, g did (or the converse)
        rng.shuffle(parts)
    return parts


def json_tree(rng, files, floats=0.25, dups=True):
    """model -> tree with number TOKENS (strings), the shape gcov 9+ writes.  With dups, a line of the model is often
    listed in 2-3 entries (one per function sharing it, different "function_name"s, interleaved with the entries of
    other lines): the entries' counts sum to the line's count and their branch lists concatenate to its branch list."""
    tree = []
    for f in files:
        funs = []
        for g in f["funcs"]:
            funs.append({"name": "_Z" + g["name"].hex(), "demangled_name": g["name"], "start_line": str(g["start"]),
                         "execution_count": spell(rng, g["count"], floats)})
        groups = []
        for l in f["lines"]:
            brs = []
            for k in l["branches"]:
                c = 0 if k != "taken" else rng.choice([1, 1, 2, 2**32, 2**53, U64, count(rng) or 1])
                brs.append(spell(rng, c, floats))
            k = rng.choice([2, 2, 3]) if dups and rng.random() < 0.4 else 1
            counts = split_count(rng, l["count"], k) if k > 1 else [l["count"]]
            k = len(counts)
            # consecutive chunks of the branch list (some empty: an entry without branches next to one with)
            cuts = sorted(rng.randrange(0, len(brs) + 1) for _ in range(k - 1))
            chunks = [brs[a_:b_] for a_, b_ in zip([0] + cuts, cuts + [len(brs)])]
            names = rng.sample(["f", "g", "_ZN1AIiE1fEv", "_ZN1AIcE1fEv", None, "main"], k)
            groups.append([{"line_number": str(l["line"]), "count": spell(rng, c, floats), "branches": ch, "function_name": nm}
                           for c, ch, nm in zip(counts, chunks, names)])
        # interleave the entries of different lines, keeping the order of the entries of each line
        lines = []
        if rng.random() < 0.5:
            for g in groups:
                lines += g
        else:
            pending = [list(g) for g in groups]
            while any(pending):
                g = rng.choice([p for p in pending if p])
                lines.append(g.pop(0))
        tree.append({"file": f["name"], "functions": funs, "lines": lines})
    return tree


def jstr(rng, b):
    return json.dumps(b.decode("utf-8"), ensure_ascii=rng.random() < 0.3)


def render_json(rng, tree, drop=None, version="1"):
    """tree -> JSON text as gcov writes it (all fields of the serde structs present, plus extras)."""
    files = []
    for f in tree:
        funs = []
        for g in f["functions"]:
            funs.append('{"blocks": 3, "blocks_executed": 2, "demangled_name": %s, "end_column": 1, "end_line": 9, '
                        '"execution_count": %s, "name": %s, "start_column": 5, "start_line": %s}'
                        % (jstr(rng, g["demangled_name"]), g["execution_count"], json.dumps(g["name"]), g["start_line"]))
        lines = []
        for l in f["lines"]:
            brs = ['{"count": %s, "fallthrough": %s, "throw": false}' % (b, rng.choice(["true", "false"])) for b in l["branches"]]
            if "function_name" in l:
                fname = "" if l["function_name"] is None else '"function_name": %s, ' % json.dumps(l["function_name"])
            else:
                fname = "" if rng.random() < 0.3 else '"function_name": "f", '
            extra = '"calls": [], ' if rng.random() < 0.2 else ""
            lines.append('{"branches": [%s], %s"count": %s, %s"line_number": %s, "unexecuted_block": %s}'
                         % (", ".join(brs), extra, l["count"], fname, l["line_number"], rng.choice(["true", "false"])))
        files.append('{"file": %s, "functions": [%s], "lines": [%s]}' % (jstr(rng, f["file"]), ", ".join(funs), ", ".join(lines)))
    cwd = "" if rng.random() < 0.2 else '"current_working_directory": "/b", '
    return ('{"gcc_version": "9.3.0", %s"data_file": "a.gcda", "format_version": %s, "files": [%s]}'
            % (cwd, json.dumps(version), ", ".join(files)))


def tree_nums(tree):
    """token tree -> tree of serde_json numbers (None if some token is out of range)."""
    out = []
    for f in tree:
        funs = [{"demangled_name": g["demangled_name"], "start_line": num_of_token(g["start_line"]),
                 "execution_count": num_of_token(g["execution_count"])} for g in f["functions"]]
        lines = [{"line_number": num_of_token(l["line_number"]), "count": num_of_token(l["count"]),
                  "branches": [num_of_token(b) for b in l["branches"]]} for l in f["lines"]]
        out.append({"file": f["file"], "functions": funs, "lines": lines})
    return out


def tree_from_harness(t):
    if t is None:
        return None
    out = []
    for f in t:
        funs = [{"demangled_name": bytes.fromhex(g["demangled_name"]), "start_line": num_from_harness(g["start_line"]),
                 "execution_count": num_from_harness(g["execution_count"])} for g in f["functions"]]
        lines = [{"line_number": num_from_harness(l["line_number"]), "count": num_from_harness(l["count"]),
                  "branches": [num_from_harness(b) for b in l["branches"]]} for l in f["lines"]]
        out.append({"file": bytes.fromhex(f["file"]), "functions": funs, "lines": lines})
    return out


def tree_coq(t):
    files = []
    for f in t:
        funs = [Raw("(mkJFun %s %s %s)" % (coq(list(g["demangled_name"])), num_coq(g["start_line"]), num_coq(g["execution_count"])))
                for g in f["functions"]]
        lines = [Raw("(mkJLine %s %s %s)" % (num_coq(l["line_number"]), num_coq(l["count"]), coq([num_coq(b) for b in l["branches"]])))
                 for l in f["lines"]]
        files.append(Raw("(mkJFile %s %s %s)" % (coq(list(f["file"])), coq(funs), coq(lines))))
    return coq(files)


def ref_counter(tok):
    """The property's reading of a counter token: the integer it denotes (an integer literal denotes itself, a
    floating-point literal denotes the binary64 value it stands for); None = does not fit 64 bits / not a count."""
    from fractions import Fraction
    if all(ch in "-0123456789" for ch in tok):
        v = Fraction(int(tok))
    else:
        x = float(tok)
        if math.isinf(x) or math.isnan(x):
            return None
        v = Fraction(x)
    if v < 0 or v > U64 or v.denominator != 1:
        return None
    return int(v)


def ref_tree(tree):
    """The property's reading of a JSON token tree; None when some counter must be rejected."""
    out = []
    for f in tree:
        lines, br, fn = {}, {}, {}
        for l in f["lines"]:
            n = int(l["line_number"])
            c = ref_counter(l["count"])
            bs = [ref_counter(b) for b in l["branches"]]
            if c is None or None in bs:
                return None
            # a line listed several times (once per function containing it) ran as often as all its entries
            # together (what 64 bits can hold of it), and has the branches of every entry, in entry order
            lines[n] = min(lines.get(n, 0) + c, U64)
            if bs:
                br.setdefault(n, []).extend(b > 0 for b in bs)
        for g in f["functions"]:
            c = ref_counter(g["execution_count"])
            if c is None:
                return None
            fn[g["demangled_name"]] = (int(g["start_line"]), c != 0)
        if lines:
            out.append([f["file"].hex(), canon(lines, br, fn)])
    return out


# ---------------------------------------------------------------- results

def results_from_coq(v):
    tag, rs = v
    if tag == 0:
        return ("ok", [[bytes(n).hex(), gen.cov_from_coq(c)] for n, c in rs])
    return (["ok", "err", "panic", "fuel"][tag],)


def results_from_impl(r):
    if "ok" in r:
        return ("ok", [[n, gen.cov_canon(c)] for n, c in r["ok"]])
    if "err" in r:
        return ("err",)
    if "panic" in r:
        return ("panic",)
    return ("crash", r)


# ---------------------------------------------------------------- reading existing reports (fixtures)

def read_text_report(data):
    """bytes of an intermediate text report -> report structure (strict gcov <= 7 grammar), or None."""
    import re
    pre, secs = [], []
    for raw in data.split(b"\n")[:-1] if data.endswith(b"\n") else data.split(b"\n"):
        crlf = raw.endswith(b"\r")
        l = raw[:-1] if crlf else raw
        if l.endswith(b"\r") or b":" not in l:
            return None
        key, val = l.split(b":", 1)
        if key == b"file":
            secs.append({"name": val, "crlf": crlf, "recs": []})
            continue
        if key == b"function":
            m = re.fullmatch(rb"(\d+),(0|-?[1-9]\d*),(.*)", val, re.S)
            rec = ("function", m.group(1), m.group(2), m.group(3)) if m else None
        elif key == b"lcount":
            m = re.fullmatch(rb"(\d+),(-?)(\d+)", val)
            rec = ("lcount", m.group(1), m.group(2) == b"-", m.group(3)) if m else None
        elif key == b"branch":
            m = re.fullmatch(rb"(\d+),(taken|nottaken|notexec)", val)
            rec = ("branch", m.group(1), m.group(2).decode()) if m else None
        else:
            rec = ("other", key, val)
        if rec is None:
            return None
        if rec[0] != "other" and (int(rec[1]) > U32 or (rec[0] == "lcount" and not rec[2] and int(rec[3]) > U64)):
            return None
        if secs:
            secs[-1]["recs"].append((rec, crlf))
        elif rec[0] == "other":
            pre.append((rec, crlf))
        else:
            return None
    return {"pre": pre, "sections": secs}


def ref_json_value(v):
    """reference reading of a parsed (Python json) gcov JSON report"""
    out = []
    for f in v["files"]:
        lines, br, fn = {}, {}, {}
        for l in f["lines"]:
            c = int(l["count"])
            assert c == l["count"] and 0 <= c <= U64
            lines[l["line_number"]] = min(lines.get(l["line_number"], 0) + c, U64)
            if l["branches"]:
                br.setdefault(l["line_number"], []).extend(b["count"] > 0 for b in l["branches"])
        for g in f["functions"]:
            fn[g["demangled_name"].encode()] = (g["start_line"], g["execution_count"] != 0)
        if lines:
            out.append([f["file"].encode().hex(), canon(lines, br, fn)])
    return out
