"""C09 - gcov report fidelity (intermediate text, gzip JSON).
Proofs + parse_gcov / parse_gcov_gz correspondence (well-formed, boundary and malformed streams)
+ the property's own reading of the records evaluated on the implementation."""
import gzip
import json
import os
import vlib, gen, gcovgen as G

U64 = 2**64 - 1
TWO64_TOKENS = ["18446744073709551616", "1.8446744073709552e19", "18446744073709551617", "18446744073709552000", "18446744073709551616.0"]
TEXT_PANIC_WITNESS = b"lcount:1,1\n"


def is_utf8(b):
    try:
        b.decode("utf-8")
        return True
    except UnicodeDecodeError:
        return False


def known_map(chk):
    return {e["key"]: e for e in vlib.known_findings(chk.pid) if e.get("status") == "known"}


def model_err(rm):
    return isinstance(rm, tuple) and rm and rm[0] == "@@ERROR"


# ------------------------------------------------------------------ text: well-formed

def run_text_wf(chk, n):
    rng = chk.rng
    reports = []
    for i in range(n):
        if i < len(G.shape_models()):
            files = G.shape_models()[i]
            reports.append((G.text_report(rng, files), files))
        elif i % 2 == 0:
            files = G.gen_model(rng)
            rep = G.text_report(rng, files)
            reports.append((rep, files))
        else:
            reports.append((G.gen_text_report(rng), None))
    reports += [(r, None) for r in corpus_reports()]
    cases = [{"hex": G.render_report(r).hex()} for r, _ in reports]
    exprs = [vlib.app("run_gcov_spec", G.report_coq(r)) for r, _ in reports]
    impl = vlib.run_impl("gcov_text", cases, chk.pid, parallel=4)
    model = vlib.run_model(chk.pid, "Run.ShowGcov", exprs)
    dist = {"reports": len(reports), "sections": 0, "records": 0, "sections_without_lines": 0, "sections_with_lines_without_functions": 0, "negative_counts": 0, "crlf_lines": 0,
            "unknown_keys": 0, "negative_function_counts": 0, "max_count": 0, "branch_records": 0, "function_records": 0, "dup_lcount_sections": 0,
            "names_with_comma": 0, "non_ascii_names": 0}
    dis = []
    for (rep, files), case, ri, rm in zip(reports, cases, impl, model):
        chk.count()
        data = bytes.fromhex(case["hex"])
        if model_err(rm):
            dis.append({"case": case, "model": rm})
            continue
        mbytes, mwf, mparsed, mspec = rm
        if bytes(mbytes) != data:
            dis.append({"case": case, "what": "render_greport differs from the driver's rendering", "model_bytes": bytes(mbytes).hex()})
            continue
        if not mwf:
            dis.append({"case": case, "what": "generated report is not wf_greport in the model", "text": data.decode("latin-1")})
            continue
        a = G.results_from_impl(ri)
        m = G.results_from_coq(mparsed)
        # (1) model of the parser vs implementation
        if a[0] != m[0] or (a[0] == "ok" and vlib.canon(a[1]) != vlib.canon(m[1])):
            dis.append({"case": case, "impl": a, "model": m, "text": data.decode("latin-1")})
        # (2) the property, evaluated on the implementation
        ref = G.ref_report(rep)
        if files is not None and vlib.canon(G.ref_model(files)) != vlib.canon(ref):
            dis.append({"case": case, "what": "driver: reading of the records differs from the coverage model they were written from",
                        "ref_records": ref, "ref_model": G.ref_model(files)})
            continue
        if a[0] != "ok" or vlib.canon(a[1]) != vlib.canon(ref):
            chk.violation({"kind": "oracle", "engine": "gcov_text", "case": case, "text": data.decode("latin-1"), "impl": a, "expected": ref,
                           "clause": "parse_gcov of a well-formed intermediate text report must yield exactly what the records say"}, tag="text")
            continue
        # (3) the Coq spec agrees with the driver's reference
        sp = [[bytes(nm).hex(), gen.cov_from_coq(c)] for nm, c in mspec]
        if vlib.canon(sp) != vlib.canon(ref):
            dis.append({"case": case, "what": "Coq greport_denote differs from the driver's reference", "spec": sp, "ref": ref})
            continue
        chk.nontrivial(case)
        chk.sample({"gcov_text": data.decode("latin-1")[:300], "result": a[1][:1]}, limit=2)
        dist["sections"] += len(rep["sections"])
        for s in rep["sections"]:
            recs = [r for r, _ in s["recs"]]
            dist["records"] += len(recs)
            lc = [r for r in recs if r[0] == "lcount"]
            dist["sections_without_lines"] += not lc
            dist["sections_with_lines_without_functions"] += bool(lc) and not any(r[0] == "function" for r in recs)
            dist["negative_counts"] += sum(1 for r in lc if r[2])
            dist["dup_lcount_sections"] += len({int(r[1]) for r in lc}) != len(lc)
            dist["crlf_lines"] += sum(1 for _, c in s["recs"] if c)
            dist["unknown_keys"] += sum(1 for r in recs if r[0] == "other")
            dist["branch_records"] += sum(1 for r in recs if r[0] == "branch")
            dist["function_records"] += sum(1 for r in recs if r[0] == "function")
            dist["negative_function_counts"] += sum(1 for r in recs if r[0] == "function" and r[2].startswith(b"-"))
            dist["names_with_comma"] += sum(1 for r in recs if r[0] == "function" and b"," in r[3])
            dist["non_ascii_names"] += sum(1 for r in recs if r[0] == "function" and max(r[3], default=0) > 127) + (max(s["name"], default=0) > 127)
            for r in lc:
                if not r[2]:
                    dist["max_count"] = max(dist["max_count"], int(r[3]))
    return dist, dis, [r for r, _ in reports]


def corpus_reports():
    p = os.path.join(vlib.VERIF, "corpus", "C09", "text_reports.json")
    if not os.path.exists(p):
        return []
    out = []
    for f in json.load(open(p)):
        dec = lambda r: tuple(bytes.fromhex(x[1:]) if isinstance(x, str) and x.startswith("#") else x for x in r)
        out.append({"pre": [(dec(r), c) for r, c in f["pre"]],
                    "sections": [{"name": bytes.fromhex(s["name"]), "crlf": s["crlf"], "recs": [(dec(r), c) for r, c in s["recs"]]} for s in f["sections"]]})
    return out


# ------------------------------------------------------------------ text: numbers that do not fit

def run_text_overflow(chk, reports, n):
    rng = chk.rng
    big = [2**64, 2**64 + 1, 2**64 + 5, 10**20, 2**65, 2**70, 2**128 + 3, 10**40, 184467440737095516150]
    big32 = [2**32, 2**32 + 1, 2**33, 10**10, 2**64]
    cands = [r for r in reports if any(x[0] == "lcount" and not x[2] for s in r["sections"] for x, _ in s["recs"])]
    cases, exprs, whats = [], [], []
    for _ in range(n):
        rep = json_copy(rng.choice(cands))
        slots = [(si, ri) for si, s in enumerate(rep["sections"]) for ri, (x, _) in enumerate(s["recs"])
                 if x[0] in ("lcount", "function", "branch") and not (x[0] == "lcount" and x[2])]
        si, ri = rng.choice(slots)
        x, c = rep["sections"][si]["recs"][ri]
        if x[0] == "lcount" and rng.random() < 0.7:
            x = ("lcount", x[1], False, str(rng.choice(big)).encode())
            what = "lcount count >= 2^64"
        else:
            x = (x[0], str(rng.choice(big32)).encode()) + tuple(x[2:])
            what = x[0] + " line number >= 2^32"
        rep["sections"][si]["recs"][ri] = (x, c)
        data = G.render_report(rep)
        cases.append({"hex": data.hex()})
        exprs.append(vlib.app("run_gcov_text", list(data)))
        whats.append(what)
    impl = vlib.run_impl("gcov_text", cases, chk.pid, parallel=4)
    model = vlib.run_model(chk.pid, "Run.ShowGcov", exprs)
    dis, stat = [], {}
    for case, what, ri, rm in zip(cases, whats, impl, model):
        chk.count()
        a = G.results_from_impl(ri)
        stat[what + " -> " + a[0]] = stat.get(what + " -> " + a[0], 0) + 1
        if a[0] != "err":
            chk.violation({"kind": "oracle", "engine": "gcov_text", "case": case, "text": bytes.fromhex(case["hex"]).decode("latin-1"), "impl": a,
                           "clause": "a number that does not fit (" + what + ") must be rejected, never wrapped or truncated"}, tag="ovf")
            continue
        if model_err(rm) or G.results_from_coq(rm)[0] != "err":
            dis.append({"case": case, "impl": a, "model": rm})
            continue
        chk.nontrivial(case)
    return stat, dis


def json_copy(rep):
    return {"pre": list(rep["pre"]), "sections": [{"name": s["name"], "crlf": s["crlf"], "recs": list(s["recs"])} for s in rep["sections"]]}


# ------------------------------------------------------------------ text: malformed

TEXT_TOKENS = [b"", b"-", b"0", b"+", b",", b":", b"\n", b"\r", b"\r\n", b"\n\n", b"file:", b"file", b"function:", b"lcount:", b"branch:",
               b"lcount:1,1\n", b"taken", b"nottaken", b"18446744073709551616", b"4294967296", b"99999999999999999999999", b"+5", b"-5", b" 5",
               b"5 ", b"\xff", b"\xc3", b"1,", b",1", b"::", b"lcount:+3,+4\n", b"function:1,0\n", b"branch:1\n", b"lcount:1,\n", b"file:x\n"]


def mutate_text(rng, data):
    r = rng.random()
    if not data:
        return rng.choice(TEXT_TOKENS)
    if r < 0.3:
        return data[:rng.randrange(0, len(data))]
    if r < 0.4:
        # drop the leading records (possibly the first file: line)
        ls = data.split(b"\n")
        k = rng.randrange(0, len(ls))
        return b"\n".join(ls[k:])
    if r < 0.75:
        i = rng.randrange(0, len(data))
        j = min(len(data), i + rng.randrange(0, 4))
        return data[:i] + rng.choice(TEXT_TOKENS) + data[j:]
    b = bytearray(data)
    for _ in range(rng.randrange(1, 4)):
        b[rng.randrange(len(b))] = rng.choice([0, 10, 13, 43, 44, 45, 48, 58, 102, 108, 200, 255, rng.randrange(256)])
    return bytes(b)


def run_text_mal(chk, reports, n):
    rng = chk.rng
    datas = [TEXT_PANIC_WITNESS, b"", b"\n", b"file:a", b"file:a\nlcount:1,1", b"file:a\r\n\r\nlcount:1,1\n", b"version:7\nfunction:1,1,f\nbranch:1,taken\n",
             b"lcount:1,1\nfile:a\n", b"lcount:1,1\nfile:a\nlcount:2,2\n", b"file:a\nlcount:1,-\nlcount:2,-x\nlcount:3,+0\nlcount:4,00\n",
             b"file:a\nfunction:+1,00,f\nfunction:2,-1,g\nlcount:1,1\n", b"file:a\nbranch:1,taken\r\r\n\nlcount:1,1", b"file:\xff\xfe\nlcount:1,1\n"]
    while len(datas) < n:
        d = mutate_text(rng, G.render_report(rng.choice(reports)))
        if rng.random() < 0.3:
            d = mutate_text(rng, d)
        datas.append(d)
    cases = [{"hex": d.hex()} for d in datas]
    exprs = [vlib.app("run_gcov_text", list(d)) for d in datas]
    impl = vlib.run_impl("gcov_text", cases, chk.pid, parallel=4)
    model = vlib.run_model(chk.pid, "Run.ShowGcov", exprs)
    classes, dis = {}, []
    for d, case, ri, rm in zip(datas, cases, impl, model):
        chk.count()
        a = G.results_from_impl(ri)
        key = a[0] + ("" if is_utf8(d) else " (non-UTF-8 input)")
        classes[key] = classes.get(key, 0) + 1
        if model_err(rm):
            dis.append({"case": case, "model": rm})
            continue
        m = G.results_from_coq(rm)
        if a[0] != m[0] or (a[0] == "ok" and vlib.canon(a[1]) != vlib.canon(m[1])):
            dis.append({"case": case, "impl": a, "model": m, "text": d.decode("latin-1")})
            continue
        if a[0] in ("panic", "crash"):
            chk.violation({"kind": "oracle", "engine": "gcov_text", "case": case, "text": d.decode("latin-1"), "impl": a,
                           "clause": "a malformed text report must give a result or an error, never a panic"}, tag="mal")
            continue
        chk.nontrivial(case)
    return classes, dis


# ------------------------------------------------------------------ JSON

def run_json_cases(chk, items, label):
    """items: (json text | None, raw hex | None, token tree | None).  Returns rows (item, impl, harness tree, model result)."""
    cases = [({"json": t} if t is not None else {"hex": h}) for t, h, _ in items]
    impl = vlib.run_impl("gcov_json", cases, chk.pid, parallel=4)
    trees = [G.tree_from_harness(r.get("tree")) if isinstance(r, dict) else None for r in impl]
    idx = [i for i, t in enumerate(trees) if t is not None]
    model = vlib.run_model(chk.pid, "Run.ShowGcov", [vlib.app("run_gcov_json", Raw_(G.tree_coq(trees[i]))) for i in idx]) if idx else []
    mm = dict(zip(idx, model))
    return [(items[i], cases[i], impl[i], trees[i], mm.get(i)) for i in range(len(items))]


def Raw_(s):
    return vlib.Raw(s)


def json_correspond(case, a, tree, rm):
    """model (from the tree serde_json produced) vs implementation; None when they agree."""
    if rm is None:
        return None
    if model_err(rm):
        return {"case": case, "model": rm}
    m = G.results_from_coq(rm)
    if a[0] != m[0] or (a[0] == "ok" and vlib.canon(a[1]) != vlib.canon(m[1])):
        return {"case": case, "impl": a, "model": m}
    return None


def run_json_wf(chk, n):
    rng = chk.rng
    items, models = [], []
    for i in range(n):
        # the first reports are fixed shapes: every combination of {no, one, several} line entries x {no, one, several} functions
        # x {no, some} branches, alone and next to other files (a file with lines and "functions": [] must be reported,
        # one with functions and "lines": [] must not)
        files = G.shape_models()[i] if i < len(G.shape_models()) else G.gen_model(rng)
        tree = G.json_tree(rng, files, floats=rng.choice([0.0, 0.25, 0.6]))
        items.append((G.render_json(rng, tree, version=rng.choice(["1", "1", "2"])), None, tree))
        models.append(files)
    rows = run_json_cases(chk, items, "wf")
    dist = {"reports": n, "files": 0, "files_without_lines": 0, "files_with_lines_without_functions": 0, "files_with_functions_without_lines": 0, "line_entries": 0, "duplicate_line_entries": 0, "lines_listed_in_several_entries": 0, "lines_whose_entries_sum_over_u64": 0, "lines_with_branches_in_several_entries": 0, "branch_entries": 0,
            "function_entries": 0, "float_counter_tokens": 0, "max_counter": 0, "serde_float_differs_from_correct_rounding": 0}
    dis = []
    for ((text, _, tree), case, ri, htree, rm), files in zip(rows, models):
        chk.count()
        a = G.results_from_impl(ri)
        exp_tree = G.tree_nums(tree)
        if htree is None:
            dis.append({"case": case, "what": "harness could not read the tree of a generated JSON report", "impl": a})
            continue
        if htree != exp_tree:
            if same_but_floats(htree, exp_tree):
                dist["serde_float_differs_from_correct_rounding"] += 1
                d = json_correspond(case, a, htree, rm)
                if d:
                    dis.append(d)
                elif "json-float-counter-ulp" in known_map(chk):
                    chk.known(known_map(chk)["json-float-counter-ulp"])
                else:
                    chk.violation({"kind": "oracle", "engine": "gcov_json", "case": case, "impl": a, "expected": G.ref_tree(tree),
                                   "clause": "a floating-point counter must be read as the binary64 value it denotes"}, tag="json")
                continue
            dis.append({"case": case, "what": "driver's reading of the JSON numbers differs from serde_json's", "harness_tree": str(htree)[:600], "driver_tree": str(exp_tree)[:600]})
            continue
        d = json_correspond(case, a, htree, rm)
        if d:
            dis.append(d)
        ref = G.ref_tree(tree)
        if vlib.canon(ref) != vlib.canon(G.ref_model(files)):
            dis.append({"case": case, "what": "driver: reading of the JSON tree differs from the coverage model it was written from"})
            continue
        if a[0] != "ok" or vlib.canon(a[1]) != vlib.canon(ref):
            chk.violation({"kind": "oracle", "engine": "gcov_json", "case": case, "impl": a, "expected": ref,
                           "clause": "parse_gcov_gz of a well-formed JSON report must yield exactly what the report says"}, tag="json")
            continue
        if not d:
            chk.nontrivial(case)
            chk.sample({"gcov_json": text[:300], "result": a[1][:1]}, limit=4)
        dist["files"] += len(tree)
        for f in tree:
            dist["files_without_lines"] += not f["lines"]
            dist["files_with_lines_without_functions"] += bool(f["lines"]) and not f["functions"]
            dist["files_with_functions_without_lines"] += bool(f["functions"]) and not f["lines"]
            dist["line_entries"] += len(f["lines"])
            dist["duplicate_line_entries"] += len(f["lines"]) - len({l["line_number"] for l in f["lines"]})
            by = {}
            for l in f["lines"]:
                by.setdefault(l["line_number"], []).append(l)
            for es in by.values():
                if len(es) > 1:
                    dist["lines_listed_in_several_entries"] += 1
                    dist["lines_whose_entries_sum_over_u64"] += sum(G.ref_counter(e["count"]) for e in es) > U64
                    dist["lines_with_branches_in_several_entries"] += sum(1 for e in es if e["branches"]) > 1
            dist["function_entries"] += len(f["functions"])
            toks = [g["execution_count"] for g in f["functions"]] + [l["count"] for l in f["lines"]] + [b for l in f["lines"] for b in l["branches"]]
            dist["branch_entries"] += sum(len(l["branches"]) for l in f["lines"])
            dist["float_counter_tokens"] += sum(1 for t in toks if not t.isdigit())
            dist["max_counter"] = max([dist["max_counter"]] + [G.ref_counter(t) for t in toks])
    return dist, dis


def same_but_floats(t1, t2):
    """trees equal except that some float numbers differ (both floats)"""
    def nums(t):
        for f in t:
            yield ("s", f["file"])
            for g in f["functions"]:
                yield ("s", g["demangled_name"]); yield g["start_line"]; yield g["execution_count"]
            for l in f["lines"]:
                yield l["line_number"]; yield l["count"]; yield ("n", len(l["branches"]))
                for b in l["branches"]:
                    yield b
    a, b = list(nums(t1)), list(nums(t2))
    if len(a) != len(b):
        return False
    return all(x == y or (x is not None and y is not None and x[0] == "f" and y[0] == "f") for x, y in zip(a, b))


BOUNDARY_TOKENS = (TWO64_TOKENS +
                   ["18446744073709551615", "18446744073709551614", "9223372036854775808", "9.223372036854775808e18", "18446744073709549568.0",
                    "1.8446744073709550e19", "18446744073709555000", "1.8446744073709556e19", "36893488147419103232", "1e20", "1e300", "1e308",
                    "-1", "-5", "-0", "-0.0", "-1e-5", "-9223372036854775808", "-9223372036854775809", "-1e30", "0.0", "5.0", "1e3", "1E3", "1e+3",
                    "28259282275385470e1", "26314695940532365e2", "0.5", "1.5", "0.9999", "1e-400", "4.9e-324", "2.5e0", "4503599627370497.5", "100000000000000000000e-2", "4294967296", "4294967295.0"])
U32_TOKENS = ["4294967295", "4294967296", "0", "5.0", "-1", "1e3", "18446744073709551616"]


def counter_slots(tree):
    s = []
    for fi, f in enumerate(tree):
        for gi, g in enumerate(f["functions"]):
            s.append(("functions", fi, gi, "execution_count"))
        for li, l in enumerate(f["lines"]):
            s.append(("lines", fi, li, "count"))
            for bi in range(len(l["branches"])):
                s.append(("lines", fi, li, ("branches", bi)))
    return s


def run_json_boundary(chk, n):
    """one counter (or u32 field) of a well-formed report replaced by a boundary token"""
    rng = chk.rng
    known = known_map(chk)
    items, meta = [], []
    pool = list(BOUNDARY_TOKENS)
    while len(items) < n:
        files = G.gen_model(rng, max_files=2)
        tree = G.json_tree(rng, files, floats=0.1, dups=False)
        slots = counter_slots(tree)
        if not slots:
            continue
        k = len(items)
        if k % 5 == 4:
            # u32 fields (serde's own range/type check): correspondence only
            cands = [("lines", fi, li, "line_number") for fi, f in enumerate(tree) for li in range(len(f["lines"]))] + \
                    [("functions", fi, gi, "start_line") for fi, f in enumerate(tree) for gi in range(len(f["functions"]))]
            sec, fi, i, field = rng.choice(cands)
            tok = rng.choice(U32_TOKENS)
            tree[fi][sec][i][field] = tok
            kind = "u32"
        else:
            sec, fi, i, field = rng.choice(slots)
            tok = pool[k % len(pool)] if k < 3 * len(pool) else rng.choice(pool)
            if isinstance(field, tuple):
                tree[fi][sec][i]["branches"][field[1]] = tok
            else:
                tree[fi][sec][i][field] = tok
            kind = "counter"
        items.append((G.render_json(rng, tree), None, tree))
        meta.append((kind, tok))
    rows = run_json_cases(chk, items, "boundary")
    stat, dis = {}, []
    for ((text, _, tree), case, ri, htree, rm), (kind, tok) in zip(rows, meta):
        chk.count()
        a = G.results_from_impl(ri)
        if htree is not None:
            d = json_correspond(case, a, htree, rm)
            if d:
                d["token"] = tok
                dis.append(d)
                continue
        if kind == "u32":
            stat["u32 field " + tok + " -> " + a[0]] = stat.get("u32 field " + tok + " -> " + a[0], 0) + 1
            chk.nontrivial(case)
            continue
        if htree is not None and htree != G.tree_nums(tree) and same_but_floats(htree, G.tree_nums(tree)):
            # serde_json (built without float_roundtrip) read another binary64 than the correctly rounded one
            stat["float token read one ulp off by serde_json -> " + a[0]] = stat.get("float token read one ulp off by serde_json -> " + a[0], 0) + 1
            if "json-float-counter-ulp" in known:
                chk.known(known["json-float-counter-ulp"])
            else:
                chk.violation({"kind": "oracle", "engine": "gcov_json", "case": case, "token": tok, "impl": a,
                               "clause": "a floating-point counter must be read as the binary64 value it denotes"}, tag="jbound")
            continue
        x = None if G.num_of_token(tok) is None else G.num_value(G.num_of_token(tok))
        # what the token says
        if x is not None and x >= 0 and x.denominator != 1:
            cls = "fractional (outside the property: correspondence only)"
        elif G.ref_counter(tok) is not None:
            cls = "fits"
        elif x is not None and x == 2**64:
            cls = "binary64 value 2^64"
        else:
            cls = "does not fit"
        stat[cls + " -> " + a[0]] = stat.get(cls + " -> " + a[0], 0) + 1
        if cls == "fits":
            ref = G.ref_tree(tree)
            if a[0] != "ok" or vlib.canon(a[1]) != vlib.canon(ref):
                chk.violation({"kind": "oracle", "engine": "gcov_json", "case": case, "token": tok, "impl": a, "expected": ref,
                               "clause": "a counter that fits 64 bits must be read exactly"}, tag="jbound")
                continue
        elif cls in ("does not fit", "binary64 value 2^64"):
            if a[0] != "err":
                chk.violation({"kind": "oracle", "engine": "gcov_json", "case": case, "token": tok, "impl": a,
                               "clause": "a counter that does not fit 64 bits (or is negative) must be rejected with an error: not clamped, not wrapped, not a panic"}, tag="jbound")
                continue
        chk.nontrivial(case)
    return stat, dis


def mutate_json(rng, text):
    r = rng.random()
    if r < 0.3:
        return text[:rng.randrange(0, len(text))]
    if r < 0.5:
        # drop a required field
        k = rng.choice(['"file"', '"functions"', '"lines"', '"line_number"', '"count"', '"branches"', '"unexecuted_block"', '"demangled_name"',
                        '"execution_count"', '"start_line"', '"format_version"', '"gcc_version"', '"data_file"', '"files"', '"throw"', '"blocks"'])
        return text.replace(k, '"x_' + k[1:], 1)
    if r < 0.8:
        toks = ['""', "null", "true", "[]", "{}", "-1", "1.5", '"5"', "18446744073709551616", "1e999", ",", "}", "]", "\x00", "NaN", "Infinity", "0x10", "01"]
        i = rng.randrange(0, len(text))
        j = min(len(text), i + rng.randrange(0, 5))
        return text[:i] + rng.choice(toks) + text[j:]
    return text + rng.choice(["x", "{}", ",", " \n", "\x00"])


def run_json_mal(chk, n):
    rng = chk.rng
    known = known_map(chk)
    items = [(None, b"not gzip at all".hex(), None), (None, b"".hex(), None), ("", None, None), ("{", None, None), ("[]", None, None),
             ("{}", None, None), ('{"files": []}', None, None)]
    good = gzip.compress(G.render_json(rng, G.json_tree(rng, G.gen_model(rng))).encode())
    items += [(None, good[:k].hex(), None) for k in (1, 5, 10, len(good) // 2, len(good) - 9, len(good) - 1)]
    items += [(None, (good[:12] + bytes([good[12] ^ 0x55]) + good[13:]).hex(), None), (None, (good[:-6] + b"\0\0\0\0\0\0").hex(), None)]
    while len(items) < n:
        text = G.render_json(rng, G.json_tree(rng, G.gen_model(rng, max_files=2)))
        items.append((mutate_json(rng, text), None, None))
    rows = run_json_cases(chk, items, "mal")
    classes, dis = {}, []
    for (item, case, ri, htree, rm) in rows:
        chk.count()
        a = G.results_from_impl(ri)
        classes[a[0]] = classes.get(a[0], 0) + 1
        if a[0] == "crash":
            chk.violation({"kind": "oracle", "engine": "gcov_json", "case": case, "impl": a, "clause": "process died"}, tag="jmal")
            continue
        if a[0] == "panic":
            chk.violation({"kind": "oracle", "engine": "gcov_json", "case": case, "impl": a,
                           "clause": "a malformed gzip/JSON report must give an error, never a panic"}, tag="jmal")
            continue
        if a[0] == "ok":
            # accepted although mutated: then the tree must be readable and the model must agree
            if htree is None:
                dis.append({"case": case, "what": "implementation accepts a report whose tree the harness cannot read", "impl": a})
                continue
            d = json_correspond(case, a, htree, rm)
            if d:
                dis.append(d)
                continue
        chk.nontrivial(case)
    return classes, dis


def run_fixtures(chk):
    """the reports shipped with grcov's tests: implementation vs model vs an independent strict reading"""
    import glob
    tdir = os.path.join(vlib.REPO, "test")
    stat, dis = {}, []
    texts = []
    for p in sorted(glob.glob(os.path.join(tdir, "*.gcov"))):
        whole = open(p, "rb").read()
        if G.read_text_report(whole) is None:
            stat[os.path.basename(p)] = "not in the intermediate text grammar (skipped)"
            continue
        # large fixtures are cut into reports of <= 25 kB (a Coq list literal of more bytes overflows coqc's stack): at `file:`
        # lines, and inside a longer section by repeating its `file:` line in front of the continuation
        chunks, cur, cur_file = [], b"", b""
        for line in whole.split(b"\n")[:-1]:
            line += b"\n"
            if line.startswith(b"file:"):
                cur_file = line
                if len(cur) + len(line) > 25000:
                    chunks.append(cur)
                    cur = b""
            elif len(cur) + len(line) > 25000:
                chunks.append(cur)
                cur = cur_file
            cur += line
        chunks.append(cur)
        if chk.tier == "quick":
            chunks = chunks[:3]
        for i, data in enumerate(chunks):
            rep = G.read_text_report(data)
            texts.append((os.path.basename(p) + ("#%d" % i if len(chunks) > 1 else ""), data, rep))
    cases = [{"hex": d.hex()} for _, d, _ in texts]
    impl = vlib.run_impl("gcov_text", cases, chk.pid)
    model = vlib.run_model(chk.pid, "Run.ShowGcov", [vlib.app("run_gcov_text", list(d)) for _, d, _ in texts], shard_size=1)
    for (nm, data, rep), case, ri, rm in zip(texts, cases, impl, model):
        chk.count()
        a = G.results_from_impl(ri)
        if G.render_report(rep) != data:
            dis.append({"fixture": nm, "what": "driver: strict reading of the fixture does not render back to its bytes"})
            continue
        ref = G.ref_report(rep)
        if model_err(rm) or G.results_from_coq(rm)[0] != a[0] or (a[0] == "ok" and vlib.canon(G.results_from_coq(rm)[1]) != vlib.canon(a[1])):
            dis.append({"fixture": nm, "impl": str(a)[:500], "model": str(rm)[:500]})
            continue
        if a[0] != "ok" or vlib.canon(a[1]) != vlib.canon(ref):
            chk.violation({"kind": "oracle", "engine": "gcov_text", "fixture": nm, "case": {"hex": data.hex()} if len(data) < 20000 else None,
                           "impl": str(a)[:2000], "expected": ref if len(data) < 20000 else None,
                           "clause": "fixture report must be read exactly as its records say"}, tag="fix")
            continue
        stat[nm] = "ok: %d bytes, %d sections, %d records" % (len(data), len(rep["sections"]), sum(len(s["recs"]) for s in rep["sections"]))
        chk.nontrivial({"fixture": nm})
    for p in sorted(glob.glob(os.path.join(tdir, "*.gcov.json.gz"))):
        nm = os.path.basename(p)
        text = gzip.decompress(open(p, "rb").read()).decode("utf-8")
        rows = run_json_cases(chk, [(text, None, None)], "fixture")
        (_, case, ri, htree, rm) = rows[0]
        chk.count()
        a = G.results_from_impl(ri)
        ref = G.ref_json_value(json.loads(text))
        d = json_correspond({"fixture": nm}, a, htree, rm)
        if htree is None or d:
            dis.append(d or {"fixture": nm, "what": "harness could not read the tree"})
            continue
        if a[0] != "ok" or vlib.canon(a[1]) != vlib.canon(ref):
            chk.violation({"kind": "oracle", "engine": "gcov_json", "fixture": nm, "impl": str(a)[:2000],
                           "clause": "fixture JSON report must be read exactly as it says"}, tag="fix")
            continue
        stat[nm] = "ok: %d bytes of JSON, %d files, %d line entries" % (len(text), len(htree), sum(len(f["lines"]) for f in htree))
        chk.nontrivial({"fixture": nm})
    return stat, dis


def confirm_witnesses(chk):
    """corpus: the witnesses of the three defects fixed in /repo (79d6ea6, 61ca3c1, 31d3a3d) must now give the right answer;
    the witness of the remaining known finding is re-confirmed"""
    known = known_map(chk)
    out = {}
    rng = chk.rng

    def corpus(key, engine, case, want, clause):
        r = vlib.run_impl(engine, [case], chk.pid)[0]
        a = G.results_from_impl(r)
        chk.count()
        out[key] = a[0]
        if a[0] != want:
            chk.violation({"kind": "oracle", "engine": engine, "case": case, "impl": a, "clause": clause}, tag="corpus")

    corpus("fixed 31d3a3d: lcount without file", "gcov_text", {"hex": TEXT_PANIC_WITNESS.hex()}, "err",
           "a malformed text report must give a result or an error, never a panic")
    # a function whose call count is printed negative (counter above 2^63 in old gcov) was called: negative-is-zero holds for lines only
    case = {"hex": b"file:a.c\nfunction:1,-5,f\nfunction:2,0,g\nfunction:3,-9223372036854775808,h\nlcount:1,-5\nlcount:2,1\n".hex()}
    a = G.results_from_impl(vlib.run_impl("gcov_text", [case], chk.pid)[0])
    chk.count()
    want = [[b"a.c".hex(), G.canon({1: 0, 2: 1}, {}, {b"f": (1, True), b"g": (2, False), b"h": (3, True)})]]
    out["negative call count is non-zero"] = "ok" if a[0] == "ok" and vlib.canon(a[1]) == vlib.canon(want) else str(a)[:200]
    if a[0] != "ok" or vlib.canon(a[1]) != vlib.canon(want):
        chk.violation({"kind": "oracle", "engine": "gcov_text", "case": case, "text": bytes.fromhex(case["hex"]).decode(), "impl": a, "expected": want,
                       "clause": "a function is executed iff its call count is non-zero (a negative call count is non-zero; only line counts read negative as 0)"}, tag="corpus")
    for tok in TWO64_TOKENS:
        tree = [{"file": b"a.c", "functions": [], "lines": [{"line_number": "1", "count": tok, "branches": []}]}]
        corpus("fixed 79d6ea6: count " + tok, "gcov_json", {"json": G.render_json(rng, tree)}, "err",
               "a counter that does not fit 64 bits must be rejected with an error: not clamped, not wrapped, not a panic")
    corpus("fixed 61ca3c1: not gzip", "gcov_json", {"hex": b"not gzip".hex()}, "err", "a malformed gzip/JSON report must give an error, never a panic")
    corpus("fixed 61ca3c1: count -1", "gcov_json",
           {"json": G.render_json(rng, [{"file": b"a.c", "functions": [], "lines": [{"line_number": "1", "count": "-1", "branches": []}]}])}, "err",
           "a counter that does not fit 64 bits (or is negative) must be rejected with an error: not clamped, not wrapped, not a panic")
    # repaired C20/gcov-json-line-in-several-functions: `int f(..){..} int g(..){..}` on line 1, f run 3 times, g never;
    # gcov lists line 1 once for f and once for g: the line ran 3 times and has the four branch outcomes of both
    tree = [{"file": b"two.c",
             "functions": [{"name": "f", "demangled_name": b"f", "start_line": "1", "execution_count": "3"},
                           {"name": "g", "demangled_name": b"g", "start_line": "1", "execution_count": "0"}],
             "lines": [{"line_number": "1", "count": "3", "branches": ["3", "0"], "function_name": "f"},
                       {"line_number": "1", "count": "0", "branches": ["0", "0"], "function_name": "g"}]}]
    case = {"json": G.render_json(rng, tree)}
    a = G.results_from_impl(vlib.run_impl("gcov_json", [case], chk.pid)[0])
    chk.count()
    want = [[b"two.c".hex(), G.canon({1: 3}, {1: [True, False, False, False]}, {b"f": (1, True), b"g": (1, False)})]]
    out["fixed: line listed for two functions (3 + 0)"] = "ok" if a[0] == "ok" and vlib.canon(a[1]) == vlib.canon(want) else str(a)[:200]
    if a[0] != "ok" or vlib.canon(a[1]) != vlib.canon(want):
        chk.violation({"kind": "oracle", "engine": "gcov_json", "case": case, "impl": a, "expected": want,
                       "clause": "a line listed once per function sharing it has the sum of the entries' counts and the branches of every entry, in entry order"}, tag="corpus")
    # the remaining known finding: the report below says line 1 of a.c ran 28259282275385470e1 times; the binary64 that literal
    # denotes is 282592822753854688, serde_json without float_roundtrip reads 282592822753854720
    tree = [{"file": b"a.c", "functions": [{"name": "f", "demangled_name": b"f()", "start_line": "1", "execution_count": "1"}],
             "lines": [{"line_number": "1", "count": "28259282275385470e1", "branches": []}]}]
    case = {"json": G.render_json(rng, tree)}
    a = G.results_from_impl(vlib.run_impl("gcov_json", [case], chk.pid)[0])
    chk.count()

    def expect(count):
        return [[b"a.c".hex(), G.canon({1: count}, {}, {b"f()": (1, True)})]]
    exact, off = expect(int(float("28259282275385470e1"))), expect(282592822753854720)
    if a[0] == "ok" and vlib.canon(a[1]) == vlib.canon(off):
        out["known json-float-counter-ulp"] = "reproduces"
        if "json-float-counter-ulp" in known:
            chk.known(known["json-float-counter-ulp"])
        else:
            chk.violation({"kind": "oracle", "engine": "gcov_json", "case": case, "impl": a, "expected": exact,
                           "clause": "a floating-point counter must be read as the binary64 value it denotes"}, tag="corpus")
    elif a[0] == "ok" and vlib.canon(a[1]) == vlib.canon(exact):
        # the defect is gone (e.g. float_roundtrip enabled): nothing to suppress, nothing to report
        out["known json-float-counter-ulp"] = "no longer reproduces (witness is now read exactly)"
        vlib.log("[C09] known finding json-float-counter-ulp no longer reproduces: its witness is read exactly")
    else:
        out["known json-float-counter-ulp"] = "witness gives neither the recorded nor the exact reading"
        chk.violation({"kind": "oracle", "engine": "gcov_json", "case": case, "impl": a, "expected": exact,
                       "clause": "parse_gcov_gz of a well-formed JSON report must yield exactly what the report says "
                                 "(witness of known finding json-float-counter-ulp: neither the recorded off-by-one-ulp reading nor the exact one)"}, tag="corpus")
    return out


def run(chk):
    chk.proofs()
    q = chk.tier == "quick"
    wit = confirm_witnesses(chk)
    fix, dis0 = run_fixtures(chk)
    dist_t, dis1, reports = run_text_wf(chk, 400 if q else 6000)
    ovf, dis2 = run_text_overflow(chk, reports, 120 if q else 1500)
    cls_t, dis3 = run_text_mal(chk, reports, 400 if q else 8000)
    dist_j, dis4 = run_json_wf(chk, 250 if q else 4000)
    bnd, dis5 = run_json_boundary(chk, 200 if q else 2500)
    cls_j, dis6 = run_json_mal(chk, 120 if q else 2000)
    for d in (dis0 + dis1 + dis2 + dis3 + dis4 + dis5 + dis6)[:3]:
        d.update({"kind": "correspondence", "engine": "gcov_text/gcov_json",
                  "theorems_at_stake": "C09_* (Model/GcovText.v or Model/GcovJson.v no longer describes parse_gcov / parse_gcov_gz, or Model/GcovSpec.v the generator)"})
        chk.violation(d, has_input=False, tag="corr")
    chk.extra["corpus_and_known_finding_witnesses"] = wit
    chk.extra["fixtures"] = fix
    chk.extra["text_distribution"] = dist_t
    chk.extra["text_overflow_outcomes"] = ovf
    chk.extra["text_malformed_outcomes"] = cls_t
    chk.extra["json_distribution"] = dist_j
    chk.extra["json_boundary_outcomes"] = bnd
    chk.extra["json_malformed_outcomes"] = cls_j
    chk.cov["rule"] = ("text well-formed: reports written from random coverage models in gcov's order and reports built directly from records "
                       "(duplicate/orphan/reordered records, negative counts, leading zeros, CRLF, unknown keys, sections without lines, names with "
                       "commas/colons/template brackets/UTF-8): implementation vs Gallina parse_gcov vs Gallina greport_denote vs the driver's reading; "
                       "text overflow: one number replaced by a value >= 2^64 (counts) or >= 2^32 (line numbers), must be Err in both; text malformed: "
                       "truncations, dropped leading records, token substitutions, byte flips (incl. non-UTF-8), implementation vs model on outcome class "
                       "and results; JSON well-formed: the same models as gzip JSON with integer and binary64 spellings of the counters and lines listed "
                       "in 2-3 entries (different function_name, with and without branches, sums crossing 2^64-1, interleaved with other lines), implementation vs Gallina model fed with the tree serde_json produced (checked equal to the driver's tree) vs the driver's "
                       "reading; JSON boundary: one counter or u32 field replaced by a boundary token; JSON malformed: truncated/corrupted gzip and JSON, "
                       "missing fields (outcome classes; an accepted mutant must agree with the model). non-trivial = agreed on every comparison made for "
                       "the case; distinct by input bytes")
    chk.cov["trusted_base"] = ["Coq 8.16.1 kernel; vm_compute for the correspondence", "std++ gmap", "impl_run harness, Python generators/renderers/reference",
                               "flate2 (gzip) and serde_json/serde derive (tokenising, number parsing, struct field matching) are NOT modelled: the JSON model starts "
                               "from the value tree that serde_json::Value parsing of the same text produced (reported by the harness, compared with the driver's tree)",
                               "BufRead::read_until / remove_newline / str::splitn / str::parse are transcribed by hand; from_utf8_unchecked on non-UTF-8 lines is "
                               "formally UB in Rust and is modelled as byte-wise (observed to agree)"]
    chk.assumptions = ["text form: the grammar of gcov <= 7 (function:start,count,name ; lcount:line,count ; branch:line,kind); gcov 8's extra fields are outside the property",
                       "a floating-point JSON counter denotes the binary64 value serde_json reads; serde_json's float parser is trusted (deviations from correct rounding are counted, not judged)",
                       "several entries for one line in a JSON file object (gcov lists a line once per function containing it): the line's count is the sum of the entries' counts clamped at 2^64-1 and its branches are the entries' branches in entry order; two functions under one demangled name: the later stands",
                       "recorded known finding: a floating-point JSON counter above 2^53 may be read one ulp off (serde_json without float_roundtrip); the 2^64 clamp, the parse_gcov_gz unwrap and the parse_gcov lcount-without-file panic are fixed (79d6ea6, 61ca3c1, 31d3a3d) and their witnesses are corpus cases"]


def replay(chk, path):
    r = json.load(open(path))
    case = r.get("case")
    if not case:
        chk.proofs()
        return
    chk.count()
    if "json" in case or r.get("engine") == "gcov_json":
        rows = run_json_cases(chk, [(case.get("json"), case.get("hex"), None)], "replay")
        (_, _, ri, htree, rm) = rows[0]
        a = G.results_from_impl(ri)
        d = json_correspond(case, a, htree, rm)
        if d:
            chk.violation(dict(d, kind="correspondence"), has_input=False, tag="replay")
        if "expected" in r and (a[0] != "ok" or vlib.canon(a[1]) != vlib.canon(r["expected"])):
            chk.violation({"kind": "oracle", "case": case, "impl": a, "expected": r["expected"], "clause": r.get("clause")}, tag="replay")
        elif "expected" not in r and "clause" in r and "rejected" in r["clause"] and a[0] == "ok":
            chk.violation({"kind": "oracle", "case": case, "impl": a, "clause": r["clause"]}, tag="replay")
    else:
        impl = vlib.run_impl("gcov_text", [case], chk.pid)
        model = vlib.run_model(chk.pid, "Run.ShowGcov", [vlib.app("run_gcov_text", list(bytes.fromhex(case["hex"])))])
        a = G.results_from_impl(impl[0])
        m = G.results_from_coq(model[0]) if not model_err(model[0]) else ("model-error",)
        if a[0] != m[0] or (a[0] == "ok" and vlib.canon(a[1]) != vlib.canon(m[1])):
            chk.violation({"kind": "correspondence", "case": case, "impl": a, "model": m}, has_input=False, tag="replay")
        if "expected" in r and (a[0] != "ok" or vlib.canon(a[1]) != vlib.canon(r["expected"])):
            chk.violation({"kind": "oracle", "case": case, "impl": a, "expected": r["expected"], "clause": r.get("clause")}, tag="replay")
        elif "expected" not in r and "clause" in r and (("rejected" in r["clause"] and a[0] != "err") or ("never a panic" in r["clause"] and a[0] == "panic")):
            chk.violation({"kind": "oracle", "case": case, "impl": a, "clause": r["clause"]}, tag="replay")
