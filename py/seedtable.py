"""Regenerates the seeded-change table of DESIGN.md section 11.5 from seeded/*/meta.json."""
import glob, json, os, re
V = os.path.dirname(os.path.dirname(os.path.abspath(__file__)))
rows = []
for f in sorted(glob.glob(os.path.join(V, "seeded", "*", "meta.json"))):
    m = json.load(open(f))
    rows.append("| %s | %s | %s | %s |" % (m["id"], m["change"].replace("|", "\\|"), m["needs_to_manifest"].replace("|", "\\|"),
                                          "; ".join(m["caught_by"]).replace("|", "\\|") or "not a violation on the current tree (see meta.json)"))
table = "| change | what | needs | caught by |\n|---|---|---|---|\n" + "\n".join(rows) + "\n"
p = os.path.join(V, "DESIGN.md")
s = open(p).read()
a = s.index("<!-- seedtable:begin -->") + len("<!-- seedtable:begin -->\n")
b = s.index("<!-- seedtable:end -->")
open(p, "w").write(s[:a] + table + s[b:])
print(len(rows), "rows")
