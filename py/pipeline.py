"""Runtime side of C02 / C07: run the grcov CLI (hooks on) on generated input sets, turn the hook
event log into a label sequence of the pipeline LTS (Model/Pipeline.v) and have Coq replay it."""
import os, random, shutil, subprocess, zipfile
import vlib, gen, lcovgen

FNV_OFF, FNV_PRIME, M64 = 0xcbf29ce484222325, 0x100000001b3, 2**64 - 1


def fnv(data):
    h = FNV_OFF
    for b in data:
        h ^= b
        h = (h * FNV_PRIME) & M64
    return h


def content_key(data):
    return "%016x#%d" % (fnv(data), len(data))


def make_info(rng, idx, paths, marker=None, malformed=False, agree_starts=False, branch_only=0.0, repeat_sf=0.3, fn_only=0.15):
    """a small unique lcov file about 1-2 of the shared source paths"""
    out = "TN:item%d%s\n" % (idx, (" " + marker) if marker else "")
    chosen = rng.sample(paths, rng.randrange(1, min(3, len(paths)) + 1))
    if rng.random() < repeat_sf:
        # the same file described by two records of one tracefile (legal lcov: e.g. two test names)
        chosen.append(rng.choice(chosen))
    for p in chosen:
        out += "SF:%s\n" % p
        if rng.random() < branch_only:
            # a record that carries branch data only (no DA, no FN): legal lcov
            for l in sorted(rng.sample(range(1, 9), rng.randrange(1, 3))):
                for n in range(rng.randrange(1, 4)):
                    out += "BRDA:%d,0,%d,%s\n" % (l, n, rng.choice(["-", "1", "4"]))
            out += "end_of_record\n"
            continue
        if rng.random() < fn_only:
            # a record that names functions only (FN / FNDA, no DA, no BRDA): legal lcov
            for f in rng.sample(["f", "g", "h", "café", "2,3#origin", "10,20,scale"], rng.randrange(1, 3)):
                out += "FN:%d,%s\n" % ({"f": 1, "g": 5, "h": 0}.get(f, 3) if agree_starts else rng.choice([0, 1, 5, 9]), f)
                if rng.random() < 0.8:              # (a function may be declared without any FNDA record)
                    out += "FNDA:%d,%s\n" % (rng.choice([0, 1]), f)
            out += "end_of_record\n"
            continue
        fns = rng.sample(["f", "g", "h", "café"], rng.randrange(0, 3))
        for f in fns:
            out += "FN:%d,%s\n" % ({"f": 1, "g": 5, "h": 0}.get(f, 3) if agree_starts else rng.choice([0, 1, 5, 9]), f)
        for f in fns:
            out += "FNDA:%d,%s\n" % (rng.choice([0, 1, 3]), f)
        for l in sorted(rng.sample(range(1, 9), rng.randrange(1, 5))):
            out += "DA:%d,%d\n" % (l, rng.choice([0, 1, 2, 7, 2**63, gen.U64]))
        for l in sorted(rng.sample(range(1, 9), rng.randrange(0, 3))):
            for n in range(rng.randrange(1, 4)):
                out += "BRDA:%d,0,%d,%s\n" % (l, n, rng.choice(["-", "0", "1", "4"]))
        out += "end_of_record\n"
    if malformed:
        # parse_lcov rejects the whole file; the offending record is short, or long with multi-byte characters at every
        # offset around 64 / 96 / 128 bytes (error messages quote it)
        k = rng.choice([0, 0, 58, 61, 90, 93, 122, 125])
        if k == 0:
            bad = "DA:x1,2"
        elif rng.random() < 0.5:
            bad = "DA:" + "x" * (k + rng.randrange(0, 4)) + "é日本ü" * 6 + ",2"
        else:
            # an FNDA whose function has no FN record: the message quotes the name
            bad = "FNDA:1," + "n" * rng.randrange(0, 70) + "é日本ü" * 12
        out += "SF:broken.c\n%s\nend_of_record\n" % bad
    return out.encode()


def lay_out(rng, root, blobs):
    """spread the artifacts over directories, nested dirs, zips and plain arguments; returns the argument list"""
    os.makedirs(root, exist_ok=True)
    args = []
    groups = {}
    for i, b in enumerate(blobs):
        groups.setdefault(rng.choice(["d1", "d1/sub", "d2", "z1", "plain", "plain"]), []).append((i, b))
    same_name = rng.random() < 0.4     # the same relative file name in several directories / the zip (different contents)
    for g, items in groups.items():
        if g.startswith("d"):
            d = os.path.join(root, g)
            os.makedirs(d, exist_ok=True)
            for n, (i, b) in enumerate(items):
                nm = "cov/lcov.info" if (same_name and n == 0 and g in ("d1", "d2")) else "c%d.info" % i
                os.makedirs(os.path.dirname(os.path.join(d, nm)), exist_ok=True)
                open(os.path.join(d, nm), "wb").write(b)
            top = os.path.join(root, g.split("/")[0])
            if top not in args:
                args.append(top)
        elif g == "z1":
            z = os.path.join(root, "z1.zip")
            with zipfile.ZipFile(z, "w") as zf:
                dot = rng.random() < 0.3            # members stored with a leading ./ (legal, some archivers write them)
                for n, (i, b) in enumerate(items):
                    nm = "cov/lcov.info" if (same_name and n == 0) else "in/c%d.info" % i
                    zf.writestr(("./" + nm) if dot else nm, b)
            args.append(z)
        else:
            for i, b in items:
                p = os.path.join(root, "p%d.info" % i)
                open(p, "wb").write(b)
                args.append(p)
    rng.shuffle(args)
    return args


def run_cli(args, threads, branch, log=None, sched=None, faults=None, timeout=20, cwd=None, extra=None):
    exe = vlib.build_cli()
    cmd = [exe] + args + ["-t", "lcov", "--threads", str(threads)] + (["--branch"] if branch else []) + (extra or [])
    env = dict(os.environ)
    for k in ("GRCOV_VERIF_LOG", "GRCOV_VERIF_SCHED", "GRCOV_VERIF_FAULT"):
        env.pop(k, None)
    if log:
        if os.path.exists(log):
            os.remove(log)
        env["GRCOV_VERIF_LOG"] = log
    if sched is not None:
        env["GRCOV_VERIF_SCHED"] = str(sched)
    if faults:
        env["GRCOV_VERIF_FAULT"] = ",".join("%s:%s" % f for f in faults)
    if cwd:
        env["TMPDIR"] = cwd
    try:
        p = subprocess.run(cmd, env=env, cwd=cwd, stdout=subprocess.PIPE, stderr=subprocess.PIPE, timeout=timeout)
        return p.returncode, p.stdout, p.stderr.decode("utf-8", "replace")
    except subprocess.TimeoutExpired as e:
        return None, e.stdout or b"", "TIMEOUT"


def read_lcov_report(data):
    """independent reader of grcov's own lcov output -> {path: cov json}"""
    out = {}
    cur = None
    for line in data.split(b"\n"):
        if line.startswith(b"SF:"):
            cur = {"lines": {}, "branches": {}, "fn": {}, "fnda": {}}
            out.setdefault(line[3:], []).append(cur)
        elif cur is None:
            continue
        elif line.startswith(b"DA:"):
            l, c = line[3:].split(b",")[:2]
            cur["lines"][int(l)] = int(c)
        elif line.startswith(b"BRDA:"):
            l, _, n, t = line[5:].split(b",")
            cur["branches"].setdefault(int(l), {})[int(n)] = t not in (b"-", b"0")
        elif line.startswith(b"FNDA:"):
            c, n = line[5:].split(b",", 1)
            cur["fnda"][n] = int(c) != 0
        elif line.startswith(b"FN:"):
            s, n = line[3:].split(b",", 1)
            cur["fn"][n] = int(s)
        elif line.startswith(b"end_of_record"):
            cur = None
    res = {}
    for p, secs in out.items():
        res[p] = [{
            "lines": sorted([l, c] for l, c in s["lines"].items()),
            "branches": sorted([l, [d.get(i, False) for i in range(max(d) + 1)]] for l, d in s["branches"].items()),
            "funcs": sorted([[n.hex(), st, s["fnda"].get(n, False)] for n, st in s["fn"].items()], key=lambda x: bytes.fromhex(x[0])),
        } for s in secs]
    return res


def parse_log(path):
    """-> {thread: [(kind, detail)]} and the global order"""
    per, order = {}, []
    if not os.path.exists(path):
        return per, order
    for line in open(path, "rb").read().decode("utf-8", "replace").split("\n"):
        if not line:
            continue
        parts = line.split("\t")
        if len(parts) < 3:
            continue
        t, kind, detail = parts[0], parts[1], parts[2]
        # content items are identified by their content hash (the archive name in front differs with the layout);
        # gcno items by their relative name
        key = detail if detail.endswith("#gcno#0") else (detail.split("#", 1)[1] if "#" in detail else detail)
        per.setdefault(t, []).append((kind, key))
        order.append((t, kind, key))
    return per, order


def linearise(per, nthreads, cap, exit_code, fault_of_key):
    """Greedy construction of a label sequence of the LTS from the per-thread event lists.
    Returns (labels as Coq text list, item order (content keys in send order), error or None)."""
    prod = [k for kind, k in per.get("Producer", []) if kind == "send"]
    workers = [list(per.get("Consumer %d" % i, [])) for i in range(nthreads)]
    main = [kind for kind, _ in per.get("main", [])]
    failed_send = None
    if "joined_producer" not in main and exit_code == 1 and prod:
        # the producer panicked in send(): the hook logs a send BEFORE attempting it, so the last logged one failed
        failed_send = prod.pop()
    received = {k for evs in workers for kind, k in evs if kind == "recv"}
    item_no = {k: i for i, k in enumerate(prod)}
    labels = []
    q = []                      # content keys or None
    pi = 0
    wi = [0] * nthreads
    wstate = ["idle"] * nthreads   # idle / busy / exited / dead
    mi = 0
    prod_done = False
    prod_dead = False
    stops = 0
    mphase = "wait"             # wait / stop / join / exit
    joined = 0
    poisoned = False
    guard = 0
    while guard < 100000:
        guard += 1
        progressed = False
        # consumers first
        for w in range(nthreads):
            evs = workers[w]
            while wi[w] < len(evs):
                kind, key = evs[wi[w]]
                if kind == "recv":
                    if wstate[w] == "idle" and q and q[0] == key:
                        q.pop(0)
                        labels.append("LRecv %d" % w)
                        wstate[w] = "busy"
                    else:
                        break
                elif kind == "merged":
                    labels += ["LParsed %d" % w, "LMerged %d" % w]
                    wstate[w] = "idle"
                elif kind == "rejected":
                    # the hook logs a fault-rejection twice? no: once per site; a parse error logs once
                    labels.append("LRejected %d" % w)
                    wstate[w] = "idle"
                elif kind == "recv_stop":
                    if wstate[w] == "idle" and q and q[0] is None:
                        q.pop(0)
                        labels.append("LRecvStop %d" % w)
                        wstate[w] = "exited"
                    else:
                        break
                wi[w] += 1
                progressed = True
        if progressed:
            continue
        # producer
        if pi < len(prod) and len(q) < cap:
            q.append(prod[pi])
            pi += 1
            labels.append("LSend")
            continue
        if pi == len(prod) and not prod_done and not prod_dead and "joined_producer" in main:
            labels.append("LProdDone")
            prod_done = True
            continue
        # main
        if mi < len(main):
            ev = main[mi]
            if ev == "joined_producer" and prod_done:
                labels.append("LJoinedProd")
                mphase = "stop"
                mi += 1
                continue
            if ev == "sent_stop" and len(q) < cap:
                q.append(None)
                stops += 1
                labels.append("LSentStop")
                mi += 1
                if stops == nthreads:
                    labels.append("LStopsDone")
                    mphase = "join"
                continue
            if ev == "joined_worker" and wstate[joined] == "exited":
                labels.append("LJoined")
                joined += 1
                mi += 1
                continue
        # a receive whose log line was lost because the process exited while the worker was between the
        # channel operation and the log write (only possible in a run that ended abnormally)
        if exit_code != 0 and q and q[0] is not None and q[0] not in received:
            cand = [w for w in range(nthreads) if wstate[w] == "idle" and wi[w] == len(workers[w])]
            if cand:
                q.pop(0)
                labels.append("LRecv %d" % cand[0])
                wstate[cand[0]] = "phantom"
                continue
        # deaths, lowest priority: a worker whose log ends while busy on a faulty item died; a worker busy on a
        # sound item died only if the mutex was poisoned and main's join on it is what ended the process
        # (otherwise its log was merely cut short by process::exit)
        died = False
        for w in range(nthreads):
            if wstate[w] == "busy" and wi[w] == len(workers[w]):
                key = workers[w][-1][1]
                f = fault_of_key.get(key, 0)
                if f == 2:
                    labels.append("LDieParse %d" % w)
                elif f == 3:
                    labels += ["LParsed %d" % w, "LDieLocked %d" % w]
                    poisoned = True
                elif f == 0 and poisoned and mphase == "join" and w == joined and exit_code == 1:
                    labels += ["LParsed %d" % w, "LDieLocked %d" % w]
                else:
                    continue
                wstate[w] = "dead"
                died = True
                break
        if died:
            continue
        break
    # how the process ended
    needs_no_receiver = (mphase == "stop" and stops < nthreads and exit_code == 101) or \
                        (mphase == "wait" and "joined_producer" not in main and exit_code == 1)
    if needs_no_receiver and poisoned:
        # a failed send means every receiver is gone: the workers still busy died on the poisoned mutex
        for w in range(nthreads):
            if wstate[w] == "busy" and wi[w] == len(workers[w]) and fault_of_key.get(workers[w][-1][1], 0) == 0:
                labels += ["LParsed %d" % w, "LDieLocked %d" % w]
                wstate[w] = "dead"
    if mi == len(main):
        if mphase == "join" and joined == nthreads and exit_code == 0:
            labels.append("LFinish")
        elif mphase == "join" and joined < nthreads and wstate[joined] == "dead":
            labels.append("LJoinDead")
        elif mphase == "stop" and stops < nthreads and exit_code == 101:
            labels.append("LStopFail")
        elif mphase == "wait" and "joined_producer" not in main:
            # the producer panicked on a failed send
            if pi < len(prod) or exit_code == 1:
                labels += ["LSendFail", "LProdPanicked"]
    leftover = {"producer": len(prod) - pi, "workers": [len(workers[w]) - wi[w] for w in range(nthreads)], "main": len(main) - mi}
    err = None
    if leftover["producer"] and exit_code == 0 or any(leftover["workers"]) or leftover["main"]:
        err = "could not schedule all logged events: %s" % leftover
    return labels, prod, err
