"""Artifact pool, layout generator and renderers shared by C17 (input discovery) and C19 (write confinement).

An artifact is (kind, relname, blob index).  A layout distributes a fixed multiset of artifacts over containers
(directory / zip / plain file arguments); `engine_case` renders it for the `producer` harness engine, `coq_args` for
the Gallina model (Run/ShowProducer.v), `materialise` onto disk for the CLI."""
import io, os, zipfile

REPO = os.environ.get("GRCOV_REPO", "/repo")


def rd(p):
    with open(os.path.join(REPO, p), "rb") as f:
        return f.read()


def jacoco(name, src, lines, pad=0, lead=b""):
    body = b"".join(b'<line nr="%d" mi="%d" ci="%d" mb="0" cb="0"/>' % (n, 0 if c else 1, c) for n, c in lines)
    s = (lead + b'<?xml version="1.0" encoding="UTF-8" standalone="yes"?>'
         b'<!DOCTYPE report PUBLIC "-//JACOCO//DTD Report 1.1//EN" "report.dtd">'
         b'<report name="' + name + b'"><package name="p"><sourcefile name="' + src + b'">' + body +
         b'</sourcefile></package></report>')
    if pad:
        s += b"\n" * max(0, pad - len(s))
    return s


def lcov(name, lines, tn=True):
    s = (b"TN:\n" if tn else b"") + b"SF:" + name + b"\n"
    for n, c in lines:
        s += b"DA:%d,%d\n" % (n, c)
    return s + b"end_of_record\n"


SHORT_JACOCO = (b'<!DOCTYPE report PUBLIC "-//JACOCO//DTD Report 1.1//EN" "report.dtd"><report name="x"><package name="p">'
                b'<sourcefile name="S.java"><line nr="1" mi="0" ci="1" mb="0" cb="0"/></sourcefile></package></report>')
# a valid report >= 256 bytes whose 256-byte prefix cuts a two-byte UTF-8 character (report name)
_pre = b'<?xml version="1.0" encoding="UTF-8"?><!DOCTYPE report PUBLIC "-//JACOCO//DTD Report 1.1//EN" "report.dtd"><report name="'
STRADDLE_JACOCO = (_pre + b"n" * (255 - len(_pre)) + "é".encode() + b'"><package name="p"><sourcefile name="T.java">'
                   b'<line nr="1" mi="0" ci="1" mb="0" cb="0"/></sourcefile></package></report>')


class Pool:
    """The fixed blobs.  cid = index in self.blobs."""

    def __init__(self):
        self.blobs = []
        self.names = {}

    def add(self, key, b):
        if key in self.names:
            return self.names[key]
        if b in self.blobs:                       # cid identifies the bytes: equal contents share one id
            self.names[key] = self.blobs.index(b)
            return self.names[key]
        self.blobs.append(b)
        self.names[key] = len(self.blobs) - 1
        return self.names[key]

    def heads(self):
        return [list(b[:256]) for b in self.blobs]


def standard_pool():
    p = Pool()
    p.add("info_a", lcov(b"src/a.c", [(1, 1), (2, 0), (5, 7)]))
    p.add("info_b", lcov(b"src/b.c", [(1, 3), (4, 4)], tn=False))            # starts with SF:
    p.add("info_a2", lcov(b"src/a.c", [(1, 2), (3, 1)]))                     # same source again: counts add up
    p.add("info_c", lcov(b"src/c.c", [(1, 5), (2, 0)]))                        # shipped twice under the same name: counts double
    p.add("info_win", lcov(b"src/win.c", [(1, 7)]))                           # member / file / argument names with backslashes (ordinary characters on Unix)
    p.add("info_dot", lcov(b"src/dot.c", [(1, 1)]))                           # lives under a dot-named directory
    p.add("info_dotfile", lcov(b"src/dotfile.c", [(2, 2)]))                   # dot-prefixed file name
    p.add("xml_1", jacoco(b"r1", b"A.java", [(1, 1), (2, 0)], pad=300))
    p.add("xml_2", jacoco(b"r2", b"B.java", [(3, 2)], pad=256))              # exactly 256 bytes
    p.add("decoy_info", b"this is not a tracefile\nSF:nope\n")
    p.add("decoy_info_short", b"TN")                                         # 2 bytes: read_exact(3) fails
    p.add("decoy_xml", b'<?xml version="1.0"?><project name="not jacoco">' + b"<x/>" * 80 + b"</project>")
    p.add("decoy_xml_late", b"<!--" + b"-" * 300 + b'--><!DOCTYPE report PUBLIC "-//JACOCO//DTD Report 1.1//EN" "report.dtd"><report name="late"/>')
    p.add("txt", b"hello\n")
    p.add("json_other", b'{"a": "b"}')
    p.add("map", b'{"dist/include/zlib.h": "modules/zlib/src/zlib.h"}')
    for n in ("file", "file_branch", "reader"):
        p.add("llvm_gcno_" + n, rd("test/llvm/%s.gcno" % n))
        p.add("llvm_gcda_" + n, rd("test/llvm/%s.gcda" % n))
    p.add("gcc_gcno_main", rd("test/only_one_gcda/main.gcno"))
    p.add("gcc_gcda_main", rd("test/only_one_gcda/main.gcda"))
    p.add("gcc_gcno_orphan", rd("test/only_one_gcda/orphan.gcno"))
    p.add("gcda_lonely", rd("test/llvm/file.gcda")[:40] + b"\0" * 8)
    p.add("profraw_1", b"\x81rforpl\xff" + bytes(range(64)))
    p.add("profraw_2", b"\x81rforpl\xff" + bytes(range(64, 128)))
    p.add("short_jacoco", SHORT_JACOCO)
    p.add("straddle_jacoco", STRADDLE_JACOCO)
    # marker surrounded by bytes that are not UTF-8: from_utf8_lossy must not hide it
    p.add("badutf_jacoco", b"\xff\xe2" + b'<!DOCTYPE report PUBLIC "-//JACOCO//DTD Report 1.1//EN" "report.dtd">\xe2\x82<report name="b\xc3">'
          b'<package name="p"><sourcefile name="U.java"><line nr="1" mi="0" ci="1" mb="0" cb="0"/></sourcefile></package></report>')
    # the same public identifier in other legal spellings of the document type declaration
    body = b'<report name="%s"><package name="p"><sourcefile name="%s"><line nr="1" mi="0" ci="1" mb="0" cb="0"/></sourcefile></package></report>'
    p.add("jacoco_wrapped", b'<?xml version="1.0" encoding="UTF-8"?>\n<!DOCTYPE report\n    PUBLIC\n    "-//JACOCO//DTD Report 1.1//EN"\n    "report.dtd">\n' + body % (b"w", b"W.java"))
    p.add("jacoco_squote", b"<?xml version='1.0' encoding='UTF-8'?><!DOCTYPE report PUBLIC '-//JACOCO//DTD Report 1.1//EN' 'report.dtd'>" + body % (b"q", b"Q.java"))
    p.add("jacoco_spaces", b'<?xml version="1.0"?>\n<!DOCTYPE   report   PUBLIC   "-//JACOCO//DTD Report 1.0//EN"\t"report.dtd" >\n' + body % (b"s", b"Sp.java"))
    return p


# artifact sets: (kind, relname, blobkey).  kind: info xml decoy gcno gcda map profraw
def artifacts_std(pool, with_prof=False, gcc=True):
    a = [("info", "a.info", "info_a"), ("info", "logs/b.info", "info_b"), ("info", "a.info", "info_a2"),
         ("xml", "rep/one.xml", "xml_1"), ("xml", "two.xml", "xml_2"),
         ("xml", "short.xml", "short_jacoco"), ("xml", "rep/straddle.xml", "straddle_jacoco"),
         ("xml", "rep/wrapped.xml", "jacoco_wrapped"), ("xml", "squote.xml", "jacoco_squote"), ("xml", "rep/spaces.xml", "jacoco_spaces"), ("xml", "badutf.xml", "badutf_jacoco"), ("decoy", "late.xml", "decoy_xml_late"),
         # byte-identical files under the same relative name in different archives: each occurrence is an input
         ("info", "same/s.info", "info_c"), ("info", "same/s.info", "info_c"), ("xml", "same/r.xml", "xml_1"), ("xml", "same/r.xml", "xml_1"),
         # dot-named directories and files are ordinary members, in a directory as in a zip
         ("info", "lib/.libs/d.info", "info_dot"), ("info", ".cov.info", "info_dotfile"), ("xml", ".rep/h.xml", "xml_2"),
         ("gcno", ".objs/fb2.gcno", "llvm_gcno_file_branch"), ("gcda", ".objs/fb2.gcda", "llvm_gcda_file_branch"),
         ("decoy", "decoy.info", "decoy_info"), ("decoy", "tn.info", "decoy_info_short"), ("decoy", "build.xml", "decoy_xml"),
         ("decoy", "notes.txt", "txt"), ("decoy", "data.json", "json_other"),
         ("decoy", "noext", "txt"), ("decoy", ".info", "info_a"), ("decoy", "x.gcno.bak", "llvm_gcno_file"),
         ("map", "linked-files-map.json", "map"),
         ("gcno", "obj/file.gcno", "llvm_gcno_file"), ("gcda", "obj/file.gcda", "llvm_gcda_file"), ("gcda", "obj/file.gcda", "llvm_gcda_file"),
         ("gcno", "file_branch.gcno", "llvm_gcno_file_branch"), ("gcda", "file_branch.gcda", "llvm_gcda_file_branch"),
         ("gcno", "deep/er/reader.gcno", "llvm_gcno_reader"),                  # orphan gcno
         # dots inside the stem (CMake: file.c.gcno / file.c.gcda), next to a file.gcda that belongs to nothing
         ("gcno", "app/file.c.gcno", "llvm_gcno_file"), ("gcda", "app/file.c.gcda", "llvm_gcda_file"), ("gcda", "app/file.gcda", "llvm_gcda_file_branch"),
         # backslashes in names (a zip written on Windows, or just odd file names): used like any other name
         ("info", "win\\cov\\w.info", "info_win"), ("xml", "rep\\w.xml", "xml_2"), ("info", "\\lead.info", "info_win"),
         ("gcno", "obj\\wf.gcno", "llvm_gcno_file"), ("gcda", "obj\\wf.gcda", "llvm_gcda_file"), ("gcda", "obj\\wf.gcda", "llvm_gcda_file"),
         ("gcno", "bs/deep\\er.x\\fb.gcno", "llvm_gcno_file_branch"), ("gcda", "bs/deep\\er.x\\fb.gcda", "llvm_gcda_file_branch"),
         ("gcno", "a.b.c.gcno", "llvm_gcno_reader"), ("gcda", "a.b.c.gcda", "llvm_gcda_reader"), ("gcda", "a.gcda", "gcda_lonely"),
         ("gcda", "lonely.gcda", "gcda_lonely")]                              # orphan gcda
    if gcc:
        a += [("gcno", "gcc/main.gcno", "gcc_gcno_main"), ("gcda", "gcc/main.gcda", "gcc_gcda_main"), ("gcda", "gcc/main.gcda", "gcc_gcda_main"),
              ("gcno", "gcc/orphan.gcno", "gcc_gcno_orphan")]
    if with_prof:
        a += [("profraw", "default.profraw", "profraw_1"), ("profraw", "p/default.profraw", "profraw_2")]
    return [(k, n, pool.names[b]) for k, n, b in a]


PLAIN_OK = ("info", "xml", "map", "profraw")


def gen_layout(rng, arts, kinds=("dir", "zip", "plain"), max_containers=5):
    """Distribute the artifacts.  Returns a list of args (dicts); every artifact is placed exactly once.
    info/xml/decoys may get a random directory prefix; gcno/gcda/map keep their relative name."""
    n = rng.randrange(1, max_containers + 1)
    conts = [{"kind": rng.choice([k for k in kinds if k != "plain"]), "entries": {}} for _ in range(n)]
    plains = []
    for kind, name, cid in arts:
        keep = name.startswith("same/")            # must meet its twin under the same relative name
        if "plain" in kinds and kind in PLAIN_OK and not keep and rng.random() < 0.25:
            plains.append((kind, name, cid))
            continue
        if kind in ("info", "xml", "decoy", "profraw") and not keep and rng.random() < 0.4:
            # nested directories, also with names that look like files of interest
            name = rng.choice(["n1/", "n1/n2/", "zz/", "n1.info/", "res.xml/n2.json/", "old.zip/", "p.profraw/q.profdata/", "o.gcno/", "o.gcda/x/"]) + name
        order = list(range(n))
        rng.shuffle(order)
        for i in order:
            if name not in conts[i]["entries"]:
                conts[i]["entries"][name] = (kind, cid)
                break
        else:
            conts.append({"kind": rng.choice([k for k in kinds if k != "plain"]), "entries": {name: (kind, cid)}})
    args = []
    for i, c in enumerate(conts):
        es = list(c["entries"].items())
        rng.shuffle(es)
        # directory arguments whose NAME carries an extension grcov knows are directories like any other
        sfx = rng.choice(["", "", ".info", ".json", ".xml", ".profraw", ".profdata", ".gcno", ".gcda", ".d", ".zip", "\\b"])
        nm = ("d%d%s" % (i, sfx)) if c["kind"] == "dir" else ("z%d%s.zip" % (i, rng.choice(["", "", ".info", ".xml", ".gcno"])))
        if rng.random() < 0.3:
            nm = "up/" + nm
        args.append({"kind": c["kind"], "name": nm, "entries": [[n_, cid, k] for n_, (k, cid) in es]})
    for j, (kind, name, cid) in enumerate(plains):
        args.append({"kind": "plain", "name": "pl%d/%s" % (j, name), "blob": cid, "akind": kind})
    rng.shuffle(args)
    return args


def hx(s):
    return (s if isinstance(s, bytes) else s.encode()).hex()


def engine_case(pool_hex, args, is_llvm, covered, abs_=False):
    out = []
    for a in args:
        if a["kind"] in ("zip", "dir"):
            d = {"kind": a["kind"], "name": a["name"], "entries": [[hx(e[0]), e[1]] for e in a["entries"]]}
            if a.get("links"):
                d["links"] = [[hx(x), hx(y)] for x, y, _ in a["links"]]
            out.append(d)
        elif a["kind"] == "plain":
            out.append({"kind": "plain", "name": a["name"], "blob": a["blob"]})
        elif a["kind"] == "zipraw":
            out.append({"kind": "zipraw", "name": a["name"], "blob": a["blob"]})
        elif a["kind"] == "hidden":
            out.append({"kind": "hidden", "arg": engine_case(pool_hex, [a["arg"]], False, False)["args"][0]})
        else:
            out.append(dict(a))
    return {"blobs": pool_hex, "args": out, "is_llvm": is_llvm, "covered": covered, "abs": abs_}


def model_entries(a):
    """What the archive enumerates, as the model's (name, cid, head index) triples.
    Dir: regular files plus symbolic links that resolve to files (links = [(name, target, cid or None)])."""
    es = [(list(e[0].encode()), e[1], e[1]) for e in a["entries"]]
    for n_, _t, cid in a.get("links", []):
        if cid is not None:
            es.append((list(n_.encode()), cid, cid))
    return es


def coq_args(args):
    import vlib
    out = []
    for a in args:
        if a["kind"] == "zip" or a["kind"] == "zipraw":
            out.append(vlib.app("SZip", list(a["name"].encode()), model_entries(a)))
        elif a["kind"] == "dir":
            out.append(vlib.app("SDir", list(a["name"].encode()), model_entries(a)))
        elif a["kind"] == "plain":
            out.append(vlib.app("SFile", list(("/IN/" + a["name"]).encode()), a["blob"], a["blob"]))
    return vlib.Raw("[" + "; ".join(out) + "]")


def zip_bytes(entries, blobs):
    """entries: [(name, cid)] - Python zipfile keeps the names verbatim (absolute, '..', duplicates)."""
    import warnings
    bio = io.BytesIO()
    with warnings.catch_warnings():
        warnings.simplefilter("ignore")
        with zipfile.ZipFile(bio, "w", zipfile.ZIP_DEFLATED) as z:
            for n_, cid in entries:
                zi = zipfile.ZipInfo(n_)
                zi.compress_type = zipfile.ZIP_DEFLATED
                z.writestr(zi, blobs[cid])
    return bio.getvalue()


def materialise(root, args, blobs):
    """Write a layout under root; returns the argument strings (relative to root)."""
    out = []
    for a in args:
        hidden = a["kind"] == "hidden"
        if hidden:
            a = a["arg"]
        p = os.path.join(root, a["name"])
        if a["kind"] == "dir":
            os.makedirs(p, exist_ok=True)
            for e in a["entries"]:
                fp = os.path.join(p, e[0])
                os.makedirs(os.path.dirname(fp), exist_ok=True)
                with open(fp, "wb") as f:
                    f.write(blobs[e[1]])
            for n_, t, _ in a.get("links", []):
                fp = os.path.join(p, n_)
                os.makedirs(os.path.dirname(fp), exist_ok=True)
                os.symlink(t, fp)
        elif a["kind"] == "zip":
            os.makedirs(os.path.dirname(p) or ".", exist_ok=True)
            with open(p, "wb") as f:
                f.write(zip_bytes([(e[0], e[1]) for e in a["entries"]], blobs))
        elif a["kind"] in ("plain", "zipraw"):
            os.makedirs(os.path.dirname(p) or ".", exist_ok=True)
            with open(p, "wb") as f:
                f.write(blobs[a["blob"]])
        if not hidden:
            out.append(a["name"])
    return out
