"""C07 - always terminates; worker failure is neither a hang nor a silent success.
Proof obligations (pipeline LTS with faults) + fault-injected real runs under a wall-clock limit + trace validation."""
import json, os
import vlib, gen, pipeline
from c02 import coq_items, labels_coq, by_path, report_oracle, PATHS

MARK = {"panic": "DIE_PARSE_X", "panic_locked": "DIE_LOCKED_X", "reject": "REJECT_X"}
FAULT_NO = {None: 0, "reject": 1, "panic": 2, "panic_locked": 3}
LIMIT = 20


def scenario(chk, idx):
    rng = chk.rng
    root = vlib.scratch("c07_%d" % idx)
    threads = rng.choice([1, 1, 2, 3, 4, 8])
    cap = 2 * threads
    k = rng.choice([1, cap - 1, cap, cap + 1, cap + 2, 3 * threads + 1, 4 * threads + 3])
    k = max(1, min(k, 40))
    plan_kind = rng.choice(["reject_only", "reject_only", "one_death", "many_deaths", "all_die", "locked", "malformed_many"])
    plans = []
    for i in range(k):
        f = None
        mal = False
        r = rng.random()
        if plan_kind == "reject_only":
            f = "reject" if r < 0.3 else None
            mal = r > 0.8
        elif plan_kind == "one_death":
            f = "panic" if i == (idx % k) else (None if r < 0.8 else "reject")
        elif plan_kind == "many_deaths":
            f = "panic" if r < 0.4 else None
        elif plan_kind == "all_die":
            f = "panic"
        elif plan_kind == "locked":
            f = "panic_locked" if i == (idx % k) else None
        elif plan_kind == "malformed_many":
            mal = r < 0.7
        plans.append((f, mal))
    blobs = [pipeline.make_info(rng, i, PATHS, marker=MARK.get(f), malformed=mal) for i, (f, mal) in enumerate(plans)]
    branch = rng.random() < 0.7
    parsed = vlib.run_impl("parse", [{"hex": b.hex(), "format": "info", "branch": branch} for b in blobs], chk.pid)
    batches = [[[n, gen.cov_canon(c)] for n, c in r["ok"]] if "ok" in r else None for r in parsed]
    args = pipeline.lay_out(rng, os.path.join(root, "in"), blobs)
    log = os.path.join(root, "log.txt")
    faults = [(m, MARK[m]) for m in MARK]
    rc, out, err = pipeline.run_cli(args, threads, branch, log=log, sched=rng.randrange(1, 10**6), faults=faults, timeout=LIMIT, cwd=root)
    chk.count()
    hist = {"inputs": [b.decode() for b in blobs], "plan": [[f, m] for f, m in plans], "threads": threads, "branch": branch,
            "args": [os.path.relpath(a, root) for a in args], "plan_kind": plan_kind}
    chk.dist[plan_kind] = chk.dist.get(plan_kind, 0) + 1
    if rc is None:
        chk.violation(dict(hist, kind="oracle", clause="grcov did not terminate within %d s" % LIMIT,
                           log=open(log).read()[-2000:] if os.path.exists(log) else ""), tag="hang")
        return
    per, _ = pipeline.parse_log(log)
    key_of = [pipeline.content_key(b) for b in blobs]
    # did a worker die?  (a consumer whose log ends with the recv of an item that carries a panic fault)
    died = False
    fk = {kk: f for kk, (f, _) in zip(key_of, plans)}
    for t, evs in per.items():
        if t.startswith("Consumer") and evs and evs[-1][0] == "recv" and fk.get(evs[-1][1]) in ("panic", "panic_locked"):
            died = True
    if died and rc == 0:
        chk.violation(dict(hist, kind="oracle", clause="a worker died but the exit status is 0", log=open(log).read()[-2000:]), tag="status")
        return
    if not died:
        if rc != 0:
            chk.violation(dict(hist, kind="oracle", clause="no worker died but the exit status is %s" % rc, stderr=err[-600:]), tag="status")
            return
        # rejected inputs contribute nothing: report = aggregation of the accepted artifacts only
        accepted = [bt for bt, (f, mal) in zip(batches, plans) if f is None and bt is not None]
        why = report_oracle(pipeline.read_lcov_report(out), by_path(accepted))
        if why:
            chk.violation(dict(hist, kind="oracle", clause="report must equal the report of the run without the rejected inputs: " + why,
                               report=out.decode("latin-1")[:2000]), tag="reject")
            return
    # trace validation against the LTS with faults
    fault_of_key = {kk: FAULT_NO[f] for kk, (f, _) in zip(key_of, plans)}
    labels, order, lerr = pipeline.linearise(per, threads, cap, rc, fault_of_key)
    if lerr:
        chk.violation(dict(hist, kind="trace", clause="event log cannot be scheduled as an execution of the pipeline model: " + lerr,
                           log=open(log).read()[-3000:]), tag="trace")
        return
    kb = dict(zip(key_of, zip(batches, plans)))
    rest = [kk for kk in key_of if kk not in order]       # never sent (producer stopped early)
    seq = order + rest
    items = coq_items([kb[kk][0] for kk in seq], [FAULT_NO[kb[kk][1][0]] for kk in seq])
    chk._pending.append((hist, threads, cap, items, labels, rc, died))
    chk.nontrivial(["c07", idx])


def big_rejected(chk, idx, size):
    """one large tracefile with a single malformed record next to small well-formed ones: it is skipped as a whole,
    whatever its size and wherever the bad record stands (report = report without it)"""
    rng = chk.rng
    root = vlib.scratch("c07_big%d" % idx)
    small = [pipeline.make_info(rng, i, PATHS) for i in range(rng.randrange(1, 4))]
    where = rng.choice(["start", "middle", "end"])
    rec = lambda j: "SF:big/f%d.c\nFN:1,f%d\nFNDA:1,f%d\nDA:1,1\nDA:2,0\nDA:3,%d\nBRDA:2,0,0,1\nBRDA:2,0,1,-\nend_of_record\n" % (j, j, j, j)
    nrec = size // len(rec(1)) + 1          # (records get longer with j: the file is at least `size` bytes)
    bad_at = {"start": 0, "middle": nrec // 2, "end": nrec - 1}[where]
    parts = []
    for j in range(nrec):
        parts.append(rec(j) if j != bad_at else "SF:big/bad.c\nDA:x,1\nend_of_record\n")
    big = ("TN:big\n" + "".join(parts)).encode()
    ind = os.path.join(root, "in")
    os.makedirs(os.path.join(ind, "d"), exist_ok=True)
    for i, b in enumerate(small):
        open(os.path.join(ind, "s%d.info" % i), "wb").write(b)
    open(os.path.join(ind, "d", "big.info"), "wb").write(big)
    branch = rng.random() < 0.7
    threads = rng.choice([1, 2, 4])
    parsed = vlib.run_impl("parse", [{"hex": b.hex(), "format": "info", "branch": branch} for b in small], chk.pid)
    batches = [[[n, gen.cov_canon(c)] for n, c in r["ok"]] for r in parsed if "ok" in r]
    rc, out, err = pipeline.run_cli([ind], threads, branch, timeout=60, cwd=root)
    chk.count()
    hist = {"small_inputs": [b.decode() for b in small], "big_input": "TN:big + %d records like %r, record %d replaced by 'SF:big/bad.c DA:x,1 end_of_record' (%d bytes)" % (nrec, rec(7), bad_at, len(big)),
            "threads": threads, "branch": branch}
    if rc != 0:
        chk.violation(dict(hist, kind="oracle", clause="a rejected input must not change the exit status (got %s)" % rc, stderr=err[-600:]), tag="big")
        return
    why = report_oracle(pipeline.read_lcov_report(out), by_path(batches))
    if why:
        chk.violation(dict(hist, kind="oracle", clause="a %d-byte tracefile with one malformed record is skipped as a whole: %s" % (len(big), why)), tag="big")
        return
    chk.nontrivial(["c07-big", idx, len(big), where])
    chk.dist["big_rejected_bytes"] = chk.dist.get("big_rejected_bytes", []) + [len(big)]


def zero_threads(chk, idx):
    """--threads 0 is a thread count too: the run must end (no worker exists, so it cannot succeed silently: either a
    non-zero status, or status 0 with the complete report)"""
    rng = chk.rng
    root = vlib.scratch("c07_zero%d" % idx)
    blobs = [pipeline.make_info(rng, i, PATHS) for i in range(rng.choice([1, 2, 6]))]
    branch = rng.random() < 0.5
    args = pipeline.lay_out(rng, os.path.join(root, "in"), blobs)
    rc, out, err = pipeline.run_cli(args, 0, branch, timeout=LIMIT, cwd=root)
    chk.count()
    hist = {"inputs": [b.decode() for b in blobs], "threads": 0, "branch": branch, "args": [os.path.relpath(a, root) for a in args]}
    if rc is None:
        chk.violation(dict(hist, kind="oracle", clause="grcov --threads 0 did not terminate within %d s" % LIMIT), tag="hang")
        return
    if rc == 0:
        parsed = vlib.run_impl("parse", [{"hex": b.hex(), "format": "info", "branch": branch} for b in blobs], chk.pid)
        batches = [[[n, gen.cov_canon(c)] for n, c in r["ok"]] for r in parsed if "ok" in r]
        why = report_oracle(pipeline.read_lcov_report(out), by_path(batches))
        if why:
            chk.violation(dict(hist, kind="oracle", clause="status 0 with --threads 0 but the report is not the aggregation of the inputs: " + why), tag="status")
            return
    chk.nontrivial(["c07-zero", idx, rc])
    chk.dist["zero_threads_status"] = chk.dist.get("zero_threads_status", []) + [rc]


def llvm_rejected(chk, idx):
    """an LLVM gcno whose run data is damaged (one of its gcda files is cut somewhere after the header): the whole unit is
    rejected and contributes nothing - not even what was read before the damage - while the other inputs are unaffected"""
    rng = chk.rng
    root = vlib.scratch("c07_llvm%d" % idx)
    small = [pipeline.make_info(rng, i, PATHS) for i in range(rng.randrange(1, 4))]
    ind = os.path.join(root, "in")
    stem = rng.choice(["file", "file_branch", "reader"])
    gn = open(os.path.join(vlib.REPO, "test", "llvm", stem + ".gcno"), "rb").read()
    gda = open(os.path.join(vlib.REPO, "test", "llvm", stem + ".gcda"), "rb").read()
    # cut inside a record, at least one whole word after the last record boundary: a started, incomplete record - every
    # reader of the format has to reject that (decided on the file's structure, not by asking the reader)
    import struct
    bounds, pos = [12], 12
    while pos + 8 <= len(gda) and struct.unpack("<I", gda[pos:pos + 4])[0] != 0:      # (a zero tag ends the file: nothing after it is read)
        pos += 8 + 4 * struct.unpack("<I", gda[pos + 4:pos + 8])[0]
        bounds.append(pos)
    cut = rng.choice([c for c in range(16, bounds[-1]) if c - max(b for b in bounds if b <= c) >= 4])
    layout = rng.choice(["good+cut", "cut+good", "cut"])
    dirs = {"good+cut": [("a", gda), ("b", gda[:cut])], "cut+good": [("a", gda[:cut]), ("b", gda)], "cut": [("a", gda[:cut])]}[layout]
    os.makedirs(os.path.join(ind, "notes"), exist_ok=True)
    open(os.path.join(ind, "notes", stem + ".gcno"), "wb").write(gn)
    args = [os.path.join(ind, "notes")]
    for d, data in dirs:
        os.makedirs(os.path.join(ind, d), exist_ok=True)
        open(os.path.join(ind, d, stem + ".gcda"), "wb").write(data)
        args.append(os.path.join(ind, d))
    for i, b in enumerate(small):
        open(os.path.join(ind, "s%d.info" % i), "wb").write(b)
        args.append(os.path.join(ind, "s%d.info" % i))
    branch = rng.random() < 0.6
    threads = rng.choice([1, 2, 4])
    # (what the library's reader says about these files, for the replay file only: the expectation does not depend on it)
    probe = vlib.run_impl("gcno", [{"gcno": gn.hex(), "gcdas": [x.hex() for _, x in dirs], "branch": branch, "stem": stem}], chk.pid)[0]
    parsed = vlib.run_impl("parse", [{"hex": b.hex(), "format": "info", "branch": branch} for b in small], chk.pid)
    batches = [[[n, gen.cov_canon(c)] for n, c in r["ok"]] for r in parsed if "ok" in r]
    rc, out, err = pipeline.run_cli(args, threads, branch, timeout=LIMIT, cwd=root, extra=rng.choice([[], ["--llvm"]]))
    chk.count()
    hist = {"small_inputs": [b.decode() for b in small], "unit": "test/llvm/%s.gcno with gcda files %s (cut = first %d of %d bytes)" % (stem, layout, cut, len(gda)),
            "threads": threads, "branch": branch, "reader_accepts_the_cut": "ok" in probe}
    if rc is None:
        chk.violation(dict(hist, kind="oracle", clause="grcov did not terminate within %d s" % LIMIT), tag="hang")
        return
    if rc != 0:
        chk.violation(dict(hist, kind="oracle", clause="a rejected input must not change the exit status (got %s)" % rc, stderr=err[-600:]), tag="status")
        return
    why = report_oracle(pipeline.read_lcov_report(out), by_path(batches))
    if why:
        chk.violation(dict(hist, kind="oracle", clause="a unit whose run data is rejected contributes nothing, the other inputs are unaffected: " + why,
                           report=out.decode("latin-1")[:1500]), tag="reject")
        return
    chk.nontrivial(["c07-llvm", idx, stem, layout, cut])
    chk.dist["llvm_unit_with_cut_gcda"] = chk.dist.get("llvm_unit_with_cut_gcda", 0) + 1


def validate(chk):
    pend = chk._pending
    exprs = [vlib.app("run_pipeline", t, cap, False, items, labels_coq(labels)) for _, t, cap, items, labels, _, _ in pend]
    res = vlib.run_model(chk.pid, "Run.Show", exprs, shard_size=12)
    okn = 0
    for (hist, t, cap, items, labels, rc, died), r in zip(pend, res):
        if isinstance(r, tuple) and r and r[0] == "@@ERROR":
            chk.violation(dict(hist, kind="correspondence", model=r), has_input=False, tag="trace")
            continue
        ok, mst, wsts, merged, rejected, lost, acc, no_enabled = r
        why = None
        if not ok:
            why = "the label sequence is not an execution of the LTS"
        elif mst[0] != 3:
            why = "the LTS execution does not end in an exit state (main state %s) although the process exited with %s" % (mst, rc)
        elif mst[1] != rc:
            why = "the LTS ends with exit status %d, the process with %s" % (mst[1], rc)
        elif (4 in wsts) != died:
            why = "dead workers in the model: %s, in the run: %s" % (4 in wsts, died)
        if why:
            chk.violation(dict(hist, kind="trace", clause=why, labels=labels, model=str(r)[:1200]), tag="trace")
        else:
            okn += 1
            chk.sample({"threads": t, "plan": hist["plan_kind"], "exit": rc, "labels": labels[:30]}, limit=3)
    return okn


def run(chk):
    chk.proofs()
    chk._pending = []
    chk.dist = {}
    n = 60 if chk.tier == "quick" else 1200
    for i in range(n):
        scenario(chk, i)
    for i in range(2 if chk.tier == "quick" else 10):
        zero_threads(chk, i)
    for i in range(10 if chk.tier == "quick" else 150):
        llvm_rejected(chk, i)
    sizes = [70 << 10, (1 << 20) + 4096, (4 << 20) + 4096, 9 << 20] + ([] if chk.tier == "quick" else [(16 << 20) + 1, 33 << 20, 65 << 20])
    for i, sz in enumerate(sizes):
        big_rejected(chk, i, sz)
    okn = validate(chk)
    chk.cov["traces_validated_against_impl"] = okn
    chk.extra["distribution"] = chk.dist
    chk.cov["rule"] = ("fault plans over 1-40 lcov artifacts (counts around the queue capacity 2N-1, 2N, 2N+1, 2N+2, 3N+1, 4N+3) x threads 1-8 x schedule seeds: inputs rejected by "
                       "injected fault or really malformed (rejected by parse_lcov), inputs that panic the worker outside or inside the result-map lock (one, many, all workers); "
                       "each run under a %d s limit: must terminate; a death implies a non-zero status; without deaths status 0 and the report equals the aggregation of the "
                       "accepted artifacts; the hook event log is scheduled into LTS labels and replayed by Coq (must be an execution ending in MExit with the same status). "
                       "plus LLVM units one of whose gcda files is cut after its header (rejected as a whole, nothing read before the damage counts); plus runs with --threads 0 (must end; status 0 only with the complete report); plus tracefiles of 70 KiB - 9 MiB (thorough: up to 65 MiB) with one malformed record at the start, middle or end, next to small well-formed inputs: skipped as a whole. "
                       "non-trivial = run whose trace reached validation; distinct by scenario" % LIMIT)
    chk.cov["trusted_base"] = ["Coq kernel; vm_compute for trace replay", "hooks H1-H3 in /repo (cfg mozilla_grcov_verif)", "Python event scheduler (output re-checked by Coq)",
                               "modelled, not verified: crossbeam channel FIFO/disconnect wake-up, Mutex poisoning, thread spawn/join, process::exit; OS scheduler"]
    chk.assumptions = ["panics in the main thread, in the HTML writer threads or inside external tools are outside the model", "wall-clock limit %d s stands in for 'forever'" % LIMIT]


def replay(chk, path):
    chk.proofs()
