"""C17 - input discovery is complete, exact and independent of packaging.
Proofs (Props/C17.v) + grcov::producer vs Model/Producer.v on generated layouts + the property's own reading
(which artifacts must be used, each exactly once, however packaged) + CLI stream (same report for two layouts)."""
import json, os, re, subprocess
import vlib, layoutgen as L

FMT = {"gcno": 0, "profraw": 1, "profdata": 2, "info": 3, "xml": 4}
MARK = b"-//JACOCO//DTD"


# ---------------------------------------------------------------- the property's own reading
def usable_info(b):
    return b[:3] in (b"TN:", b"SF:")


def usable_xml(b):
    """the JaCoCo signature: the DTD marker within the first 256 bytes"""
    return MARK in b[:256]


def unsafe_name(n):
    return n.startswith("/") or ".." in n.split("/")


def llvm_gcno(b):
    return len(b) >= 8 and b[:5] == b"oncg*" and b[5:8] in (b"204", b"804")


def ext_of(name):
    base = name.rsplit("/", 1)[-1]
    if base == ".." or "." not in base[1:]:
        return None, None
    i = name.rindex(".")
    return name[:i], name[i + 1:]


def oracle(arts, blobs, is_llvm, covered):
    """arts: [(relname, cid)] - every file of the layout with its name relative to its container.
    Returns 'panic' or the sorted multiset of item contents the property demands."""
    out = []
    gcno, gcda, prof = {}, {}, {"profraw": [], "profdata": []}
    for name, cid in arts:
        stem, ext = ext_of(name)
        if ext == "info" and usable_info(blobs[cid]):
            out.append(("content", 3, cid))
        elif ext == "xml" and usable_xml(blobs[cid]):
            out.append(("content", 4, cid))
        elif ext == "gcno":
            gcno.setdefault(stem, set()).add(cid)
        elif ext == "gcda":
            gcda.setdefault(stem, []).append(cid)
        elif ext in prof:
            prof[ext].append(cid)
    for stem, cids in gcno.items():
        assert len(cids) == 1, "generator: one gcno content per stem"
        g = next(iter(cids))
        ll = is_llvm or llvm_gcno(blobs[g])
        ds = gcda.get(stem, [])
        if ds:
            if ll:
                out.append(("buffers", stem, g, tuple(sorted(ds))))
            else:
                out += [("path", stem, g, d) for d in ds]
        elif not covered:
            out.append(("buffers", stem, g, ()) if ll else ("path", stem, g, None))
    for e, f in (("profdata", 2), ("profraw", 1)):
        if prof[e]:
            out.append(("paths", f, tuple(sorted(prof[e]))))
    if not gcno and not prof["profraw"] and not prof["profdata"] and not any(o[0] == "content" for o in out):
        return "panic"
    return sorted(out, key=repr)


def arts_of(args):
    """(relname, cid) of every file an argument exposes (zip duplicates: the last entry of a name; links to files count)."""
    out = []
    for a in args:
        if a["kind"] == "plain":
            out.append((a["name"], a["blob"]))
        elif a["kind"] in ("zip", "dir", "zipraw"):
            for n_, cid, _h in L.model_entries(a):
                nm = bytes(n_).decode()
                if a["kind"] != "dir" and unsafe_name(nm):
                    continue                       # zip members with an absolute or '..' name are not looked at
                out.append((nm, cid))
    return out


# ---------------------------------------------------------------- canonical forms
def eng_items(ri):
    """engine items in the shape of Run.ShowProducer.show_item"""
    out = []
    for it in ri["items"]:
        k = it["kind"]
        nm = list(it.get("name", "").encode())
        if k == "content":
            out.append((0, FMT[it["format"]], nm, [], [it["cid"]], [], []))
        elif k == "buffers":
            out.append((1, 0, nm, list(bytes.fromhex(it["stem"])), [it["gcno"]], it["gcda"], []))
        elif k == "path":
            stem = bytes.fromhex(it["stem"]).decode()
            m = re.match(r"^(.*)_(\d+)\.gcno$", it["path"], re.S)
            num = int(m.group(2)) if m and os.path.normpath(m.group(1)) == os.path.normpath(stem) else 0   # the harness prints the path relative to tmp: "./" segments are gone
            out.append((2, num, nm, list(stem.encode()), [] if it["gcno"] is None else [it["gcno"]],
                        [] if it["gcda"] is None else [it["gcda"]], []))
        elif k == "paths":
            ps = []
            for r, cid in it["paths"]:
                if r.startswith("tmp:"):
                    ps.append((0, list(r[4:].encode()), [] if cid is None else [cid]))
                else:
                    ps.append((1, list(("/IN/" + r[3:]).encode()), [] if cid is None else [cid]))
            out.append((3, FMT[it["format"]], [], [], [], [], sorted(ps)))
        else:
            out.append((9, 0, [], [], [], [], []))
    return sorted(out, key=repr)


def model_items(rm):
    out = []
    for k, n, an, st, a, b, ps in rm:
        out.append((k, n, list(an), list(st), list(a), list(b), sorted((x, list(y), list(z)) for x, y, z in ps)))
    return sorted(out, key=repr)


def contents(items):
    out = []
    for k, n, an, st, a, b, ps in items:
        stem = bytes(st).decode()
        if k == 0:
            out.append(("content", n, a[0]))
        elif k == 1:
            out.append(("buffers", stem, a[0], tuple(sorted(b))))
        elif k == 2:
            out.append(("path", stem, a[0] if a else None, b[0] if b else None))
        elif k == 3:
            out.append(("paths", n, tuple(sorted(z[0] for _, _, z in ps if z))))
    return sorted(out, key=repr)


def wrap_variants(a):
    """a dir given as the nested subdirectory <name>/wrap of a directory that is not itself an argument"""
    hid = {"kind": "dir", "name": a["name"], "entries": [["wrap/" + e[0], e[1], e[2]] for e in a["entries"]] + [["outside.info", 0, "info"]]}
    return {"kind": "hidden", "arg": hid}, {"kind": "ref", "name": a["name"] + "/wrap"}


def render(pool_hex, args, is_llvm, covered, abs_):
    eargs, margs = [], []
    for a in args:
        if a.get("dup"):                               # the same directory / zip listed again: materialised once, passed again
            nm = a["name"] + ("/wrap" if a.get("wrap") else "")
            eargs.append({"kind": "ref", "name": nm})
            margs.append(dict(a, name=nm))
        elif a.get("wrap"):
            h, r = wrap_variants(a)
            eargs += [h, r]
            margs.append(dict(a, name=a["name"] + "/wrap"))
        elif a["kind"] == "ref" and "as_plain" in a:
            eargs.append({"kind": "ref", "name": a["name"]})
            margs.append({"kind": "plain", "name": a["name"], "blob": a["as_plain"]})
        else:
            eargs.append(a)
            if a["kind"] != "hidden":
                margs.append(a)
    return L.engine_case(pool_hex, eargs, is_llvm, covered, abs_), margs


def evaluate(chk, pool, layouts, label, dist):
    """layouts: [(args, is_llvm, covered, abs, group id)]"""
    ph = [b.hex() for b in pool.blobs]
    cases, margs_l = [], []
    for args, ll, cov, ab, _g in layouts:
        c, m = render(ph, args, ll, cov, ab)
        cases.append(c)
        margs_l.append(m)
    impl = vlib.run_impl("producer", cases, chk.pid, parallel=4)
    exprs = [vlib.app("run_producer", vlib.Raw("HEADS"), ll, cov, L.coq_args(m)) for (args, ll, cov, ab, _g), m in zip(layouts, margs_l)]
    prelude = "Definition HEADS : list bytes := %s." % vlib.coq(pool.heads())
    model = vlib.run_model(chk.pid, "Run.ShowProducer", exprs, prelude=prelude)
    groups = {}
    dis = []
    for (args, ll, cov, ab, gid), m, case, ri, rm in zip(layouts, margs_l, cases, impl, model):
        chk.count()
        small = {"args": m, "is_llvm": ll, "covered": cov, "abs": ab}
        arts = arts_of(m)
        exp = oracle(arts, pool.blobs, ll, cov)
        if "crash" in ri or "error" in ri:
            chk.violation({"kind": "oracle", "engine": "producer", "case": small, "impl": ri, "clause": "producer must terminate normally or with the documented failure"}, tag=label)
            continue
        if "panic" in ri:
            got = "panic" if ri["panic"].startswith("No input files found") else "panic:" + ri["panic"]
            gi = None
        else:
            gi = eng_items(ri)
            got = contents(gi)
        if got != exp:
            chk.violation({"kind": "oracle", "engine": "producer", "case": small, "impl": got, "expected": exp,
                           "clause": "every usable artifact is used exactly once (info/xml per file, gcno with the gcda of the same relative name of every archive, "
                                     "orphan gcno unless --filter covered, orphan gcda nothing, decoys nothing, no usable input => failure)"}, tag=label)
            continue
        # mapping: the linked-files-map.json content when there is exactly one candidate content
        maps = sorted({c for n_, c in arts if n_.rsplit("/", 1)[-1] == "linked-files-map.json"})
        if gi is not None:
            mp = ri["mapping"]
            if (not maps and mp is not None) or (maps and mp not in maps):
                chk.violation({"kind": "oracle", "engine": "producer", "case": small, "impl_mapping": mp, "expected_one_of": maps,
                               "clause": "the path mapping is the linked-files-map.json of the inputs"}, tag=label)
                continue
        groups.setdefault(gid, set()).add(json.dumps(got, default=str))
        # correspondence
        if isinstance(rm, tuple) and rm and rm[0] == "@@ERROR":
            dis.append({"case": small, "model": rm})
            continue
        tag, mits, mcand = rm
        if tag == 2:
            mgot, mi = "panic", None
        elif tag == 0:
            mi = model_items(mits)
            mgot = contents(mi)
        else:
            mgot, mi = "tag%d" % tag, None
        ok = (mgot == got) if gi is None else (mi == gi)
        if ok and gi is not None:
            cand = [c[0] if c else None for c in mcand]
            ok = (ri["mapping"] in cand) if cand else ri["mapping"] is None
        if not ok:
            dis.append({"case": small, "impl": gi if gi is not None else got, "model": mi if mi is not None else mgot,
                        "impl_mapping": ri.get("mapping"), "model_mapping": mcand})
            continue
        ks = [a["kind"] for a in m]
        dist["zip"] += ks.count("zip") + ks.count("zipraw")
        dist["dir"] += ks.count("dir")
        dist["plain"] += ks.count("plain")
        dist["nested_arg"] += sum(1 for a in args if a.get("wrap"))
        dist["repeated_args"] += sum(1 for a in args if a.get("dup"))
        dist["llvm"] += ll
        dist["covered"] += cov
        dist["abs_paths"] += ab
        dist["panic_no_input"] += got == "panic"
        dist["unsafe_zip_members"] += sum(1 for a in m if a["kind"] in ("zip", "zipraw") for e in a["entries"] if unsafe_name(e[0]))
        dist["short_or_straddling_jacoco_used"] += 0 if got == "panic" else sum(1 for o in got if o[0] == "content" and o[1] == 4 and len(pool.blobs[o[2]]) < 256 or o[0] == "content" and o[2] == pool.names.get("straddle_jacoco"))
        if gi is not None:
            dist["items"] += len(gi)
            dist["gcc_path_items"] += sum(1 for i in gi if i[0] == 2)
            dist["multi_gcda_buffers"] += sum(1 for i in gi if i[0] == 1 and len(i[5]) > 1)
            chk.nontrivial([sorted([a["kind"], sorted(map(str, a.get("entries", [])))] for a in m), ll, cov])
        chk.sample({"args": [(a["kind"], a["name"], len(a.get("entries", []))) for a in m], "llvm": ll, "covered": cov, "contents": got if got == "panic" else len(got)}, limit=3)
    for gid, s in groups.items():
        if len(s) > 1:
            chk.violation({"kind": "oracle", "engine": "producer", "group": gid, "outputs": sorted(s),
                           "clause": "repackaging / permuting the arguments must not change the multiset of item contents"}, tag=label + "-perm")
    for d in dis[:3]:
        d.update({"kind": "correspondence", "engine": "producer", "theorems_at_stake": "C17_* (Model/Producer.v no longer describes producer.rs)"})
        chk.violation(d, has_input=False, tag=label + "-corr")
    return groups


def gen_stream(chk, pool, n_layouts):
    rng = chk.rng
    out = []
    gid = 0
    for i in range(n_layouts):
        arts = L.artifacts_std(pool, with_prof=rng.random() < 0.4, gcc=rng.random() < 0.7)
        r = rng.random()
        if r < 0.15:
            arts = rng.sample(arts, rng.randrange(0, 6))           # small subsets: often no usable input
        elif r < 0.25:
            arts = [a for a in arts if a[0] in ("decoy", "gcda", "map")]      # nothing usable at all
        for ll in (False, True):
            for cov in (False, True):
                gid += 1
                # several packagings of the same artifacts, each in two argument orders: one group, one expected output
                for _rep in range(2 if chk.tier == "quick" else 3):
                    args = L.gen_layout(rng, arts)
                    for a in args:
                        if a["kind"] == "dir" and a["entries"] and rng.random() < 0.2:
                            a["wrap"] = True
                    out.append((args, ll, cov, rng.random() < 0.5, ("g", gid, ll, cov)))
                    sh = list(args)
                    rng.shuffle(sh)
                    out.append((sh, ll, cov, rng.random() < 0.5, ("g", gid, ll, cov)))
                    # the same directory / zip argument listed 2-3 times (adjacent, and separated): every listing counts
                    conts = [a for a in args if a["kind"] in ("dir", "zip") and a["entries"]]
                    if _rep == 0 and conts and not cov:
                        a = rng.choice(conts)
                        k = rng.choice([2, 3])
                        pos = args.index(a)
                        others = [x for x in args if x is not a]
                        dups = [dict(a, dup=True)] * (k - 1)
                        adj = args[:pos + 1] + dups + args[pos + 1:]                        # right after the first listing
                        h = len(others) // 2
                        sep = [a] + others[:h] + dups[:1] + others[h:] + dups[1:]           # the first listing materialises it: it stays first
                        out.append((adj, ll, cov, rng.random() < 0.5, ("dup", gid, ll, cov)))
                        out.append((sep, ll, cov, rng.random() < 0.5, ("dup", gid, ll, cov)))
    return out


def special_stream(pool):
    """hand-made layouts: known-finding class, symbolic links, duplicate zip entry names, exact boundary cases"""
    n = pool.names
    out = []
    # the JaCoCo signature window: short report, multi-byte character across byte 256, invalid UTF-8 around the marker (all used);
    # marker after byte 256 (not a signature); each alone and next to other input, in a directory and in a zip
    for key in ("short_jacoco", "straddle_jacoco", "badutf_jacoco", "decoy_xml_late"):
        for extra in ([], [["ok.info", n["info_a"], "info"]]):
            for kind in ("dir", "zip"):
                out.append(([{"kind": kind, "name": "c." + kind if kind == "zip" else "c", "entries": [["r.xml", n[key], "xml"]] + extra}], False, False, False, ("sniff", key, bool(extra), kind)))
    # zip members with unsafe names are skipped, whatever they are (Python zipfile keeps the names verbatim)
    for ll in (False, True):
        ents = [["../../up.info", n["info_b"], "info"], ["/abs/x.gcno", n["llvm_gcno_file"], "gcno"], ["/abs/x.gcda", n["llvm_gcda_file"], "gcda"],
                ["a/../b.xml", n["xml_1"], "xml"], ["ok/./fine.info", n["info_a"], "info"], ["obj/file.gcno", n["llvm_gcno_file"], "gcno"], ["../obj/file.gcda", n["llvm_gcda_file"], "gcda"]]
        zb2 = L.zip_bytes([(e[0], e[1]) for e in ents], pool.blobs)
        out.append(([{"kind": "zipraw", "name": "unsafe.zip", "blob": pool.add("zip_unsafe", zb2), "entries": ents}], ll, False, False, ("unsafe", ll)))
        only = [["../x.info", n["info_a"], "info"], ["/y.xml", n["xml_1"], "xml"]]
        out.append(([{"kind": "zipraw", "name": "only.zip", "blob": pool.add("zip_only_unsafe", L.zip_bytes([(e[0], e[1]) for e in only], pool.blobs)), "entries": only}], ll, False, False, ("only-unsafe", ll)))
    # symbolic links inside a directory argument
    hid = {"kind": "hidden", "arg": {"kind": "dir", "name": "h", "entries": [["r.info", n["info_b"], "info"], ["q.info", n["info_a2"], "info"]]}}
    d = {"kind": "dir", "name": "d", "entries": [["x.info", n["info_a"], "info"]],
         "links": [["l.info", "../h/r.info", n["info_b"]], ["dl", "../h", None], ["dead.info", "../nowhere", None]]}
    out.append(([d, hid], False, False, False, ("links", 0)))
    out.append(([hid, d], True, True, True, ("links", 1)))
    # duplicate entry names in a zip: the zip crate keeps the last
    zb = L.zip_bytes([("a.info", n["info_a"]), ("a.info", n["info_a2"]), ("obj/file.gcno", n["llvm_gcno_file"]),
                      ("obj/file.gcda", n["llvm_gcda_file"]), ("obj/file.gcda", n["llvm_gcda_file_branch"])], pool.blobs)
    zi = pool.add("zipdup", zb)
    out.append(([{"kind": "zipraw", "name": "dup.zip", "blob": zi,
                  "entries": [["a.info", n["info_a2"], "info"], ["obj/file.gcno", n["llvm_gcno_file"], "gcno"], ["obj/file.gcda", n["llvm_gcda_file_branch"], "gcda"]]}],
                False, False, False, ("zipdup", 0)))
    # byte-identical tracefile / report under the same relative name in two archives (zip+zip, dir+dir, zip+dir): used twice
    for k1, k2 in (("zip", "zip"), ("dir", "dir"), ("zip", "dir"), ("dir", "zip")):
        a1 = {"kind": k1, "name": "one.zip" if k1 == "zip" else "one", "entries": [["cov/a.info", n["info_a"], "info"], ["cov/r.xml", n["xml_1"], "xml"]]}
        a2 = {"kind": k2, "name": "two.zip" if k2 == "zip" else "two", "entries": [["cov/r.xml", n["xml_1"], "xml"], ["cov/a.info", n["info_a"], "info"]]}
        out.append(([a1, a2], False, False, False, ("same-name-same-bytes", 0)))
        out.append(([a2, a1], True, True, True, ("same-name-same-bytes", 1)))
    # dot-named directories and files: a directory and a zip with the same members give the same items
    dots = [["lib/.libs/d.info", n["info_dot"], "info"], [".cov.info", n["info_dotfile"], "info"], [".rep/.h.xml", n["xml_2"], "xml"],
            [".objs/fb2.gcno", n["llvm_gcno_file_branch"], "gcno"], [".objs/fb2.gcda", n["llvm_gcda_file_branch"], "gcda"], ["src/.hidden/deep/o.gcno", n["llvm_gcno_reader"], "gcno"]]
    for ll in (False, True):
        out.append(([{"kind": "dir", "name": "tree", "entries": dots}], ll, False, False, ("dots", ll)))
        out.append(([{"kind": "zip", "name": "tree.zip", "entries": dots}], ll, False, False, ("dots", ll)))
        out.append(([{"kind": "dir", "name": ".dotroot", "entries": dots, "wrap": True}], ll, False, True, ("dots", ll)))
    # zip members with a leading "./" (zip -r . style): ordinary members; the gcno and its gcda share the "./obj/file" spelling
    for ll in (False, True):
        ents = [["./a.info", n["info_a"], "info"], ["./rep/one.xml", n["xml_1"], "xml"], ["./obj/file.gcno", n["llvm_gcno_file"], "gcno"], ["./obj/file.gcda", n["llvm_gcda_file"], "gcda"],
                ["./././deep/b.info", n["info_b"], "info"], ["./gcc/o.gcno", n["gcc_gcno_orphan"], "gcno"]]
        zb3 = L.zip_bytes([(e[0], e[1]) for e in ents], pool.blobs)
        out.append(([{"kind": "zipraw", "name": "dotslash.zip", "blob": pool.add("zip_dotslash", zb3), "entries": ents}], ll, False, False, ("dotslash", ll)))
        one = [["./only.info", n["info_a"], "info"]]
        out.append(([{"kind": "zipraw", "name": "dotslash1.zip", "blob": pool.add("zip_dotslash1", L.zip_bytes([(e[0], e[1]) for e in one], pool.blobs)), "entries": one}], ll, True, True, ("dotslash1", ll)))
    # the DTD marker in other legal spellings of the DOCTYPE (wrapped lines, single quotes, extra blanks), each alone and next to other input
    for key in ("jacoco_wrapped", "jacoco_squote", "jacoco_spaces"):
        for extra in ([], [["ok.info", n["info_a"], "info"]]):
            for kind in ("dir", "zip"):
                out.append(([{"kind": kind, "name": "c." + kind if kind == "zip" else "c", "entries": [["r.xml", n[key], "xml"]] + extra}], False, False, False, ("doctype", key, bool(extra), kind)))
    # directory arguments named like files of interest (alone => must not fail; next to other input => must not be dropped), incl. a nested one
    for nm in ("coverage.info", "reports.xml", "prof.profraw", "m.profdata", "linked-files-map.json", "notes.gcno", "data.gcda", "x.info/y.xml"):
        d1 = {"kind": "dir", "name": nm, "entries": [["a.info", n["info_a"], "info"], ["sub.xml/r.xml", n["xml_1"], "xml"], ["obj/file.gcno", n["llvm_gcno_file"], "gcno"], ["obj/file.gcda", n["llvm_gcda_file"], "gcda"]]}
        out.append(([d1], False, False, False, ("dir-ext", nm, 0)))
        out.append(([{"kind": "zip", "name": "other.info.zip", "entries": [["b.info", n["info_b"], "info"]]}, d1], True, True, True, ("dir-ext", nm, 1)))
    # a DIRECTORY argument whose name ends in .zip is a directory (fixed 93a0856)
    out.append(([{"kind": "dir", "name": "cov.zip", "entries": [["a.info", n["info_a"], "info"]]}], False, False, False, ("dir-named-zip", 0)))
    # a gcda archive alone must fail; gcno alone with --filter covered yields nothing but does not fail
    out.append(([{"kind": "zip", "name": "g.zip", "entries": [["m.gcda", n["gcc_gcda_main"], "gcda"]]}], False, False, False, ("gcda-only", 0)))
    out.append(([{"kind": "zip", "name": "g.zip", "entries": [["m.gcno", n["gcc_gcno_main"], "gcno"]]}], False, True, False, ("gcno-only-covered", 0)))
    # same file as a directory member and as a plain argument: given twice, used twice
    out.append(([{"kind": "dir", "name": "d", "entries": [["a.info", n["info_a"], "info"]]}, {"kind": "ref", "name": "d/a.info", "as_plain": n["info_a"]}], False, False, False, ("twice", 0)))
    return out


# ---------------------------------------------------------------- CLI stream
def parse_lcov_records(text):
    recs = {}
    cur = None
    for line in text.split("\n"):
        if line.startswith("SF:"):
            cur = recs.setdefault(line[3:], set())
        elif line == "end_of_record":
            cur = None
        elif cur is not None and line and not line.startswith(("LF:", "LH:", "FNF:", "FNH:", "BRF:", "BRH:", "TN:")):
            cur.add(line)
    return {k: sorted(v) for k, v in recs.items()}


RENAME = {"app/file.c": "app/file_c", "a.b.c": "a_b_c", "obj\\wf": "obj/wf_ref", "bs/deep\\er.x\\fb": "bs/deep/er_x/fb"}        # dotted / backslashed stems and their plain twins


def undot(arts):
    """the same artifacts with the dotted gcno/gcda stems renamed consistently: the report must not change"""
    out = []
    for k, name, cid in arts:
        if k in ("gcno", "gcda"):
            stem, ext = name.rsplit(".", 1)
            name = RENAME.get(stem, stem) + "." + ext
        elif "\\" in name:
            name = name.replace("\\", "/").lstrip("/")
        out.append((k, name, cid))
    return out


def orphan_lines():
    """instrumented lines of test/llvm/reader.gcno according to llvm-cov's own listing without data (reader.c.0.gcov)"""
    out = []
    with open(os.path.join(L.REPO, "test/llvm/reader.c.0.gcov")) as f:
        for line in f:
            m = re.match(r"^\s*(#####|\d+):\s*(\d+):", line)
            if m:
                out.append(int(m.group(2)))
    return sorted(out)


def cli_stream(chk, pool, n, dist):
    """the real binary (main.rs passes the options on): same report for every packaging, with and without --llvm (all gcno
    fixtures are LLVM-format), for --filter covered on and off; orphan gcno = its lines with zero counts unless covered only"""
    cli = vlib.build_cli()
    rng = chk.rng
    sc = vlib.scratch("c17_cli")
    names = pool.names
    fixtures = [("gcno", "obj/file.gcno", names["llvm_gcno_file"]), ("gcda", "obj/file.gcda", names["llvm_gcda_file"]),
                ("gcno", "file_branch.gcno", names["llvm_gcno_file_branch"]), ("gcda", "file_branch.gcda", names["llvm_gcda_file_branch"]),
                ("gcno", "deep/er/reader.gcno", names["llvm_gcno_reader"]), ("gcda", "lonely.gcda", names["gcda_lonely"]),
                ("gcno", "app/file.c.gcno", names["llvm_gcno_file"]), ("gcda", "app/file.c.gcda", names["llvm_gcda_file"]), ("gcda", "app/file.gcda", names["llvm_gcda_file_branch"]),
                ("gcno", "a.b.c.gcno", names["llvm_gcno_file_branch"]), ("gcda", "a.b.c.gcda", names["llvm_gcda_file_branch"]), ("gcda", "a.gcda", names["gcda_lonely"]),
                ("gcno", "obj\\wf.gcno", names["llvm_gcno_file"]), ("gcda", "obj\\wf.gcda", names["llvm_gcda_file"]),
                ("gcno", "bs/deep\\er.x\\fb.gcno", names["llvm_gcno_file_branch"]), ("gcda", "bs/deep\\er.x\\fb.gcda", names["llvm_gcda_file_branch"])]
    base = [("info", "a.info", names["info_a"]), ("info", "logs/b.info", names["info_b"]), ("info", "a.info", names["info_a2"]),
            ("xml", "rep/one.xml", names["xml_1"]), ("xml", "two.xml", names["xml_2"]), ("xml", "short.xml", names["short_jacoco"]),
            ("xml", "rep/straddle.xml", names["straddle_jacoco"]), ("decoy", "late.xml", names["decoy_xml_late"]),
            ("xml", "rep/wrapped.xml", names["jacoco_wrapped"]), ("xml", "squote.xml", names["jacoco_squote"]), ("xml", "rep/spaces.xml", names["jacoco_spaces"]),
            ("info", "same/s.info", names["info_c"]), ("info", "same/s.info", names["info_c"]),
            ("info", "lib/.libs/d.info", names["info_dot"]), ("info", ".cov.info", names["info_dotfile"]),
            ("decoy", "decoy.info", names["decoy_info"]), ("decoy", "build.xml", names["decoy_xml"]), ("decoy", "notes.txt", names["txt"]),
            ("info", "win\\cov\\w.info", names["info_win"]), ("xml", "rep\\w.xml", names["xml_2"]), ("gcda", "obj\\wf.gcda", names["llvm_gcda_file"]),
            ("gcda", "obj/file.gcda", names["llvm_gcda_file"])] + fixtures
    exp_orphan = ["DA:%d,0" % k for k in orphan_lines()]
    seq = [0]

    def run(args, flags):
        seq[0] += 1
        root = os.path.join(sc, "r%d" % seq[0])
        os.makedirs(os.path.join(root, "in"))
        os.makedirs(os.path.join(root, "tmp"))
        argv = L.materialise(os.path.join(root, "in"), args, pool.blobs)
        p = subprocess.run([cli] + argv + flags + ["-t", "lcov"], cwd=os.path.join(root, "in"), capture_output=True, text=True,
                           env=dict(os.environ, TMPDIR=os.path.join(root, "tmp")), timeout=120)
        chk.count()
        return p

    def split(arts, by):
        a = {"kind": by[0], "name": "notes.zip" if by[0] == "zip" else "notes", "entries": [[n_, c, k] for k, n_, c in arts if k == "gcno"]}
        b = {"kind": by[1], "name": "data.zip" if by[1] == "zip" else "data", "entries": [[n_, c, k] for k, n_, c in arts if k != "gcno"]}
        return a, b

    def group(label, packagings, filt, first_full):
        """all (packaging, --llvm on/off) runs of one artifact set: one report; then the report itself"""
        reps = []
        for args in packagings:
            for ll in ([], ["--llvm"]):
                flags = ll + (["--filter", filt] if filt else [])
                p = run(args, flags)
                if p.returncode != 0:
                    chk.violation({"kind": "oracle", "engine": "cli", "args": args, "flags": flags, "stderr": p.stderr[-800:], "clause": "a layout with usable input must produce a report"}, tag="cli")
                    continue
                reps.append((args, flags, parse_lcov_records(p.stdout)))
        for args, flags, r in reps[1:]:
            if r != reps[0][2]:
                chk.violation({"kind": "oracle", "engine": "cli", "group": label, "layout_a": reps[0][0], "flags_a": reps[0][1], "layout_b": args, "flags_b": flags,
                               "report_a": reps[0][2], "report_b": r,
                               "clause": "every packaging of the same artifacts (dotted gcno/gcda stems renamed consistently included), with and without --llvm for LLVM-format "
                                         "gcno files, gives the same lcov report (as a set of records)"}, tag="cli")
                break
        if not reps:
            return
        dist["cli_layout_groups"] += 1
        dist["cli_records"] = max(dist["cli_records"], sum(len(v) for v in reps[0][2].values()))
        for args, flags, r in reps:
            got = [x for x in r.get("reader.c", []) if x.startswith("DA:")]
            want = [] if filt == "covered" else exp_orphan
            if sorted(got) != sorted(want):
                chk.violation({"kind": "oracle", "engine": "cli", "group": label, "args": args, "flags": flags, "reader.c": got, "expected": want,
                               "clause": "a gcno without any gcda contributes its lines with zero counts unless only covered files were requested (--filter covered); "
                                         "with --filter uncovered its all-zero record is in the report"}, tag="cli-orphan")
                break
        r = reps[0][2]
        if filt == "uncovered":
            if "file.c" in r or "file_branch.c" in r:
                chk.violation({"kind": "oracle", "engine": "cli", "group": label, "report": sorted(r), "clause": "--filter uncovered: files with executed lines are not reported"}, tag="cli")
        elif "file.c" not in r or "file_branch.c" not in r:
            chk.violation({"kind": "oracle", "engine": "cli", "group": label, "report": sorted(r), "clause": "gcno files with gcda are reported"}, tag="cli")
        if first_full:
            if "p/S.java" not in r or "p/T.java" not in r:
                chk.violation({"kind": "oracle", "engine": "cli", "report": sorted(r), "clause": "the 204-byte JaCoCo report and the one with a character across byte 256 are used"}, tag="cli")
            if "p/W.java" not in r or "p/Q.java" not in r or "p/Sp.java" not in r:
                chk.violation({"kind": "oracle", "engine": "cli", "report": sorted(r), "clause": "JaCoCo reports whose DOCTYPE is wrapped over lines, single-quoted or spaced out carry the same DTD marker and are used"}, tag="cli")
            if "DA:1,3" not in r.get("src/a.c", []):
                chk.violation({"kind": "oracle", "engine": "cli", "report": r, "clause": "both a.info files are used exactly once (line 1 of src/a.c: 1+2)"}, tag="cli")
            if "DA:1,10" not in r.get("src/c.c", []):
                chk.violation({"kind": "oracle", "engine": "cli", "args": reps[0][0], "report": r, "clause": "same/s.info is given in two archives (same name, same bytes): both occurrences are used (line 1 of src/c.c: 5+5)"}, tag="cli")
            if "DA:1,7" not in r.get("src/win.c", []):
                chk.violation({"kind": "oracle", "engine": "cli", "args": reps[0][0], "report": sorted(r), "clause": "a tracefile whose name contains backslashes (win\\cov\\w.info) is used like any other"}, tag="cli")
            if "src/dot.c" not in r or "src/dotfile.c" not in r:
                chk.violation({"kind": "oracle", "engine": "cli", "args": reps[0][0], "report": sorted(r), "clause": "lib/.libs/d.info and .cov.info are used however they are packaged"}, tag="cli")
        chk.nontrivial(["cli", label, filt, sorted(r)])

    for filt in (None, "covered", "uncovered"):
        # the LLVM fixtures alone: one directory, notes and data directories in both orders, one zip, notes zip + data zip, zip + dir,
        # and one directory with the dotted stems renamed
        one = lambda kind, arts: [{"kind": kind, "name": "all.zip" if kind == "zip" else "all", "entries": [[n_, c, k] for k, n_, c in arts]}]
        nd = split(fixtures, ("dir", "dir"))
        nz = split(fixtures, ("zip", "zip"))
        mz = split(fixtures, ("zip", "dir"))
        group("fixtures", [one("dir", fixtures), [nd[0], nd[1]], [nd[1], nd[0]], one("zip", fixtures), [nz[1], nz[0]], [mz[0], mz[1]], one("dir", undot(fixtures)),
                           [dict(one("dir", fixtures)[0], name="cov.profraw")], [dict(nd[1], name="data.gcda"), dict(nd[0], name="notes.xml")]], filt, False)
        # the same directory / zip listed 2-3 times: every listing counts, exactly as if it were another archive with the same contents
        for kind in ("dir", "zip"):
            nts, dat = split(fixtures, (kind, kind))
            dat2 = dict(dat, name="copy_of_" + dat["name"])
            dat3 = dict(dat, name="third_" + dat["name"])
            rep = {"kind": "ref", "name": dat["name"]}
            group("twice-" + kind, [[nts, dat, dat2], [nts, dat, rep], [dat, nts, rep], [dat, rep, nts]], filt, False)
            if filt is None:
                group("thrice-" + kind, [[nts, dat, dat2, dat3], [dat, rep, nts, rep], [nts, dat, rep, rep]], filt, False)
            allz = one(kind, fixtures)[0]
            group("whole-twice-" + kind, [[allz, dict(allz, name="copy_of_" + allz["name"])], [allz, {"kind": "ref", "name": allz["name"]}]], filt, False)
        # everything, random packagings (one of them with the dotted stems renamed)
        for i in range(n):
            group("full%d" % i, [L.gen_layout(rng, base), L.gen_layout(rng, base), L.gen_layout(rng, undot(base))], filt, i == 0 and not filt)
    # no usable input => non-zero exit, whatever the packaging and the flags
    nothing = [a for a in base if a[0] in ("decoy", "gcda")]
    for j in range(4):
        args = L.gen_layout(rng, nothing)
        flags = [[], ["--llvm"], ["--filter", "covered"], ["--llvm", "--filter", "covered"]][j]
        p = run(args, flags)
        dist["cli_no_input_runs"] += 1
        if p.returncode == 0:
            chk.violation({"kind": "oracle", "engine": "cli", "args": args, "flags": flags, "stdout": p.stdout[:300], "clause": "no usable input => the run fails"}, tag="cli-none")
    import shutil
    shutil.rmtree(sc, ignore_errors=True)


def run(chk):
    chk.proofs()
    pool = L.standard_pool()
    dist = dict.fromkeys(["zip", "dir", "plain", "nested_arg", "llvm", "covered", "abs_paths", "panic_no_input", "items", "gcc_path_items",
                          "multi_gcda_buffers", "repeated_args", "unsafe_zip_members", "short_or_straddling_jacoco_used", "cli_layout_groups", "cli_records", "cli_no_input_runs"], 0)
    sp = special_stream(pool)             # may add blobs: before the generated stream renders the pool
    lay = gen_stream(chk, pool, 20 if chk.tier == "quick" else 150)
    groups = evaluate(chk, pool, lay, "gen", dist)
    evaluate(chk, pool, sp, "special", dist)
    dist["layout_groups"] = len(groups)
    cli_stream(chk, pool, 2 if chk.tier == "quick" else 10, dist)
    chk.extra["distribution"] = dist
    chk.cov["rule"] = ("a fixed pool of artifacts (lcov files incl. two with the same name and different bytes, one shipped twice byte-identically under the same relative name, members under dot-named directories and with dot-prefixed names, 4 JaCoCo reports (204, 256, 300 bytes and one with a two-byte character across byte 256), 10 decoys incl. a DTD marker after byte 256, 3 LLVM-format and 2 GCC-format "
                       "gcno with 0-2 gcda each, an orphan gcda, linked-files-map.json, optional profraw files; random subsets incl. nothing usable) distributed at random over "
                       "1-5 directories / zip archives / plain file arguments with random nesting (directory and nested-directory names also ending in .info/.json/.xml/.profraw/.profdata/.gcno/.gcda, nested *.zip directories, zips named *.info.zip), nested-subdirectory arguments, relative and absolute argument spellings, "
                       "each packaging in two argument orders, --llvm on/off x --filter covered on/off; grcov::producer (unbounded channel, items and extracted files read back) "
                       "vs Gallina work_items (item for item, incl. archive names, link numbers and temp-file names) vs the driver's reading of the property; all packagings of "
                       "one artifact set must give one multiset of item contents; hand-made stream (symlinks, duplicate zip names, the 256-byte signature window incl. invalid UTF-8 around the marker, zip members with absolute / '..' names); CLI stream (real binary, so main.rs's option plumbing is covered): LLVM fixtures incl. an orphan gcno, dotted stems (file.c.gcno) next to a decoy file.gcda, "
                       "as one dir / notes+data dirs in both orders / zips / renamed stems / directories named cov.profraw, notes.xml, data.gcda / the data directory or zip listed 2-3 times (= as many copies) / names with backslashes, and the full pool in random packagings, each with and without --llvm x --filter {none, covered, uncovered}: one report per artifact set, "
                       "orphan lines = llvm-cov's own listing (reader.c.0.gcov) with zero counts unless covered only; no usable input exits non-zero; non-trivial = distinct layout producing items")
    chk.cov["trusted_base"] = ["Coq kernel; vm_compute for the correspondence",
                               "walkdir and the zip crate: the list of (relative name, content) of each archive is computed by the driver from its own layout description "
                               "(zip duplicates: last entry; links to files are files) and is validated only differentially",
                               "FxHashMap iteration order: modelled as insertion order, compared as multisets",
                               "impl_run harness (materialises the layout, reads back the extracted files), Python reference"]
    chk.assumptions = ["the JaCoCo signature is the DTD marker within the first 256 bytes of the file (a report whose DOCTYPE starts later, e.g. after a long comment, does not carry the signature)",
                       "zip members whose name is absolute or has a '..' component are not part of the input (skipped with a warning since fix ee819ce)",
                       "archive member names are valid UTF-8, non-empty and do not end in '/'; files are readable",
                       "one gcno content per relative name across the archives of a run (otherwise the last archive wins; hash order when the formats differ)"]


def replay(chk, path):
    r = json.load(open(path))
    pool = L.standard_pool()
    special_stream(pool)
    if "case" in r and "args" in r["case"]:
        c = r["case"]
        dist = dict.fromkeys(["zip", "dir", "plain", "nested_arg", "llvm", "covered", "abs_paths", "panic_no_input", "items", "gcc_path_items",
                              "multi_gcda_buffers", "repeated_args", "unsafe_zip_members", "short_or_straddling_jacoco_used"], 0)
        evaluate(chk, pool, [(c["args"], c["is_llvm"], c["covered"], c.get("abs", False), "replay")], "replay", dist)
    else:
        chk.proofs()
