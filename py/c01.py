"""C01 - aggregation law.  Proof obligations + merge engine correspondence + property oracle."""
import itertools, json
import vlib, gen


def gen_cases(chk, n):
    rng = chk.rng
    cases = []
    small_lines = [1, 2, 3]
    small_names = ["f", "gé"]
    for i in range(n):
        k = rng.choice([2, 2, 3, 3, 4, 5])
        if i % 3 == 0:   # dense small universe: many collisions
            covs = [gen.cov(rng, 3, small_lines, small_names) for _ in range(k)]
        else:
            covs = [gen.cov(rng) for _ in range(k)]
        if i % 7 == 0:
            covs[rng.randrange(k)] = {"lines": [], "branches": [], "funcs": []}
        cases.append({"covs": covs, "tree": gen.random_tree(rng, range(k))})
    return cases


def exhaustive_cases():
    """all pairs over a tiny universe: 2 lines x counts {0,1,MAX-1,MAX} or absent, one branch line
    with vectors of length 0..2, one function absent/unexec/exec with two starts; both orders."""
    U = gen.U64
    cs = [None, 0, 1, U - 1, U]
    vecs = [None, [False], [True], [False, True], [True, False]]
    fns = [None, (1, False), (1, True), (2, True)]
    covs = []
    for a, b, v, f in itertools.product(cs, [None, 1, U], vecs, fns):
        c = {"lines": [], "branches": [], "funcs": []}
        if a is not None:
            c["lines"].append([1, a])
        if b is not None:
            c["lines"].append([2, b])
        if v is not None:
            c["branches"].append([1, v])
        if f is not None:
            c["funcs"].append([gen.hexname("f"), f[0], f[1]])
        covs.append(c)
    cases = []
    for x, y in itertools.product(covs, covs):
        cases.append({"covs": [x, y], "tree": [0, 1]})
    return cases


def evaluate(chk, cases, label):
    impl = vlib.run_impl("merge", cases, chk.pid, parallel=8)
    exprs = [vlib.app("run_merge", [gen.cov_coq(c) for c in case["covs"]], gen.tree_coq(case["tree"])) for case in cases]
    model = vlib.run_model(chk.pid, "Model.Merge Run.Show", exprs)
    stats = {"saturating": 0, "unequal_vectors": 0, "start_conflict": 0, "with_empty": 0}
    disagreements = []
    for case, ri, rm in zip(cases, impl, model):
        chk.count()
        covs = [case["covs"][i] for i in gen.tree_leaves(case["tree"])]
        ref = gen.ref_agg(covs)
        # distribution
        raw = {}
        for c in covs:
            for l, n in c["lines"]:
                raw[l] = raw.get(l, 0) + n
        sat = any(v > gen.U64 for v in raw.values())
        lens = {}
        uneq = False
        for c in covs:
            for l, v in c["branches"]:
                if l in lens and lens[l] != len(v):
                    uneq = True
                lens[l] = len(v)
        conflict = any(len(st) > 1 for st, _ in ref["funcs"].values())
        stats["saturating"] += sat
        stats["unequal_vectors"] += uneq
        stats["start_conflict"] += conflict
        stats["with_empty"] += any(not c["lines"] and not c["branches"] and not c["funcs"] for c in covs)
        if sat or uneq or conflict or len(covs) > 2:
            chk.nontrivial(case)
        # property oracle on the implementation
        if "ok" not in ri:
            chk.violation({"kind": "oracle", "engine": "merge", "case": case, "impl": ri,
                           "clause": "merge_results must return a result"}, tag=label)
            continue
        why = gen.obs_matches(ri["ok"], ref)
        if why:
            chk.violation({"kind": "oracle", "engine": "merge", "case": case, "impl": ri["ok"],
                           "expected": {"lines": ref["lines"], "branches": ref["branches"]},
                           "clause": why}, tag=label)
            continue
        # correspondence
        if isinstance(rm, tuple) and rm and rm[0] == "@@ERROR":
            disagreements.append((case, ri, rm))
            continue
        mj = gen.cov_from_coq(rm)
        if vlib.canon(mj) != vlib.canon(gen.cov_canon(ri["ok"])):
            disagreements.append((case, ri["ok"], mj))
        else:
            chk.sample({"case": case, "impl": ri["ok"], "model": mj})
    for case, ri, rm in disagreements[:3]:
        # oracle held on every case (else we would not be here for this case): no failing input
        chk.violation({"kind": "correspondence", "engine": "merge", "theorems_at_stake": "C01_* (model/Merge.v no longer describes merge_results)",
                       "case": case, "impl": ri, "model": rm}, has_input=False, tag=label + "-corr")
    return stats


def gen_batches(rng):
    """batches of (file, record): several batches name the same files; some records say nothing (empty) or name functions only"""
    paths = rng.sample(gen.PATHS, rng.randrange(1, 4))
    batches = []
    for _ in range(rng.randrange(1, 5)):
        b = []
        for p in rng.sample(paths, rng.randrange(1, len(paths) + 1)) + ([rng.choice(paths)] if rng.random() < 0.3 else []):
            c = gen.cov(rng, 4, [1, 2, 3, 7], ["f", "gé", "2,3#o"])
            r = rng.random()
            if r < 0.15:
                c = {"lines": [], "branches": [], "funcs": c["funcs"]}            # functions only
            elif r < 0.25:
                c = {"lines": [], "branches": c["branches"], "funcs": []}          # branches only
            elif r < 0.3:
                c = {"lines": [], "branches": [], "funcs": []}                     # says nothing
            b.append([gen.hexname(p), c])
        batches.append(b)
    return batches


def evaluate_files(chk, n):
    """file level (add_results, private): batches go through the real consumer loop as lcov items"""
    cases = [{"batches": gen_batches(chk.rng), "branch": True} for _ in range(n)]
    impl = vlib.run_impl("consume", cases, chk.pid, parallel=4)
    exprs = [vlib.app("run_addres", [[(list(bytes.fromhex(nm)), gen.cov_coq(c)) for nm, c in b] for b in case["batches"]]) for case in cases]
    model = vlib.run_model(chk.pid, "Run.Show", exprs)
    dis = []
    for case, ri, rm in zip(cases, impl, model):
        chk.count()
        if "ok" not in ri:
            chk.violation({"kind": "oracle", "engine": "consume", "case": case, "impl": ri, "clause": "the consumer must aggregate the batches"}, tag="files")
            continue
        got = {nm: c for nm, c in ri["ok"]}
        by = {}
        for b in case["batches"]:
            for nm, c in b:
                by.setdefault(nm, []).append(c)
        bad = None
        if set(got) != set(by):
            bad = "reported files %s, expected %s" % (sorted(got), sorted(by))
        else:
            for nm, cs in by.items():
                why = gen.obs_matches(got[nm], gen.ref_agg(cs))
                if why:
                    bad = "file %s: %s" % (bytes.fromhex(nm).decode(), why)
        if bad:
            chk.violation({"kind": "oracle", "engine": "consume", "case": case, "impl": ri["ok"],
                           "clause": "every file's record is the aggregate of all records given for it, a record that says nothing changes nothing: " + bad}, tag="files")
            continue
        if isinstance(rm, tuple) and rm and rm[0] == "@@ERROR":
            dis.append((case, ri["ok"], rm))
            continue
        mj = sorted([[bytes(nm).hex(), gen.cov_from_coq(c)] for nm, c in rm])
        ij = sorted([[nm, gen.cov_canon(c)] for nm, c in ri["ok"]])
        if vlib.canon(mj) != vlib.canon(ij):
            dis.append((case, ij, mj))
        else:
            chk.nontrivial(case)
    for case, ri, rm in dis[:3]:
        chk.violation({"kind": "correspondence", "engine": "consume", "theorems_at_stake": "C01_file_* (add_results of Model/Merge.v no longer describes lib.rs add_results)",
                       "case": case, "impl": ri, "model": rm}, has_input=False, tag="files-corr")


def run(chk):
    chk.proofs()
    n = 600 if chk.tier == "quick" else 12000
    cases = gen_cases(chk, n)
    stats = evaluate(chk, cases, "gen")
    evaluate_files(chk, 200 if chk.tier == "quick" else 3000)
    if chk.tier == "thorough":
        ex = exhaustive_cases()
        s2 = evaluate(chk, ex, "exh")
        chk.extra["exhaustive_pairs"] = len(ex)
        for k in s2:
            stats[k] += s2[k]
    chk.extra["distribution"] = stats
    chk.cov["rule"] = ("random lists of 2-5 coverage records (boundary-count pool incl. 2^64-1, vectors of length 1-6, "
                       "UTF-8 names), combined along a random permutation and random parenthesisation; implementation "
                       "merge_results vs Gallina merge_loop under vm_compute, plus the property's reference aggregate "
                       "evaluated on the implementation result; non-trivial = saturating sum, unequal vector lengths, "
                       "conflicting start lines or more than two inputs; distinct by case content")
    chk.cov["trusted_base"] = ["Coq 8.16.1 kernel + vm_compute (correspondence evaluation only)", "std++ gmap",
                               "harness impl_run (serde_json), Python differ",
                               "modelled: BTreeMap/FxHashMap as finite maps; u64 checked_add as N.min(a+b, 2^64-1)"]
    chk.assumptions = ["merge_results is exercised through the public library API of /repo's working tree",
                       "hash-map iteration order is not modelled (results compared as sorted maps)"]


def replay(chk, path):
    r = json.load(open(path))
    if "case" in r:
        evaluate(chk, [r["case"]], "replay")
    else:
        chk.proofs()
