"""C01 - aggregation law.  Proof obligations + merge engine correspondence + property oracle."""
import itertools, json
import vlib, gen


def gen_cases(chk, n):
    rng = chk.rng
    cases = []
    small_lines = [1, 2, 3]
    small_names = ["f", "gé"]
    for i in range(n):
        k = rng.choice([2, 2, 3, 3, 4, 5])
        if i % 3 == 0:   # dense small universe: many collisions
            covs = [gen.cov(rng, 3, small_lines, small_names) for _ in range(k)]
        else:
            covs = [gen.cov(rng) for _ in range(k)]
        if i % 7 == 0:
            covs[rng.randrange(k)] = {"lines": [], "branches": [], "funcs": []}
        cases.append({"covs": covs, "tree": gen.random_tree(rng, range(k))})
    return cases


def exhaustive_cases():
    """all pairs over a tiny universe: 2 lines x counts {0,1,MAX-1,MAX} or absent, one branch line
    with vectors of length 0..2, one function absent/unexec/exec with two starts; both orders."""
    U = gen.U64
    cs = [None, 0, 1, U - 1, U]
    vecs = [None, [False], [True], [False, True], [True, False]]
    fns = [None, (1, False), (1, True), (2, True)]
    covs = []
    for a, b, v, f in itertools.product(cs, [None, 1, U], vecs, fns):
        c = {"lines": [], "branches": [], "funcs": []}
        if a is not None:
            c["lines"].append([1, a])
        if b is not None:
            c["lines"].append([2, b])
        if v is not None:
            c["branches"].append([1, v])
        if f is not None:
            c["funcs"].append([gen.hexname("f"), f[0], f[1]])
        covs.append(c)
    cases = []
    for x, y in itertools.product(covs, covs):
        cases.append({"covs": [x, y], "tree": [0, 1]})
    return cases


def evaluate(chk, cases, label):
    impl = vlib.run_impl("merge", cases, chk.pid, parallel=8)
    exprs = [vlib.app("run_merge", [gen.cov_coq(c) for c in case["covs"]], gen.tree_coq(case["tree"])) for case in cases]
    model = vlib.run_model(chk.pid, "Model.Merge Run.Show", exprs)
    stats = {"saturating": 0, "unequal_vectors": 0, "start_conflict": 0, "with_empty": 0}
    disagreements = []
    for case, ri, rm in zip(cases, impl, model):
        chk.count()
        covs = [case["covs"][i] for i in gen.tree_leaves(case["tree"])]
        ref = gen.ref_agg(covs)
        # distribution
        raw = {}
        for c in covs:
            for l, n in c["lines"]:
                raw[l] = raw.get(l, 0) + n
        sat = any(v > gen.U64 for v in raw.values())
        lens = {}
        uneq = False
        for c in covs:
            for l, v in c["branches"]:
                if l in lens and lens[l] != len(v):
                    uneq = True
                lens[l] = len(v)
        conflict = any(len(st) > 1 for st, _ in ref["funcs"].values())
        stats["saturating"] += sat
        stats["unequal_vectors"] += uneq
        stats["start_conflict"] += conflict
        stats["with_empty"] += any(not c["lines"] and not c["branches"] and not c["funcs"] for c in covs)
        if sat or uneq or conflict or len(covs) > 2:
            chk.nontrivial(case)
        # property oracle on the implementation
        if "ok" not in ri:
            chk.violation({"kind": "oracle", "engine": "merge", "case": case, "impl": ri,
                           "clause": "merge_results must return a result"}, tag=label)
            continue
        why = gen.obs_matches(ri["ok"], ref)
        if why:
            chk.violation({"kind": "oracle", "engine": "merge", "case": case, "impl": ri["ok"],
                           "expected": {"lines": ref["lines"], "branches": ref["branches"]},
                           "clause": why}, tag=label)
            continue
        # correspondence
        if isinstance(rm, tuple) and rm and rm[0] == "@@ERROR":
            disagreements.append((case, ri, rm))
            continue
        mj = gen.cov_from_coq(rm)
        if vlib.canon(mj) != vlib.canon(gen.cov_canon(ri["ok"])):
            disagreements.append((case, ri["ok"], mj))
        else:
            chk.sample({"case": case, "impl": ri["ok"], "model": mj})
    for case, ri, rm in disagreements[:3]:
        # oracle held on every case (else we would not be here for this case): no failing input
        chk.violation({"kind": "correspondence", "engine": "merge", "theorems_at_stake": "C01_* (model/Merge.v no longer describes merge_results)",
                       "case": case, "impl": ri, "model": rm}, has_input=False, tag=label + "-corr")
    return stats


def run(chk):
    chk.proofs()
    n = 600 if chk.tier == "quick" else 12000
    cases = gen_cases(chk, n)
    stats = evaluate(chk, cases, "gen")
    if chk.tier == "thorough":
        ex = exhaustive_cases()
        s2 = evaluate(chk, ex, "exh")
        chk.extra["exhaustive_pairs"] = len(ex)
        for k in s2:
            stats[k] += s2[k]
    chk.extra["distribution"] = stats
    chk.cov["rule"] = ("random lists of 2-5 coverage records (boundary-count pool incl. 2^64-1, vectors of length 1-6, "
                       "UTF-8 names), combined along a random permutation and random parenthesisation; implementation "
                       "merge_results vs Gallina merge_loop under vm_compute, plus the property's reference aggregate "
                       "evaluated on the implementation result; non-trivial = saturating sum, unequal vector lengths, "
                       "conflicting start lines or more than two inputs; distinct by case content")
    chk.cov["trusted_base"] = ["Coq 8.16.1 kernel + vm_compute (correspondence evaluation only)", "std++ gmap",
                               "harness impl_run (serde_json), Python differ",
                               "modelled: BTreeMap/FxHashMap as finite maps; u64 checked_add as N.min(a+b, 2^64-1)"]
    chk.assumptions = ["merge_results is exercised through the public library API of /repo's working tree",
                       "hash-map iteration order is not modelled (results compared as sorted maps)"]


def replay(chk, path):
    r = json.load(open(path))
    if "case" in r:
        evaluate(chk, [r["case"]], "replay")
    else:
        chk.proofs()
