# properties not (yet) claimed, with the reason recorded in MANIFEST.not_applicable
NOT_YET = {("C%02d" % i): "check not built yet in this revision (planned: DESIGN.md section 6); not claimed until its proof and correspondence run" for i in range(1, 21)}
