"""Shared machinery of the grcov verification checks (DESIGN.md sections 1, 3, 4).

Proof obligations (Coq), implementation build (cargo), correspondence runs
(impl_run vs coqc/vm_compute), verdicts, evidence.
"""
import concurrent.futures
import hashlib
import json
import os
import random
import re
import shutil
import subprocess
import sys
import time

VERIF = os.path.dirname(os.path.dirname(os.path.abspath(__file__)))
REPO = os.environ.get("GRCOV_REPO", "/repo")
COQ = os.path.join(VERIF, "coq")
BUILD = os.path.join(VERIF, ".build")
# GRCOV_REPO=<dir> points the checks at another checkout (used to try seeded changes in a scratch worktree
# without touching /repo); build products are kept apart per checkout
_TAG = "" if REPO == "/repo" else "-" + hashlib.sha1(REPO.encode()).hexdigest()[:8]
TARGET = os.path.join(BUILD, "target" + _TAG)
CLI_TARGET = os.path.join(BUILD, "target-cli" + _TAG)
EVID = os.environ.get("VERIF_EVIDENCE_DIR", os.path.join(VERIF, "evidence"))
REPLAYS = os.path.join(EVID, "replays")
GUARD = "mozilla_grcov_verif"
NPROC = 16
COQ_PAR = int(os.environ.get("VERIF_COQ_PAR", "6"))   # more concurrent coqc than this thrash in system time on this machine

ALLOWED_AXIOMS = {
    # standard-library axioms that may appear; each is reported in the evidence when it does
    "FunctionalExtensionality.functional_extensionality_dep",
    "functional_extensionality_dep",
    "Classical_Prop.classic",
    "ClassicalDedekindReals.sig_forall_dec",
    "ClassicalDedekindReals.sig_not_dec",
}
FORBIDDEN = re.compile(
    r"\b(Admitted|admit|Axiom|Axioms|Parameter|Parameters|Conjecture|Conjectures|Abort All)\b"
    r"|Unset\s+Guard|bypass_check|type-in-type|impredicative-set|Admit\s+Obligations"
    r"|Unset\s+Universe\s+Checking|Unset\s+Positivity"
)


def log(*a):
    print(*a, file=sys.stderr, flush=True)


def sh(cmd, cwd=None, env=None, timeout=None, check=False, input=None):
    e = dict(os.environ)
    e["CARGO_NET_OFFLINE"] = "true"
    if env:
        e.update(env)
    text = isinstance(input, str) or input is None
    # (a panic message can quote bytes that are not UTF-8: never let the decoding of a tool's output end the check)
    p = subprocess.run(cmd, cwd=cwd, env=e, stdout=subprocess.PIPE, stderr=subprocess.PIPE,
                       timeout=timeout, input=input, **({"encoding": "utf-8", "errors": "replace"} if text else {}))
    if check and p.returncode != 0:
        raise RuntimeError("command failed: %s\n%s\n%s" % (cmd, p.stdout[-4000:], p.stderr[-4000:]))
    return p


# ----------------------------------------------------------------------------
# Coq side
# ----------------------------------------------------------------------------

def coq_prepare():
    if not os.path.exists(os.path.join(COQ, "Makefile")) or \
       os.path.getmtime(os.path.join(COQ, "Makefile")) < newest_v_listing():
        sh(["sh", os.path.join(COQ, "regen.sh")], check=True)


def newest_v_listing():
    # the Makefile must be regenerated when the set of .v files changes
    names = []
    for d, _, fs in os.walk(os.path.join(COQ, "theories")):
        for f in fs:
            if f.endswith(".v"):
                names.append(os.path.join(d, f))
    stamp = os.path.join(COQ, ".vlist")
    cur = "\n".join(sorted(names))
    old = open(stamp).read() if os.path.exists(stamp) else None
    if old != cur:
        with open(stamp, "w") as f:
            f.write(cur)
        return time.time() + 1
    return 0


def coq_make(targets, timeout=3000):
    """Full .vo build of the given targets (never -vos).  Returns (ok, output)."""
    coq_prepare()
    p = sh(["timeout", str(timeout), "make", "-C", COQ, "-j%d" % COQ_PAR] + targets)
    return p.returncode == 0, p.stdout + p.stderr


def theorem_statements(pid):
    """(name, normalised statement) for every Theorem of Props/<pid>.v."""
    src = open(os.path.join(COQ, "theories", "Props", pid + ".v")).read()
    src_nc = strip_comments(src)
    out = []
    for m in re.finditer(r"\bTheorem\s+(\w+)\s*:(.*?)\bProof\.", src_nc, re.S):
        out.append((m.group(1), " ".join(m.group(2).split())))
    return out, src_nc


def strip_comments(s):
    out = []
    depth = 0
    i = 0
    while i < len(s):
        if s.startswith("(*", i):
            depth += 1
            i += 2
        elif s.startswith("*)", i) and depth > 0:
            depth -= 1
            i += 2
        else:
            if depth == 0:
                out.append(s[i])
            i += 1
    return "".join(out)


def forbidden_scan():
    """grep the whole development for declarations that would void the proofs."""
    hits = []
    for d, _, fs in os.walk(os.path.join(COQ, "theories")):
        for f in fs:
            if not f.endswith(".v"):
                continue
            p = os.path.join(d, f)
            txt = strip_comments(open(p).read())
            for n, line in enumerate(txt.split("\n"), 1):
                if FORBIDDEN.search(line):
                    hits.append("%s:%d: %s" % (os.path.relpath(p, VERIF), n, line.strip()))
                if re.match(r"\s*(Variable|Variables|Hypothesis|Hypotheses|Context)\b", line):
                    # allowed only inside a Section; checked by sectioning below
                    pass
            hits += unsectioned_variables(p, txt)
    for f in ("_CoqProject",):
        txt = open(os.path.join(COQ, f)).read()
        if re.search(r"type-in-type|impredicative-set|-vos|-vok|bypass", txt):
            hits.append("%s: forbidden flag" % f)
    return hits


def unsectioned_variables(path, txt):
    hits = []
    depth = 0
    for n, line in enumerate(txt.split("\n"), 1):
        if re.match(r"\s*Section\s+\w+", line):
            depth += 1
        elif re.match(r"\s*End\s+\w+\s*\.", line) and depth > 0:
            depth -= 1
        elif depth == 0 and re.match(r"\s*(Variable|Variables|Hypothesis|Hypotheses)\b", line):
            hits.append("%s:%d: Variable/Hypothesis outside a section" % (os.path.relpath(path, VERIF), n))
    return hits


def proof_obligations(pid):
    """Build Props/<pid>.vo, check pins, Print Assumptions for every theorem.

    Returns dict(obligations, discharged, failures[list of str], axioms{thm: [..]}, checker_cmd, theorems[...]).
    """
    res = {"obligations": 0, "discharged": 0, "failures": [], "axioms": {}, "theorems": []}
    target = "theories/Props/%s.vo" % pid
    res["checker_cmd"] = "make -C coq -j%d %s && coqc -Q theories Grcov assumptions_%s.v (Print Assumptions of every theorem)" % (NPROC, target, pid)
    thms, _ = theorem_statements(pid)
    res["obligations"] = len(thms)
    res["theorems"] = [t for t, _ in thms]
    ok, out = coq_make([target])
    if not ok:
        res["failures"].append("coq build of %s failed: %s" % (target, out[-1500:]))
        return res
    # pins
    pinfile = os.path.join(COQ, "pins", pid + ".json")
    if not os.path.exists(pinfile):
        res["failures"].append("no pin file for %s (run bin/pin %s)" % (pid, pid))
        return res
    pins = json.load(open(pinfile))
    cur = dict(thms)
    for name, stmt in pins.items():
        if name not in cur:
            res["failures"].append("pinned theorem %s is missing from Props/%s.v" % (name, pid))
        elif cur[name] != stmt:
            res["failures"].append("statement of %s differs from its pin" % name)
    for name in cur:
        if name not in pins:
            res["failures"].append("theorem %s is not pinned" % name)
    bad = forbidden_scan()
    for h in bad:
        res["failures"].append("forbidden: " + h)
    # Print Assumptions
    sc = scratch("coq_" + pid)
    vf = os.path.join(sc, "assumptions_%s.v" % pid)
    with open(vf, "w") as f:
        f.write("From Grcov Require Import Props.%s.\n" % pid)
        for name, _ in thms:
            f.write('Goal True. idtac "@@THM %s". exact I. Qed.\nPrint Assumptions %s.\n' % (name, name))
    p = sh(["timeout", "600", "coqc", "-noglob", "-Q", os.path.join(COQ, "theories"), "Grcov", vf], cwd=sc)
    if p.returncode != 0:
        res["failures"].append("Print Assumptions run failed: " + (p.stdout + p.stderr)[-1500:])
        return res
    cur_name = None
    closed = {}
    for line in p.stdout.split("\n"):
        m = re.match(r"@@THM (\w+)", line)
        if m:
            cur_name = m.group(1)
            closed[cur_name] = None
            res["axioms"][cur_name] = []
            continue
        if cur_name is None:
            continue
        if "Closed under the global context" in line:
            closed[cur_name] = True
        else:
            m = re.match(r"^([A-Za-z_][\w.']*)\s*:", line)
            if m and m.group(1) != "Axioms":
                res["axioms"][cur_name].append(m.group(1))
    for name, _ in thms:
        ax = res["axioms"].get(name)
        if ax is None:
            res["failures"].append("no Print Assumptions output for " + name)
            continue
        notallowed = [a for a in ax if a not in ALLOWED_AXIOMS and a.split(".")[-1] not in ALLOWED_AXIOMS]
        if notallowed:
            res["failures"].append("%s depends on non-allowed axioms %s" % (name, notallowed))
        elif not ax and not closed.get(name):
            res["failures"].append("%s: could not confirm 'Closed under the global context'" % name)
        else:
            res["discharged"] += 1
    if res["failures"]:
        res["discharged"] = min(res["discharged"], res["obligations"] - 1) if res["obligations"] else 0
    return res


# ---- Coq terms -------------------------------------------------------------

class Raw(str):
    """A Coq term given verbatim."""


def coq(t):
    """Python value -> Coq term (N_scope open): int, bool, list, tuple, Raw."""
    if isinstance(t, Raw):
        return str(t)
    if isinstance(t, bool):
        return "true" if t else "false"
    if isinstance(t, int):
        assert t >= 0
        return str(t)
    if isinstance(t, list):
        return "[" + "; ".join(coq(x) for x in t) + "]"
    if isinstance(t, tuple):
        return "(" + ", ".join(coq(x) for x in t) + ")"
    if isinstance(t, (bytes, bytearray)):
        return coq(list(t))
    if t is None:
        return "None"
    raise TypeError(t)


def app(f, *args):
    return Raw("(" + f + " " + " ".join(coq(a) if not isinstance(a, Raw) else "(" + a + ")" for a in args) + ")")


_tok = re.compile(r"\s*(\[|\]|\(|\)|;|,|-?\d+(?:%\w+)?|[A-Za-z_][\w.']*|\"(?:[^\"]|\"\")*\"(?:%\w+)?)")


def parse_coq(s):
    """Coq printed value -> Python: numbers, bools, lists, tuples; constructor
    applications become ("Ctor", arg, ...); None/Some handled as constructors."""
    toks = []
    pos = 0
    s = s.strip()
    while pos < len(s):
        m = _tok.match(s, pos)
        if not m:
            raise ValueError("cannot tokenise %r at %d" % (s[pos:pos + 40], pos))
        toks.append(m.group(1))
        pos = m.end()
    val, i = _parse_app(toks, 0)
    if i != len(toks):
        raise ValueError("trailing tokens in %r" % s[:200])
    return val


def _atom(toks, i):
    t = toks[i]
    if t == "[":
        i += 1
        items = []
        if toks[i] == "]":
            return items, i + 1
        while True:
            v, i = _parse_app(toks, i)
            items.append(v)
            if toks[i] == ";":
                i += 1
                continue
            if toks[i] == "]":
                return items, i + 1
            raise ValueError("list syntax")
    if t == "(":
        i += 1
        items = []
        while True:
            v, i = _parse_app(toks, i)
            items.append(v)
            if toks[i] == ",":
                i += 1
                continue
            if toks[i] == ")":
                i += 1
                break
            raise ValueError("tuple syntax at %r" % toks[i])
        return (items[0] if len(items) == 1 else tuple(items)), i
    if re.match(r"-?\d", t):
        return int(t.split("%")[0]), i + 1
    if t.startswith('"'):
        body = t[1:t.rindex('"')]
        return body.replace('""', '"'), i + 1
    if t == "true":
        return True, i + 1
    if t == "false":
        return False, i + 1
    return Ctor(t), i + 1


class Ctor(str):
    pass


def _parse_app(toks, i):
    head, i = _atom(toks, i)
    if isinstance(head, Ctor):
        args = []
        while i < len(toks) and toks[i] not in ("]", ")", ";", ","):
            a, i = _atom(toks, i)
            if isinstance(a, Ctor):
                a = (str(a),)
            args.append(a)
        return (str(head),) + tuple(args), i
    return head, i


def flat_pairs(v):
    """Coq prints nested pairs (a, b, c) flat; nothing to do but kept for clarity."""
    return v


CASES_HEADER = """From Grcov Require Import {imports}.
Set Printing Width 1000000. Set Printing Depth 1000000.
Open Scope N_scope.
{prelude}
"""


def run_model(pid, imports, exprs, prelude="", shard_size=250, timeout=900):
    """Evaluate Coq expressions with vm_compute, sharded over parallel coqc.
    Returns the list of parsed values (or ('@@ERROR', text) for a shard failure)."""
    sc = scratch("model_" + pid)
    ok, out = coq_make(["theories/%s.vo" % m.replace(".", "/") for m in imports.split()])
    if not ok:
        return [("@@ERROR", "model build failed: " + out[-1500:])] * len(exprs)
    shards = [exprs[i:i + shard_size] for i in range(0, len(exprs), shard_size)]
    if len(shards) < COQ_PAR and len(exprs) > COQ_PAR * 8:
        k = (len(exprs) + COQ_PAR - 1) // COQ_PAR
        shards = [exprs[i:i + k] for i in range(0, len(exprs), k)]

    def one(idx):
        vf = os.path.join(sc, "cases_%d.v" % idx)
        with open(vf, "w") as f:
            f.write(CASES_HEADER.format(imports=imports, prelude=prelude))
            for e in shards[idx]:
                f.write("Eval vm_compute in (%s).\n" % e)
        # deep (non tail-recursive) model functions on large inputs need more C stack than the default 8 MiB
        p = sh(["sh", "-c", 'ulimit -s unlimited 2>/dev/null || ulimit -s $(ulimit -H -s) 2>/dev/null; exec timeout "$@"', "sh",
                str(timeout), "coqc", "-noglob", "-Q", os.path.join(COQ, "theories"), "Grcov", vf], cwd=sc)
        vals = []
        if p.returncode != 0:
            return [("@@ERROR", (p.stdout + p.stderr)[-2000:])] * len(shards[idx])
        for line in p.stdout.split("\n"):
            m = re.match(r"^\s+= (.*)$", line)
            if m:
                try:
                    vals.append(parse_coq(m.group(1)))
                except Exception as ex:  # pragma: no cover
                    vals.append(("@@ERROR", "parse: %s: %s" % (ex, m.group(1)[:300])))
        if len(vals) != len(shards[idx]):
            return [("@@ERROR", "expected %d values, got %d: %s" % (len(shards[idx]), len(vals), p.stdout[-1500:]))] * len(shards[idx])
        return vals

    out = []
    with concurrent.futures.ThreadPoolExecutor(max_workers=COQ_PAR) as ex:
        for vals in ex.map(one, range(len(shards))):
            out.extend(vals)
    return out


# ----------------------------------------------------------------------------
# Implementation side
# ----------------------------------------------------------------------------

def scratch(name, clean=True):
    d = os.path.join(BUILD, "scratch" + _TAG, name)
    if clean and os.path.exists(d):
        shutil.rmtree(d, ignore_errors=True)
    os.makedirs(d, exist_ok=True)
    return d


_built = {}


def build_harness(debug_assertions=False):
    """cargo build of the harness crate (links /repo's working tree as a library)."""
    key = ("harness", debug_assertions)
    if key in _built:
        return _built[key]
    h = os.path.join(VERIF, "harness")
    if _TAG:
        # a private copy of the harness crate whose path dependency points at the other checkout
        h2 = os.path.join(BUILD, "harness" + _TAG)
        if os.path.exists(h2):
            shutil.rmtree(h2)
        shutil.copytree(h, h2, ignore=shutil.ignore_patterns("Cargo.lock", "target"))
        mf = os.path.join(h2, "Cargo.toml")
        txt = open(mf).read().replace('path = "/repo"', 'path = "%s"' % REPO)
        open(mf, "w").write(txt)
        h = h2
    shutil.copyfile(os.path.join(REPO, "Cargo.lock"), os.path.join(h, "Cargo.lock"))
    env = {"CARGO_TARGET_DIR": TARGET + ("-dbg" if debug_assertions else ""),
           "RUSTFLAGS": "--cfg %s" % GUARD + (" -C debug-assertions=on -C overflow-checks=on" if debug_assertions else "")}
    t0 = time.time()
    p = sh(["cargo", "build", "--release", "--offline", "--quiet"], cwd=h, env=env, timeout=3000)
    if p.returncode != 0:
        raise BuildError("harness build failed:\n" + p.stderr[-3000:])
    log("[build] harness %s in %.1fs" % ("dbg" if debug_assertions else "rel", time.time() - t0))
    path = os.path.join(env["CARGO_TARGET_DIR"], "release", "impl_run")
    _built[key] = path
    return path


def build_cli():
    """cargo build of grcov's own binary from /repo's working tree, hooks on."""
    if "cli" in _built:
        return _built["cli"]
    env = {"CARGO_TARGET_DIR": CLI_TARGET, "RUSTFLAGS": "--cfg %s" % GUARD,
           "CARGO_PROFILE_RELEASE_LTO": "false", "CARGO_PROFILE_RELEASE_OPT_LEVEL": "1",
           "CARGO_PROFILE_RELEASE_CODEGEN_UNITS": "16"}
    t0 = time.time()
    p = sh(["cargo", "build", "--release", "--offline", "--quiet", "--bin", "grcov"], cwd=REPO, env=env, timeout=3000)
    if p.returncode != 0:
        raise BuildError("grcov build failed:\n" + p.stderr[-3000:])
    log("[build] grcov cli in %.1fs" % (time.time() - t0))
    _built["cli"] = os.path.join(CLI_TARGET, "release", "grcov")
    return _built["cli"]


class BuildError(Exception):
    pass


def run_impl(engine, cases, pid, debug_assertions=False, timeout=1800, extra_env=None, parallel=1, mem_limit_kb=4 * 1024 * 1024, case_timeout=None):
    """Run the harness engine over JSON cases; returns list of JSON results.
    case_timeout: seconds after which the harness's watchdog reports a single case as hanging (default 30)."""
    if case_timeout is not None:
        extra_env = dict(extra_env or {}, IMPL_CASE_TIMEOUT_S=str(case_timeout))
    exe = build_harness(debug_assertions)
    sc = scratch("impl_%s_%s" % (pid, engine))
    if parallel <= 1 or len(cases) < 64:
        chunks = [cases]
    else:
        k = (len(cases) + parallel - 1) // parallel
        chunks = [cases[i:i + k] for i in range(0, len(cases), k)]

    def one(idx):
        """run one chunk; when the process dies (abort, OOM, signal) the case it was working on is marked
        as crashed and the rest of the chunk is re-run in a fresh process"""
        todo = list(chunks[idx])
        res = []
        attempt = 0
        while todo:
            cf = os.path.join(sc, "cases_%d_%d.jsonl" % (idx, attempt))
            attempt += 1
            with open(cf, "w") as f:
                for c in todo:
                    f.write(json.dumps(c) + "\n")
            cmd = [exe, engine, cf]
            if mem_limit_kb:
                cmd = ["sh", "-c", "ulimit -v %d; exec \"$0\" \"$@\"" % mem_limit_kb] + cmd
            try:
                p = sh(cmd, cwd=sc, timeout=timeout, env=extra_env)
                rc, so, se = p.returncode, p.stdout, p.stderr
            except subprocess.TimeoutExpired as e:
                rc, so, se = "timeout", (e.stdout or b"").decode("utf-8", "replace") if isinstance(e.stdout, bytes) else (e.stdout or ""), "TIMEOUT after %ss" % timeout
            lines = [l for l in so.split("\n") if l.strip()]
            got = []
            for l in lines:
                try:
                    got.append(json.loads(l))
                except Exception:
                    got.append({"error": "unparsable: " + l[:200]})
            got = got[:len(todo)]
            if got and isinstance(got[-1], dict) and "hang" in got[-1]:
                # the harness's watchdog ended the process on a case that did not return: reported like a crash, rest re-run
                got[-1] = {"crash": "hang: " + got[-1]["hang"], "_us": got[-1].get("_us", 0)}
                res += got
                todo = todo[len(got):]
                continue
            res += got
            if len(got) < len(todo):
                res.append({"crash": "process ended with status %s while working on this case: %s" % (rc, se[-600:])})
                todo = todo[len(got) + 1:]
            else:
                todo = []
        return res

    out = []
    with concurrent.futures.ThreadPoolExecutor(max_workers=max(1, parallel)) as ex:
        for r in ex.map(one, range(len(chunks))):
            out.extend(r)
    return out


# ----------------------------------------------------------------------------
# Known findings, verdict, evidence
# ----------------------------------------------------------------------------

def known_findings(pid):
    p = os.path.join(VERIF, "known_findings.json")
    if not os.path.exists(p):
        return []
    return [e for e in json.load(open(p))["findings"] if e["property"] == pid]


class Check:
    """One run of one property's check."""

    def __init__(self, pid, tier, seed):
        self.pid = pid
        self.tier = tier
        self.seed = seed
        self.rng = random.Random(seed)
        self.t0 = time.time()
        self.violations = []       # (replay_path, has_input)
        self.known_printed = set()
        self.cov = {"evaluations": 0, "distinct_nontrivial": 0, "rule": "", "samples": [],
                    "obligations": 0, "discharged": 0, "checker_cmd": "", "trusted_base": []}
        self.assumptions = []
        self.extra = {}
        self._distinct = set()
        os.makedirs(REPLAYS, exist_ok=True)

    # --- proof half
    def proofs(self):
        r = proof_obligations(self.pid)
        self.cov["obligations"] = r["obligations"]
        self.cov["discharged"] = r["discharged"]
        self.cov["checker_cmd"] = r["checker_cmd"]
        self.cov["theorems"] = r["theorems"]
        axioms = sorted({a for l in r["axioms"].values() for a in l})
        self.cov["axioms_reported"] = axioms if axioms else ["none: every theorem is closed under the global context"]
        if r["failures"]:
            self.violation({"kind": "proof-obligation", "property": self.pid, "failures": r["failures"],
                            "theorems": r["theorems"]}, has_input=False, tag="proof")
        return r

    # --- bookkeeping
    def count(self, n=1):
        self.cov["evaluations"] += n

    def nontrivial(self, key):
        self._distinct.add(hashlib.sha1(json.dumps(key, sort_keys=True, default=str).encode()).hexdigest())

    def sample(self, s, limit=4):
        if len(self.cov["samples"]) < limit:
            self.cov["samples"].append(s)

    def known(self, entry):
        key = entry["key"]
        if key not in self.known_printed:
            self.known_printed.add(key)
            print("KNOWN-FINDING: property=%s %s" % (self.pid, entry["what"]), flush=True)

    def violation(self, replay, has_input=True, tag="case"):
        n = len(self.violations)
        path = os.path.join(REPLAYS, "%s-%s-%d-%d.json" % (self.pid, tag, self.seed, n))
        replay = dict(replay)
        replay.setdefault("property", self.pid)
        replay["seed"] = self.seed
        replay["failing_input_found"] = bool(has_input)
        with open(path, "w") as f:
            json.dump(replay, f, indent=1, default=str)
        self.violations.append((path, has_input))
        if len(self.violations) <= 5:
            print("VIOLATION property=%s replay=%s%s" % (self.pid, path, "" if has_input else " no-failing-input-found"), flush=True)

    def finish(self):
        self.cov["distinct_nontrivial"] = len(self._distinct)
        ev = {
            "property_id": self.pid,
            "tier": self.tier,
            "seed": self.seed,
            "level": "proof",
            "coverage": self.cov,
            "assumptions": self.assumptions,
            "wall_s": round(time.time() - self.t0, 2),
            "violations": len(self.violations),
        }
        ev["coverage"].update(self.extra)
        os.makedirs(EVID, exist_ok=True)
        with open(os.path.join(EVID, self.pid + ".json"), "w") as f:
            json.dump(ev, f, indent=1, default=str)
        return 1 if self.violations else 0


def canon(v):
    return json.dumps(v, sort_keys=True)
