"""C16 - exclusion markers.  Proofs + FileFilter::create/apply correspondence + the property's own reading."""
import itertools, json, re
import vlib, gen

WORDS = ["XL", "XS", "XE", "BL", "BS", "BE"]          # line, start, stop, br_line, br_start, br_stop
REGEXES = [["XL", "XS", "XE", "BL", "BS", "BE"],
           ["GRCOV_EXCL_LINE|XL", "XS$", "^XE", "B+L", "\\bBS\\b", "BE"]]
FILLER = ["int x = 0;", "", "// comment", "  foo(); ", "é ü 日本", "XLX", "xl", "if (a && b) {", "}"]


def gen_text(rng, nlines, crlf):
    lines = []
    for _ in range(nlines):
        r = rng.random()
        if r < 0.45:
            lines.append(rng.choice(FILLER) if rng.random() < 0.8 else "")
        else:
            ws = [w for w in WORDS if rng.random() < 0.22]
            if not ws:
                ws = [rng.choice(WORDS)]
            lines.append(" ".join(ws))
    sep = "\r\n" if crlf else "\n"
    t = sep.join(lines)
    if rng.random() < 0.7:
        t += sep
    return t


def text_of_flags(seq):
    return "\n".join(" ".join(w for w, b in zip(WORDS, fl) if b) or "plain" for fl in seq) + "\n"


def ref(text, opts, cov, readable):
    """The property's reading (independent Python): which lines lose line / branch data."""
    if not readable or not any(opts[i] is not None for i in (0, 1, 3, 4)):
        return gen.cov_canon(cov)
    lines = text.split("\n")
    lines = [l[:-1] if l.endswith("\r") else l for l in lines]
    m = lambda i, l: opts[i] is not None and re.search(opts[i], l) is not None

    def excluded(single, start, stop):
        out = set()
        for n, l in enumerate(lines):
            if m(single, l):
                out.add(n + 1)
                continue
            # region: a start at s <= n with no stop in (s, n]
            for s in range(n, -1, -1):
                if m(start, lines[s]):
                    out.add(n + 1)
                    break
                if m(stop, lines[s]):
                    break
        return out
    xl = excluded(0, 1, 2)
    xb = excluded(3, 4, 5)
    return gen.cov_canon({"lines": [x for x in cov["lines"] if x[0] not in xl],
                          "branches": [x for x in cov["branches"] if x[0] not in xb],
                          "funcs": cov["funcs"]})


def is_covered(cov):
    """filter.rs is_covered, on a JSON record"""
    if not any(c != 0 for _, c in cov["lines"]):
        return False
    fns = cov["funcs"]
    return len(fns) <= 1 or any(e and bytes.fromhex(n) != b"top-level" for n, _, e in fns)


def gen_cov(rng, nlines):
    pool = list(range(1, nlines + 3)) + [0, 2**32 - 1]
    return gen.cov(rng, max_lines=min(8, len(pool)), lines_pool=pool, names_pool=["f", "g"])


def evaluate(chk, cases, label):
    impl = vlib.run_impl("markers", cases, chk.pid, parallel=4)
    exprs = []
    for case, ri in zip(cases, impl):
        if "flags" not in ri:
            exprs.append("0")
            continue
        en = any(case["opts"][i] is not None for i in (0, 1, 3, 4))
        exprs.append(vlib.app("run_markers", en, case["readable"], [tuple(f) for f in ri["flags"]], gen.cov_coq(case["cov"])))
    model = vlib.run_model(chk.pid, "Run.Show", exprs)
    kinds = {0: "line", 1: "branch", 2: "both"}
    dis = []
    dist = {"with_region": 0, "nested_or_overlap": 0, "same_line_start_stop": 0, "crlf": 0, "unreadable": 0, "no_options": 0}
    for case, ri, rm in zip(cases, impl, model):
        chk.count()
        text = bytes.fromhex(case["text"]).decode()
        if "cov" not in ri:
            chk.violation({"kind": "oracle", "engine": "markers", "case": case, "impl": ri, "clause": "FileFilter::create must not fail"}, tag=label)
            continue
        exp = ref(text, case["opts"], case["cov"], case["readable"])
        got = gen.cov_canon(ri["cov"])
        # --filter is decided on the record AFTER the exclusions (the pipeline of main.rs)
        want_present = case.get("filter") is None or is_covered(exp) == case["filter"]
        if ri.get("present", True) != want_present:
            chk.violation({"kind": "oracle", "engine": "markers", "case": case, "source": text, "present": ri.get("present"), "expected_record": exp,
                           "clause": "with --filter the file is reported iff the record left after the exclusions has the requested covered/uncovered status"}, tag=label)
            continue
        if not want_present:
            chk.nontrivial(case)
            continue
        if vlib.canon(got) != vlib.canon(exp):
            chk.violation({"kind": "oracle", "engine": "markers", "case": case, "source": text, "impl": got, "expected": exp,
                           "clause": "line data removed iff line marker or inside start..stop region; branch data by the branch markers; nothing else changes"}, tag=label)
            continue
        if isinstance(rm, tuple) and rm and rm[0] == "@@ERROR":
            dis.append({"case": case, "model": rm})
            continue
        mf, mc = rm
        mfl = [[kinds[k], n] for k, n in mf]
        if mfl != ri["filters"] or vlib.canon(gen.cov_from_coq(mc)) != vlib.canon(got):
            dis.append({"case": case, "impl": {"filters": ri["filters"], "cov": got}, "model": {"filters": mfl, "cov": gen.cov_from_coq(mc)}})
            continue
        fl = ri["flags"]
        dist["with_region"] += any(f[1] or f[4] for f in fl)
        dist["same_line_start_stop"] += any((f[1] and f[2]) or (f[4] and f[5]) for f in fl)
        dist["nested_or_overlap"] += sum(1 for f in fl if f[1]) > 1 or (any(f[1] for f in fl) and any(f[4] for f in fl))
        dist["crlf"] += "\r\n" in text
        dist["unreadable"] += not case["readable"]
        dist["no_options"] += not any(o is not None for o in case["opts"])
        if ri["filters"]:
            chk.nontrivial(case)
        chk.sample({"source": text[:200], "opts": case["opts"], "filters": ri["filters"]}, limit=3)
    for d in dis[:3]:
        d.update({"kind": "correspondence", "engine": "markers", "theorems_at_stake": "C16_* (Model/Markers.v no longer describes FileFilter::create)"})
        chk.violation(d, has_input=False, tag=label + "-corr")
    return dist


def make_cases(chk, n):
    rng = chk.rng
    cases = []
    for i in range(n):
        nl = rng.randrange(0, 12)
        crlf = rng.random() < 0.3
        text = gen_text(rng, nl, crlf)
        rx = rng.choice(REGEXES)
        sub = rng.choice([63, 63, 63, rng.randrange(64), rng.randrange(64), 0])
        opts = [rx[j] if (sub >> j) & 1 else None for j in range(6)]
        cases.append({"text": text.encode().hex(), "opts": opts, "cov": gen_cov(rng, nl), "readable": rng.random() > 0.05,
                      "filter": rng.choice([None, None, True, False])})
    return cases


def crlf_pairs(chk, cases):
    """CRLF must read the same as LF: run each LF text again with CRLF and compare the implementation's results."""
    lf = [c for c in cases if "\r" not in bytes.fromhex(c["text"]).decode() and c["readable"]][:150]
    cr = [dict(c, text=bytes.fromhex(c["text"]).decode().replace("\n", "\r\n").encode().hex()) for c in lf]
    a = vlib.run_impl("markers", lf, chk.pid)
    b = vlib.run_impl("markers", cr, chk.pid)
    for c, x, y in zip(lf, a, b):
        chk.count()
        if x.get("cov") != y.get("cov") or x.get("filters") != y.get("filters"):
            chk.violation({"kind": "oracle", "engine": "markers", "case": c, "lf": x, "crlf": y, "clause": "CRLF and LF sources must be filtered identically"}, tag="crlf")


def cli_stream(chk, n):
    """The --excl-* options as the CLI wires them (main.rs builds the FileFilter): lcov and JaCoCo inputs,
    with and without --branch; the reported record must be the input record minus exactly the excluded data."""
    import os, subprocess, pipeline, c06
    rng = chk.rng
    exe = vlib.build_cli()
    names = ["--excl-line", "--excl-start", "--excl-stop", "--excl-br-line", "--excl-br-start", "--excl-br-stop"]
    for i in range(n):
        root = vlib.scratch("c16_cli_%d" % i)
        src = os.path.join(root, "src")
        os.makedirs(os.path.join(src, "com", "x"))
        nl = rng.randrange(3, 12)
        text = gen_text(rng, nl, rng.random() < 0.3)
        use_xml = rng.random() < 0.5
        rel = "com/x/Top.java" if use_xml else "w.c"
        open(os.path.join(src, rel), "wb").write(text.encode())
        if use_xml:
            blob = c06.make_xml(rng, i)
            blob = blob.replace(b'name="org/y/z"', b'name="com/x"').replace(b'name=""', b'name="com/x"')
            blob = blob.replace(b"Other", b"Top").replace(b"Outer$Inner", b"Top").replace(b"Outer.java", b"Top.java")
            inp = os.path.join(root, "in.xml")
        else:
            cov = gen_cov(rng, nl)
            out = "TN:\nSF:%s\n" % rel
            for l, c in cov["lines"]:
                if l >= 1:
                    out += "DA:%d,%d\n" % (l, c)
            for l, v in cov["branches"]:
                if l >= 1:
                    for k, b in enumerate(v):
                        out += "BRDA:%d,0,%d,%s\n" % (l, k, "1" if b else "-")
            out += "end_of_record\n"
            two_spellings = rng.random() < 0.5
            if two_spellings:
                # the same source once more under a second spelling (build-machine prefix, removed by -p): the two records reach the
                # rewriting step as distinct keys, both must lose the excluded data before they are merged
                cov2 = gen_cov(rng, nl)
                out += "SF:/ci/build/%s\n" % rel
                for l, c in cov2["lines"]:
                    if l >= 1:
                        out += "DA:%d,%d\n" % (l, c)
                for l, v in cov2["branches"]:
                    if l >= 1:
                        for k, b in enumerate(v):
                            out += "BRDA:%d,0,%d,%s\n" % (l, k, "1" if b else "-")
                out += "end_of_record\n"
            blob = out.encode()
            inp = os.path.join(root, "in.info")
        open(inp, "wb").write(blob)
        branch = rng.random() < (0.35 if use_xml else 0.6)
        parsed = vlib.run_impl("parse", [{"hex": blob.hex(), "format": "xml" if use_xml else "info", "branch": branch}], chk.pid)[0]
        if "ok" not in parsed:
            continue
        groups = {}
        for nm, c in parsed["ok"]:
            nm = bytes.fromhex(nm).decode()
            groups.setdefault(nm[len("/ci/build/"):] if nm.startswith("/ci/build/") else nm, []).append(gen.cov_canon(c))
        recs = {}
        for nm, cs in groups.items():
            a = gen.ref_agg(cs)
            recs[nm] = {"lines": a["lines"], "branches": a["branches"], "funcs": cs[0]["funcs"]}
        rx = rng.choice(REGEXES)
        sub = rng.choice([63, 63, rng.randrange(64), 9, 18, 36, 8, 1]) if not use_xml else rng.choice([63, 8, 48, 24, 56, 63, rng.randrange(64)])
        opts = [rx[j] if (sub >> j) & 1 else None for j in range(6)]
        cmd = [exe, inp, "-s", src, "-t", "lcov", "--threads", "1"] + (["--branch"] if branch else [])
        if not use_xml and two_spellings:
            cmd += ["-p", "/ci/build"]
        for nm, o in zip(names, opts):
            if o is not None:
                cmd += [nm, o]
        env = dict(os.environ, TMPDIR=root)
        p = subprocess.run(cmd, cwd=root, env=env, stdout=subprocess.PIPE, stderr=subprocess.PIPE, timeout=60)
        chk.count()
        hist = {"source": text, "input": blob.decode("utf-8", "replace"), "argv": cmd[1:], "branch": branch}
        if p.returncode != 0:
            chk.violation(dict(hist, kind="oracle", engine="cli", clause="grcov failed", stderr=p.stderr.decode()[-400:]), tag="cli")
            continue
        rep = pipeline.read_lcov_report(p.stdout)
        bad = None
        for nm, cov in recs.items():
            if not os.path.exists(os.path.join(src, nm)):
                continue
            exp = ref(text, opts, cov, True)
            got = rep.get(nm.encode(), [None])[0]
            if got is None:
                bad = "file %s missing from the report" % nm
            elif got["lines"] != exp["lines"] or got["branches"] != exp["branches"]:
                bad = "file %s: reported %s, expected %s" % (nm, {"lines": got["lines"], "branches": got["branches"]},
                                                              {"lines": exp["lines"], "branches": exp["branches"]})
        if bad:
            chk.violation(dict(hist, kind="oracle", engine="cli", clause="with the --excl-* options given on the command line the report carries the input record minus exactly the excluded lines and branches: " + bad), tag="cli")
        else:
            chk.nontrivial(["cli", i, cmd[1:]])
        import shutil
        shutil.rmtree(root, ignore_errors=True)


def run(chk):
    chk.proofs()
    cases = make_cases(chk, 500 if chk.tier == "quick" else 6000)
    dist = evaluate(chk, cases, "gen")
    crlf_pairs(chk, cases)
    cli_stream(chk, 40 if chk.tier == "quick" else 600)
    # exhaustive small scope: every sequence of per-line flag vectors up to length k, all options on
    k = 2
    ex = []
    cov = {"lines": [[i, 1] for i in range(1, 5)], "branches": [[i, [True]] for i in range(1, 5)], "funcs": []}
    allf = list(itertools.product([False, True], repeat=6))
    for n in range(1, k + 1):
        seqs = itertools.product(allf, repeat=n)
        for seq in seqs:
            ex.append({"text": text_of_flags(seq).encode().hex(), "opts": REGEXES[0], "cov": cov, "readable": True})
    if chk.tier == "quick":
        ex = ex[:64] + chk.rng.sample(ex[64:], 600)
    d2 = evaluate(chk, ex, "exh")
    chk.extra["exhaustive_flag_sequences"] = {"max_len": k, "cases": len(ex), "complete": chk.tier == "thorough"}
    for key in d2:
        dist[key] += d2[key]
    chk.extra["distribution"] = dist
    chk.cov["rule"] = ("generated sources (0-11 lines, LF/CRLF, marker words at all placements incl. nested, repeated, unterminated, same-line start/stop, "
                       "overlapping line/branch regions), every subset of the six options, literal and regex markers, random coverage records; "
                       "FileFilter::create + application vs Gallina create/apply_filters (fed with the regex verdicts the implementation's regex crate gave) "
                       "vs the driver's own reading of the property; plus all flag sequences of length <= 2 (sampled in quick tier); "
                       "non-trivial = at least one filter produced; distinct by case content")
    chk.cov["trusted_base"] = ["Coq kernel; vm_compute for the correspondence", "regex crate (six match verdicts per line enter the model as data)",
                               "split on \\n and strip of one trailing \\r are re-done in the harness and checked against the driver's reading", "impl_run harness, Python reference"]
    chk.assumptions = ["source files have fewer than 2^32 lines (line numbers are u32 in the implementation, unbounded in the model)"]


def replay(chk, path):
    r = json.load(open(path))
    if "case" in r:
        evaluate(chk, [r["case"]], "replay")
    else:
        chk.proofs()
