"""C02 - every input counted exactly once, for every thread count and interleaving.
Proof obligations (pipeline LTS) + trace validation of real runs against the LTS + end-to-end oracle."""
import json, os
import vlib, gen, pipeline

PATHS = ["src/a.c", "src/b.c", "lib/c.rs", "d.c", "deep/er/e.cpp"]


def coq_items(batches, faults):
    items = []
    for b, f in zip(batches, faults):
        if b is None:
            items.append((vlib.Raw("None"), f))
        else:
            items.append((vlib.Raw("(Some %s)" % vlib.coq([(list(bytes.fromhex(n)), gen.cov_coq(c)) for n, c in b])), f))
    return items


def labels_coq(labels):
    return vlib.Raw("[" + "; ".join(labels) + "]")


def agg_covered(agg):
    """filter.rs is_covered on a reference aggregate"""
    if not any(n != 0 for _, n in agg["lines"]):
        return False
    return len(agg["funcs"]) <= 1 or any(ex and bytes.fromhex(n) != b"top-level" for n, (_, ex) in agg["funcs"].items())


def report_oracle(report, all_covs_by_path, flt=None):
    """the CLI's report must be the C01 aggregate of what each artifact says, one record per file
    (flt = 'covered' / 'uncovered': only the files whose aggregate has that status)"""
    for p, secs in report.items():
        if len(secs) != 1:
            return "file %r reported %d times" % (p, len(secs))
    if flt:
        all_covs_by_path = {p: cs for p, cs in all_covs_by_path.items() if agg_covered(gen.ref_agg(cs)) == (flt == "covered")}
    want = set(all_covs_by_path)
    got = set(report)
    if want != got:
        return "reported files %s, expected %s" % (sorted(got), sorted(want))
    for p, covs in all_covs_by_path.items():
        why = gen.obs_matches(report[p][0], gen.ref_agg(covs))
        if why:
            return "file %r: %s" % (p, why)
    return None


def by_path(batches):
    d = {}
    for b in batches:
        if b is None:
            continue
        for n, c in b:
            d.setdefault(bytes.fromhex(n), []).append(c)
    return d


def one_scenario(chk, idx, branch):
    rng = chk.rng
    root = vlib.scratch("c02_%d" % idx)
    k = rng.choice([1, 2, 3, 5, 8, 13, 20])
    # in a third of the scenarios some artifacts are really malformed (rejected whole by parse_lcov), at least as many
    # as the smallest thread count now and then: the well-formed ones must still be counted, for every N
    nbad = rng.choice([1, 1, 2, 3, 4]) if rng.random() < 0.35 else 0
    bad = set(rng.sample(range(k), min(nbad, k)))
    blobs = [pipeline.make_info(rng, i, PATHS, malformed=(i in bad)) for i in range(k)]
    args = pipeline.lay_out(rng, os.path.join(root, "in"), blobs)
    parsed = vlib.run_impl("parse", [{"hex": b.hex(), "format": "info", "branch": branch} for b in blobs], chk.pid)
    batches = [[[n, gen.cov_canon(c)] for n, c in r["ok"]] if "ok" in r else None for r in parsed]
    key_batch = {pipeline.content_key(b): bt for b, bt in zip(blobs, batches)}
    extra = []
    flt = None
    # JaCoCo reports and LLVM gcno+gcda pairs go through the same queue (other item kinds, other parsers)
    if rng.random() < 0.4:
        import c06
        xd = os.path.join(root, "in", "x1")
        os.makedirs(xd, exist_ok=True)
        xmls = [c06.make_xml(rng, 100 + j) for j in range(rng.randrange(1, 4))]
        for j, x in enumerate(xmls):
            open(os.path.join(xd, "r%d.xml" % j), "wb").write(x)
        args.append(xd)
        px = vlib.run_impl("parse", [{"hex": x.hex(), "format": "xml", "branch": branch} for x in xmls], chk.pid)
        for x, r in zip(xmls, px):
            bt = [[n, gen.cov_canon(c)] for n, c in r["ok"]] if "ok" in r else None
            batches.append(bt)
            key_batch[pipeline.content_key(x)] = bt
    if rng.random() < 0.4:
        gd = os.path.join(root, "in", "g1")
        os.makedirs(gd, exist_ok=True)
        stems = rng.sample(["file", "file_branch", "reader"], rng.randrange(1, 4))
        gc = []
        # sometimes one unit was never run (a gcno without gcda: it contributes its lines with zero counts), and the
        # run asks for the covered or the uncovered files only: every discovered artifact still counts
        orphan = rng.choice(stems) if rng.random() < 0.5 else None
        dotted = rng.choice(stems) if rng.random() < 0.4 else None      # one unit named like CMake does: file.c.gcno / file.c.gcda
        names = {}
        for st in stems:
            gn = open(os.path.join(vlib.REPO, "test", "llvm", st + ".gcno"), "rb").read()
            gda = open(os.path.join(vlib.REPO, "test", "llvm", st + ".gcda"), "rb").read()
            nm = names[st] = st + (".c" if st == dotted else "")
            open(os.path.join(gd, nm + ".gcno"), "wb").write(gn)
            if st != orphan:
                open(os.path.join(gd, nm + ".gcda"), "wb").write(gda)
            gc.append({"gcno": gn.hex(), "gcdas": [gda.hex()] if st != orphan else [], "branch": branch, "stem": nm})
        args.append(gd)
        extra = ["--llvm"] if rng.random() < 0.7 else []
        if rng.random() < 0.5:
            flt = rng.choice(["uncovered", "uncovered", "covered"])
            extra += ["--filter", flt]
            if flt == "covered" and orphan:
                # only covered files were requested: the producer does not send the orphan unit at all
                gc = [g for g in gc if g["stem"] != names[orphan]]
                stems = [st for st in stems if st != orphan]
        pg = vlib.run_impl("gcno", gc, chk.pid)
        for st, r in zip(stems, pg):
            bt = [[n, gen.cov_canon(c)] for n, c in r["ok"]] if "ok" in r else None
            batches.append(bt)
            key_batch["%s#gcno#0" % names[st]] = bt
    expected = by_path(batches)
    reports = []
    # sometimes one plain-file argument is listed twice: every listed path is an input, wherever it stands
    dup = None
    plain = [x for x in args if os.path.isfile(x) and x.endswith(".info")]
    if plain and rng.random() < 0.35:
        dup = rng.choice(plain)
        di = int(os.path.basename(dup)[1:-5])
        batches_x = batches + [batches[di]]
        expected = by_path(batches_x)
        key_count = {}
    for run_no, threads in enumerate(rng.sample([1, 2, 3, 4, 8, 16], 3)):
        a = list(args)
        rng.shuffle(a)
        if dup:
            a.remove(dup)
            a = [dup, dup] + a if run_no % 2 == 0 else [dup] + a + [dup]
        log = os.path.join(root, "log_%d.txt" % run_no)
        sched = rng.randrange(1, 10**6) if run_no else None
        rc, out, err = pipeline.run_cli(a, threads, branch, log=log, sched=sched, cwd=root, extra=extra)
        chk.count()
        hist = {"inputs": [b.decode() for b in blobs], "args": [os.path.relpath(x, root) for x in a], "threads": threads,
                "branch": branch, "sched_seed": sched, "options": extra}
        if rc != 0:
            chk.violation(dict(hist, kind="oracle", clause="run must finish with status 0", status=rc, stderr=err[-800:]), tag="run")
            continue
        report = pipeline.read_lcov_report(out)
        why = report_oracle(report, expected, flt)
        if why:
            chk.violation(dict(hist, kind="oracle", clause="report = aggregation of every artifact exactly once: " + why,
                               report=out.decode("latin-1")[:3000]), tag="run")
            continue
        reports.append(report)
        # trace validation against the LTS
        per, _ = pipeline.parse_log(log)
        labels, order, lerr = pipeline.linearise(per, threads, 2 * threads, rc, {})
        want_keys = sorted(list(key_batch) + ([pipeline.content_key(open(dup, "rb").read())] if dup else []))
        if lerr or sorted(order) != want_keys:
            chk.violation(dict(hist, kind="trace", clause="event log cannot be scheduled as an execution of the pipeline model: %s" % (lerr or "sent items differ from the discovered artifacts"),
                               log=open(log).read()[-3000:]), tag="trace")
            continue
        items = coq_items([key_batch[kk] for kk in order], [0] * len(order))
        chk._pending.append((hist, threads, items, labels, report, [key_batch[kk] for kk in order], flt))
        chk.nontrivial(["run", idx, run_no, k, threads])
    # independence of N, interleaving, argument order: all reports observably equal
    for r in reports[1:]:
        for p in r:
            a, b = r[p][0], reports[0][p][0]
            if a["lines"] != b["lines"] or a["branches"] != b["branches"] or [f[::2] for f in a["funcs"]] != [f[::2] for f in b["funcs"]]:
                chk.violation({"kind": "oracle", "clause": "two runs on the same inputs differ in more than record order / disputed start lines",
                               "inputs": [b_.decode() for b_ in blobs], "path": p.decode("latin-1"), "a": a, "b": b}, tag="run")
    return k


def big_same_file(chk, idx, nfiles, nlines, threads):
    """many large records for the SAME source file, several workers: every artifact's counts are in the sum (a worker must
    not take a big entry out of the result map while another one adds to it).  Oracle only: the records are too large for the
    trace replay to add anything."""
    rng = chk.rng
    root = vlib.scratch("c02_big%d" % idx)
    ind = os.path.join(root, "in")
    os.makedirs(ind, exist_ok=True)
    for j in range(nfiles):
        body = "".join("DA:%d,1\n" % l for l in range(1, nlines + 1))
        open(os.path.join(ind, "b%02d.info" % j), "w").write(
            "TN:big%d\nSF:src/hot.c\nFN:%d,own_%d\nFNDA:1,own_%d\n%sBRDA:%d,0,0,1\nend_of_record\n" % (j, j + 1, j, j, body, 100 + j))
    rc, out, err = pipeline.run_cli([ind], threads, True, timeout=120, cwd=root, sched=rng.randrange(1, 10**6))
    chk.count()
    hist = {"inputs": "%d tracefiles, each: SF:src/hot.c, FN/FNDA own_<j>, DA:1..%d with count 1, BRDA:<100+j>,0,0,1" % (nfiles, nlines), "threads": threads}
    if rc != 0:
        chk.violation(dict(hist, kind="oracle", clause="run must finish with status 0", status=rc, stderr=err[-600:]), tag="run")
        return
    rep = pipeline.read_lcov_report(out)
    secs = rep.get(b"src/hot.c", [])
    bad = None
    if len(secs) != 1:
        bad = "src/hot.c reported %d times" % len(secs)
    else:
        r = secs[0]
        wrong = [(l, c) for l, c in r["lines"] if c != nfiles]
        if len(r["lines"]) != nlines or wrong:
            bad = "line counts: %d lines (expected %d), first wrong %s (every count must be %d)" % (len(r["lines"]), nlines, wrong[:3], nfiles)
        elif len(r["funcs"]) != nfiles or not all(f[2] for f in r["funcs"]):
            bad = "%d functions reported / executed flags %s, expected %d executed" % (len(r["funcs"]), sorted(set(f[2] for f in r["funcs"])), nfiles)
        elif len(r["branches"]) != nfiles or not all(v == [True] for _, v in r["branches"]):
            bad = "%d branch lines, expected %d taken" % (len(r["branches"]), nfiles)
    if bad:
        chk.violation(dict(hist, kind="oracle", clause="report = aggregation of every artifact exactly once: " + bad), tag="run")
    else:
        chk.nontrivial(["big-same-file", idx, nfiles, nlines, threads])


def validate_traces(chk):
    pend = chk._pending
    exprs = [vlib.app("run_pipeline", t, 2 * t, False, items, labels_coq(labels)) for _, t, items, labels, _, _, _ in pend]
    res = vlib.run_model(chk.pid, "Run.Show", exprs, shard_size=12)
    ok_n = 0
    for (hist, t, items, labels, report, batches, flt), r in zip(pend, res):
        if isinstance(r, tuple) and r and r[0] == "@@ERROR":
            chk.violation(dict(hist, kind="correspondence", model=r), has_input=False, tag="trace")
            continue
        ok, mst, wsts, merged, rejected, lost, acc, no_enabled = r
        why = None
        if not ok:
            why = "the label sequence is not an execution of the LTS"
        elif mst != (3, 0):
            why = "the LTS does not end in MExit 0 (main state %s)" % (mst,)
        elif sorted(merged + rejected) != list(range(len(items))) or lost:
            why = "merged+rejected is not exactly the item set"
        else:
            macc = {bytes(n): gen.cov_from_coq(c) for n, c in acc}
            if flt:
                # the model's map is what the workers accumulated; --filter is applied to it afterwards
                macc = {p: c for p, c in macc.items()
                        if agg_covered({"lines": c["lines"], "funcs": {f[0]: (f[1], f[2]) for f in c["funcs"]}}) == (flt == "covered")}
            if set(macc) != set(report):
                why = "model map has other files than the report"
            else:
                for p, c in macc.items():
                    a = report[p][0]
                    if a["lines"] != c["lines"] or a["branches"] != c["branches"] or [f[::2] for f in a["funcs"]] != [f[::2] for f in c["funcs"]]:
                        why = "model map differs from the report for %r" % p
        if why:
            chk.violation(dict(hist, kind="trace", clause=why, labels=labels, model=str(r)[:1500]), tag="trace")
        else:
            ok_n += 1
            chk.sample({"threads": t, "items": len(items), "labels": labels[:40]}, limit=2)
    return ok_n


def run(chk):
    chk.proofs()
    chk._pending = []
    n = 50 if chk.tier == "quick" else 500
    sizes = []
    for i in range(n):
        sizes.append(one_scenario(chk, i, branch=(i % 3 != 0)))
    for i, (nf, nl, t) in enumerate([(24, 9000, 8), (16, 20000, 4)] + ([] if chk.tier == "quick" else [(48, 20000, 8), (32, 70000, 16), (24, 9000, 2)] * 3)):
        big_same_file(chk, i, nf, nl, t)
    okn = validate_traces(chk)
    chk.cov["traces_validated_against_impl"] = okn
    chk.extra["distribution"] = {"scenarios": n, "artifact_counts": sizes, "runs": chk.cov["evaluations"]}
    chk.cov["rule"] = ("scenarios of 1-20 unique lcov artifacts (plus, in 40% of them, 1-3 JaCoCo reports and/or 1-3 LLVM gcno files with --llvm or auto-detected, one of them sometimes without gcda, sometimes with --filter covered / uncovered) spread over directories, nested directories, a zip and plain arguments, in a third of the scenarios with 1-4 of them malformed (rejected whole), sometimes with one plain argument listed twice; each scenario run 3 times with "
                       "different --threads (1..16), shuffled argument order and a schedule-perturbation seed; every run: (a) the lcov report decoded by an independent "
                       "reader must be the C01 aggregate of the per-artifact parse results (each artifact alone through the harness), one record per file; (b) the "
                       "per-thread hook event log is scheduled into a label sequence which Coq replays through Model/Pipeline.v (vm_compute): it must be an execution "
                       "ending in MExit 0 whose merged set is the item set and whose map equals the report; (c) all runs of a scenario observably equal. "
                       "plus 16-48 large tracefiles (9000-70000 lines each) for one and the same source file on 2-16 workers (oracle only). "
                       "non-trivial = a run whose trace was validated; distinct by (scenario, run)")
    chk.cov["trusted_base"] = ["Coq kernel; vm_compute for trace replay", "hooks H1/H2 in /repo (cfg mozilla_grcov_verif)", "the Python scheduler that orders per-thread events (its output is re-checked by Coq)",
                               "modelled, not verified: crossbeam bounded channel = linearizable FIFO with disconnect, std Mutex = mutual exclusion + poisoning, thread spawn/join, process::exit"]
    chk.assumptions = ["atomicity of the modelled steps (channel operations, one lock scope per batch)", "info, JaCoCo xml and LLVM gcno+gcda artifacts are traced; gcno through external gcov goes through the same loop (C20)"]


def replay(chk, path):
    chk.proofs()
