"""C06 - sharded aggregation through lcov equals direct aggregation.  Proofs (composition of C01 and C05)
+ CLI differential: grcov(all inputs) vs grcov(grcov(shard 1), grcov(shard 2), ...) at nesting depth <= 3."""
import json, os, shutil
import vlib, gen, pipeline
from c05 import records

JACOCO_HEAD = ('<?xml version="1.0" encoding="UTF-8" standalone="yes"?>'
               '<!DOCTYPE report PUBLIC "-//JACOCO//DTD Report 1.0//EN" "report.dtd">')


def make_xml(rng, idx):
    pk = rng.choice(["com/x", "org/y/z", ""])
    cls = rng.choice(["Top", "Other", "Outer$Inner"])
    src = cls.split("$")[0] + ".java"
    lines = ""
    for l in sorted(rng.sample(range(1, 12), rng.randrange(1, 5))):
        mb, cb = rng.choice([(0, 0), (0, 0), (1, 1), (0, 2), (2, 0)])
        lines += '<line nr="%d" mi="%d" ci="%d" mb="%d" cb="%d"/>' % (l, rng.choice([0, 2]), rng.choice([0, 0, 3]), mb, cb)
    meth = ""
    for m in rng.sample(["run", "get", "&lt;init&gt;"], rng.randrange(0, 3)):
        cov = rng.choice([0, 1])
        meth += ('<method name="%s" desc="()V" line="%d"><counter type="INSTRUCTION" missed="1" covered="%d"/>'
                 '<counter type="METHOD" missed="%d" covered="%d"/></method>') % (m, {"run": 1, "get": 3}.get(m, 7), cov, 1 - cov, cov)
    body = ('<report name="r%d"><sessioninfo id="s" start="1" dump="2"/><package name="%s"><class name="%s/%s" sourcefilename="%s">%s</class>'
            '<sourcefile name="%s">%s<counter type="LINE" missed="1" covered="1"/></sourcefile></package></report>') % (
        idx, pk, pk, cls, src, meth, src, lines)
    return (JACOCO_HEAD + body).encode()


def split(rng, items, depth):
    """random nesting: returns a tree: list of (leaf item | subtree list)"""
    if depth == 0 or len(items) <= 1:
        return list(items)
    k = rng.randrange(1, min(3, len(items)) + 1)
    parts = [[] for _ in range(k)]
    for it in items:
        parts[rng.randrange(k)].append(it)
    out = []
    for p in parts:
        if not p:
            continue
        out.append(split(rng, p, depth - 1) if len(p) > 1 and rng.random() < 0.7 else (p if len(p) > 1 else p[0]))
    return out


def eval_tree(chk, node, root, branch, counter, threads):
    """returns a path to an artifact: leaves are input files; inner nodes are aggregated to an lcov report"""
    if isinstance(node, str):
        return node
    args = [eval_tree(chk, ch, root, branch, counter, threads) for ch in node]
    chk.rng.shuffle(args)          # the order in which a stage is given its inputs is one more way of splitting
    counter[0] += 1
    out_path = os.path.join(root, "stage_%d.info" % counter[0])
    rc, out, err = pipeline.run_cli(args, threads, branch, cwd=root)
    chk.count()
    if rc != 0:
        raise RuntimeError("stage failed rc=%s %s" % (rc, err[-300:]))
    open(out_path, "wb").write(out)
    return out_path


def has_xml(node):
    return node.endswith(".xml") if isinstance(node, str) else any(has_xml(c) for c in node)


def run(chk):
    chk.proofs()
    rng = chk.rng
    n = 120 if chk.tier == "quick" else 1200
    known = {e["key"]: e for e in vlib.known_findings(chk.pid) if e.get("status") == "known"}
    dist = {"scenarios": n, "with_xml": 0, "without_branch": 0, "depths": []}
    for i in range(n):
        root = vlib.scratch("c06_%d" % i)
        ind = os.path.join(root, "in")
        os.makedirs(ind)
        files = []
        for j in range(rng.randrange(2, 7)):
            if rng.random() < 0.3:
                p = os.path.join(ind, "j%d.xml" % j)
                open(p, "wb").write(make_xml(rng, j))
            else:
                p = os.path.join(ind, "c%d.info" % j)
                open(p, "wb").write(pipeline.make_info(rng, j, ["src/a.c", "src/./a.c", "b.c", "./b.c", "com/x/Top.java", "lib/é.rs", "lib//é.rs"], agree_starts=True, branch_only=0.2))
            files.append(p)
        branch = rng.random() < 0.7
        depth = rng.choice([1, 2, 3])
        tree = split(rng, files, depth)
        dist["with_xml"] += has_xml(tree)
        dist["without_branch"] += not branch
        dist["depths"].append(depth)
        rc, direct, err = pipeline.run_cli(rng.sample(files, len(files)), rng.choice([1, 2, 4]), branch, cwd=root)
        chk.count()
        if rc != 0:
            chk.violation({"kind": "oracle", "clause": "direct run failed", "stderr": err[-500:]}, tag="cli")
            continue
        try:
            top = eval_tree(chk, tree if isinstance(tree, list) else [tree], root, branch, [0], rng.choice([1, 2, 4]))
        except RuntimeError as e:
            chk.violation({"kind": "oracle", "clause": "a shard stage failed: %s" % e}, tag="cli")
            continue
        sharded = open(top, "rb").read()
        if records(sharded) != records(direct):
            hist = {"inputs": {os.path.basename(f): open(f, "rb").read().decode("utf-8", "replace") for f in files},
                    "partition": json.loads(json.dumps(tree, default=str).replace(ind + "/", "")), "branch": branch,
                    "direct": direct.decode("latin-1"), "sharded": sharded.decode("latin-1")}
            if not branch and has_xml(tree) and "jacoco-branches-without-branch-flag" in known and \
               records(drop_brda(direct)) == records(drop_brda(sharded)):
                chk.known(known["jacoco-branches-without-branch-flag"])
                continue
            chk.violation(dict(hist, kind="oracle", clause="sharded aggregation through lcov differs from direct aggregation"), tag="cli")
            continue
        chk.nontrivial(["c06", i])
        chk.sample({"partition": json.loads(json.dumps(tree).replace(ind + "/", "")), "branch": branch, "report_bytes": len(direct)}, limit=3)
        shutil.rmtree(root, ignore_errors=True)
    chk.extra["distribution"] = dist
    chk.cov["rule"] = ("scenarios of 2-6 .info/.xml inputs, a random nested partition (depth 1-3), with and without --branch, 1-4 threads per stage, every stage and the single run given their inputs in a shuffled order: the lcov report of the "
                       "single run must equal (as record sets, summary lines included) the report obtained by aggregating every shard to lcov and aggregating those; "
                       "non-trivial = scenario that agreed; the model side is the composition theorem (no separate evaluation)")
    chk.cov["trusted_base"] = ["Coq kernel", "C01 and C05 developments (composition)", "CLI runs, Python record reader"]
    chk.assumptions = ["each stage is run with the same --branch setting; path options are not used between stages",
                       "inputs agree on the start line of every function they both name (otherwise the start line depends on the processing order: C02's carve-out)",
                       "known finding: JaCoCo branch data is produced even without --branch and is dropped by a later lcov stage without --branch"]


def drop_brda(data):
    return b"\n".join(l for l in data.split(b"\n") if not l.startswith((b"BRDA:", b"BRF:", b"BRH:")))


def replay(chk, path):
    chk.proofs()
