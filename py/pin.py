import json, os, sys
sys.path.insert(0, os.path.dirname(os.path.abspath(__file__)))
import vlib
os.makedirs(os.path.join(vlib.COQ, "pins"), exist_ok=True)
for pid in sys.argv[1:]:
    thms, _ = vlib.theorem_statements(pid)
    with open(os.path.join(vlib.COQ, "pins", pid + ".json"), "w") as f:
        json.dump(dict(thms), f, indent=1, sort_keys=True)
    print(pid, len(thms), "theorems pinned")
