"""C14, JaCoCo part: malformed JaCoCo XML through parse_jacoco_xml_report (engine `jacoco`: forked child with a CPU-time
limit and a 1 GiB address-space limit, so hangs and allocation aborts are observed, not suffered).
Sweeps: every prefix of the /repo/test/jacoco fixtures and of a few generated reports; every attribute value replaced
by boundary tokens (huge / negative / non-numeric counters, broken entities, bad UTF-8); tag removal/duplication and
seeded multi-point corruptions.  Outcome must be ok/err within the CPU limit; panic/abort only inside the known class
jacoco-branch-vector-alloc (a <line> whose cb or mb is too large to allocate); the Gallina descent (Model/Jacoco.v), run
on the event stream quick-xml produced for the same bytes, must agree on the outcome class (and on the result when ok)."""
import glob, os, re
import vlib, jacocogen as jg

ISIZE_MAX = 2**63 - 1
MODEL_CAP = 20000           # cb/mb above this (and below 2^63) are not expanded under vm_compute
ALLOC_SUSPECT = 2**24       # a cb/mb at least this large puts the case into the known class when it panics/aborts

VALUE_TOKENS = [b"", b"0", b"-1", b"+1", b"+", b"01", b" 1", b"1 ", b"abc", b"1e3", b"0x10", b"4294967295", b"4294967296",
                b"18446744073709551615", b"18446744073709551616", b"9223372036854775807", b"9223372036854775808",
                b"99999999999", b"99999999999999999999999999", b"&#49;", b"&bogus;", b"&", b"<", b"\xff\xfe", b"\xc3\xa9", b"METHOD", b"/", b"$", b"#"]


def corpus(rng):
    out = []
    for p in sorted(glob.glob(os.path.join(vlib.REPO, "test", "jacoco", "*.xml"))):
        data = open(p, "rb").read()
        if data:                                  # one fixture is an empty file in this sandbox
            out.append((os.path.basename(p), data))
    for i in range(4):
        rep = jg.gen_report(rng)
        out.append(("generated_%d" % i, jg.render(rng, rep, None if i % 2 == 0 else jg.PLAIN)))
    return out


def value_subst(data):
    """every attribute value replaced by every boundary token"""
    for m in re.finditer(rb'=\s*"([^"]*)"', data):
        for t in VALUE_TOKENS:
            yield data[:m.start(1)] + t + data[m.end(1):]


def known_alloc_entry():
    for pid in ("C14", "C10"):
        for e in vlib.known_findings(pid):
            if e.get("key") == "jacoco-branch-vector-alloc" and e.get("status") == "known":
                return e
    return None


def in_known_class(evs):
    """the decidable class of the known finding, read off the dumped events: some <line> carries a cb/mb too large to allocate"""
    return evs is not None and jg.max_counter(evs) >= ALLOC_SUSPECT


def run_part(chk):
    rng = chk.rng
    quick = chk.tier == "quick"
    corp = corpus(rng)
    cases = []
    for name, data in corp:
        step = 1 if (not quick or len(data) < 1200) else 5
        for n in range(0, len(data) + 1, step):
            cases.append(("prefix", name, data[:n]))
        # every cut right after a '>' (the reader ends between elements: the old hang) is always included
        for m in re.finditer(rb">", data):
            cases.append(("prefix_at_tag_end", name, data[:m.end()]))
        subs = list(value_subst(data))
        if quick and len(subs) > 700:
            subs = rng.sample(subs, 700)
        for s in subs:
            cases.append(("value", name, s))
    for i in range(300 if quick else 1500):
        name, data = rng.choice(corp)
        d = data
        for _ in range(rng.choice([1, 1, 2, 3])):
            d = jg.mutate(rng, d)
        cases.append(("mutation", name, d))
    jcases = [{"xml": d.hex(), "events": False} for _, _, d in cases]
    impl = vlib.run_impl("jacoco", jcases, chk.pid, parallel=8, case_timeout=6)
    outcome = [jg.results_from_impl(r["res"]) if "res" in r else ("died", r) for r in impl]
    # second pass with the event dump: every case that did not end in ok/err, plus a random sample
    k = 350 if quick else 1200
    special = [i for i, o in enumerate(outcome) if o[0] not in ("ok", "err", "died")]
    idx = sorted(set(special + rng.sample(range(len(cases)), min(k, len(cases)))))
    ecases = [{"xml": jcases[i]["xml"]} for i in idx]
    eimpl = dict(zip(idx, vlib.run_impl("jacoco", ecases, chk.pid, parallel=8)))
    known = known_alloc_entry()
    classes, in_class, worst = {}, 0, 0
    for i, ((kind, name, data), jc, r) in enumerate(zip(cases, jcases, impl)):
        chk.count()
        a = outcome[i]
        if a[0] == "died":
            chk.violation({"kind": "oracle", "engine": "jacoco", "reader": "parse_jacoco_xml_report", "mutation": kind, "corpus_file": name, "case": jc,
                           "impl": r, "clause": "the harness process died on this input"}, tag="jacoco")
            continue
        classes[a[0]] = classes.get(a[0], 0) + 1
        worst = max(worst, r.get("_us", 0))
        if a[0] in ("ok", "err"):
            chk.nontrivial(["jacoco", jc["xml"][:64], len(data), a[0]])
            continue
        if a[0] in ("panic", "abort") and known is not None and in_known_class(eimpl.get(i, {}).get("events")):
            in_class += 1
            chk.known(known)
            continue
        chk.violation({"kind": "oracle", "engine": "jacoco", "reader": "parse_jacoco_xml_report", "mutation": kind, "corpus_file": name, "case": {"xml": jc["xml"]},
                       "input": data.decode("utf-8", "replace")[-300:], "impl": r.get("res"),
                       "clause": {"hang": "reading must end within the CPU limit (the parser spins)",
                                  "panic": "reading must end in a result or an error value, never a panic",
                                  "abort": "reading must not abort the process"}.get(a[0], "unexpected outcome class")}, tag="jacoco")
    # model / implementation agreement on the second pass (same bytes, so the outcome must also repeat)
    exprs, used = [], []
    for i in idx:
        r = eimpl[i]
        evs = r.get("events")
        if evs is None or "res" not in r:
            continue
        if jg.results_from_impl(r["res"])[0] != outcome[i][0]:
            chk.violation({"kind": "oracle", "engine": "jacoco", "case": {"xml": jcases[i]["xml"]}, "first": outcome[i][0], "second": r["res"],
                           "clause": "the same bytes must give the same outcome class twice"}, tag="jacoco")
            continue
        mx = jg.max_counter(evs)
        if MODEL_CAP < mx <= ISIZE_MAX:
            continue                              # the model would build the vector: cb + mb entries
        exprs.append(vlib.app("run_jacoco", jg.events_coq(evs)))
        used.append(i)
    model = vlib.run_model(chk.pid, "Run.ShowJacoco", exprs, shard_size=120)
    dis = 0
    for i, rm in zip(used, model):
        a = jg.results_from_impl(eimpl[i]["res"])
        if isinstance(rm, tuple) and rm and rm[0] == "@@ERROR":
            m = ("error", rm)
        else:
            m = jg.results_from_coq(rm)
        if (a[0] != m[0] or (a[0] == "ok" and vlib.canon(a[1]) != vlib.canon(m[1]))) and dis < 3:
            dis += 1
            chk.violation({"kind": "correspondence", "engine": "jacoco", "case": {"xml": jcases[i]["xml"]}, "impl": a, "model": m,
                           "theorems_at_stake": "C14_jacoco_* (Model/Jacoco.v no longer describes parse_jacoco_xml_report's outcome on quick-xml's event stream)"},
                          has_input=False, tag="jacoco-corr")
    chk.sample({"reader": "parse_jacoco_xml_report", "mutation": "prefix_at_tag_end", "input": corp[0][1][:corp[0][1].find(b"<sourcefile") + 40].decode("utf-8", "replace")[-160:]})
    return {"cases": len(cases), "outcomes": classes, "in_known_class_jacoco-branch-vector-alloc": in_class, "slowest_us": worst,
            "model_compared": len(used), "corpus": [(n, len(d)) for n, d in corp],
            "by_mutation": {kd: sum(1 for c in cases if c[0] == kd) for kd in ("prefix", "prefix_at_tag_end", "value", "mutation")}}
