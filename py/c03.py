"""C03 - report fidelity: every output format decodes back to the aggregated data.
Proofs (Props/C03.v) + output_* correspondence with the Gallina encoders + the property's own statement evaluated with
independent readers on the real reports (reportdec.py)."""
import itertools, json
import vlib
import reportgen as G

PID = "C03"


def tiny_universe(rng, complete):
    """one file, lines within {1,2,3}, counts from the boundary pool, optional branch / function; every output type"""
    pool = [0, 1, 2**63 - 1, 2**63, 2**64 - 1]
    cases = []
    for k in range(0, 4):
        for ls in itertools.combinations([1, 2, 3], k):
            for cs in itertools.product(pool, repeat=k):
                cov = {"lines": [[l, c] for l, c in zip(ls, cs)], "branches": [], "funcs": []}
                cases.append(cov)
    if not complete:
        cases = cases[:20] + rng.sample(cases[20:], 40)
    out = []
    for i, cov in enumerate(cases):
        if i % 3 == 0:
            cov = dict(cov, branches=[[2, [True, False]]], funcs=[[G.hx("f"), 2, True]])
        out.append({"results": [[G.hx("/w/src/t.c"), G.hx("src/t.c"), cov, 3]], "types": G.TYPES, "precision": i % 5, "branch": True})
    return out


def selftest(chk):
    """the oracle must notice seeded corruptions of a real report (guards the readers against accepting anything)"""
    case = G.fixed_cases()[5]
    res = vlib.run_impl("report", [case], chk.pid, extra_env={"GIT_DIR": "/nonexistent"})[0]
    muts = {
        "lcov": lambda b: b.replace(b"DA:6,1\n", b"DA:6,2\n", 1),
        "covdir": lambda b: b.replace(b'"linesTotal":6', b'"linesTotal":7', 1),
        "coveralls": lambda b: b.replace(b'"coverage":[0,0,0,null', b'"coverage":[0,null,0,null', 1),
        "cobertura": lambda b: b.replace(b'number="6" hits="1"', b'number="6" hits="3"', 1),
        "markdown": lambda b: b.replace(b"1-5, 8", b"1-5   ", 1),
        "files": lambda b: b.replace(b"src/z.c\n", b"", 1),
    }
    missed = []
    for ty, f in muts.items():
        orig = bytes.fromhex(res[ty])
        mut = f(orig)
        if mut == orig:
            missed.append(ty + " (mutation did not apply)")
            continue
        F, _ = G.evaluate_case(dict(case, types=[ty]), {ty: mut.hex()})
        if not [it for it in F.items if it["known"] is None]:
            missed.append(ty)
    chk.extra["oracle_selftest"] = {"mutations": len(muts), "undetected": missed}
    if missed:
        chk.violation({"kind": "oracle-selftest", "detail": "seeded corruptions not noticed by the readers: %s" % missed}, has_input=False, tag="selftest")


MANGLED = ["_Z3fooi", "_Z3food", "_Z3foov", "_ZN3bar3bazEi", "_ZN3bar3bazEd", "_ZN4core3fmt5write17h0123456789abcdefE",
           "_ZN4core3fmt5write17hfedcba9876543210E", "plain_c_function", "?f@@YAHH@Z", "?f@@YAHN@Z"]


def demangle_stream(chk, n):
    """Function detail with demangling ON: names that demangle identically (C++ overloads, Rust generic
    instantiations) are distinct functions and must all be reported: per file the number of function entries and
    the multiset of (start, executed) must be those of the input (names are not compared: the demangler is not modelled)."""
    import json as _json, xml.etree.ElementTree as ET
    rng = chk.rng
    cases = []
    for i in range(n):
        files = []
        for j in range(rng.randrange(1, 3)):
            names = rng.sample(MANGLED, rng.randrange(2, 6))
            funcs = sorted([[nm.encode().hex(), rng.choice([1, 3, 5, 9]), rng.random() < 0.5] for nm in names], key=lambda x: bytes.fromhex(x[0]))
            lines = [[l, rng.choice([0, 1, 7])] for l in range(1, 12)]
            rel = ("d%d/f%d.cpp" % (i, j)).encode().hex()
            files.append(["2f772f".encode().hex() if False else ("/w/" + "d%d/f%d.cpp" % (i, j)).encode().hex(), rel,
                          {"lines": lines, "branches": [], "funcs": funcs}, 32])
        cases.append({"results": files, "types": ["lcov", "coveralls+", "cobertura"], "precision": 2, "branch": True, "demangle": True})
    impl = vlib.run_impl("report", cases, chk.pid, extra_env={"GIT_DIR": "/nonexistent"})
    for case, res in zip(cases, impl):
        chk.count()
        want = {bytes.fromhex(f[1]).decode(): sorted((fn[1], fn[2]) for fn in f[2]["funcs"]) for f in case["results"]}
        got = {}
        try:
            # lcov: FN / FNDA records in order per SF
            cur = None
            fn, fnda = {}, {}
            for line in bytes.fromhex(res["lcov"]).split(b"\n"):
                if line.startswith(b"SF:"):
                    cur = line[3:].decode()
                    fn[cur], fnda[cur] = [], []
                elif line.startswith(b"FN:"):
                    fn[cur].append(int(line[3:].split(b",")[0]))
                elif line.startswith(b"FNDA:"):
                    fnda[cur].append(int(line[5:].split(b",")[0]) != 0)
            got["lcov"] = {k: sorted(zip(fn[k], fnda[k])) for k in fn}
            doc = _json.loads(bytes.fromhex(res["coveralls+"]))
            got["coveralls+"] = {f["name"]: sorted((x["start"], x["exec"]) for x in f.get("functions", [])) for f in doc["source_files"]}
            root = ET.fromstring(bytes.fromhex(res["cobertura"]))
            got["cobertura"] = {}
            for cl in root.iter("class"):
                ms = []
                for m in cl.iter("method"):
                    ls = [int(l.get("number")) for l in m.iter("line")]
                    ms.append(min(ls) if ls else None)
                got["cobertura"][cl.get("filename")] = ms
        except Exception as ex:
            chk.violation({"kind": "oracle", "engine": "report", "case": case, "clause": "demangled reports must be readable: %r" % ex}, tag="demangle")
            continue
        bad = None
        for fmt in ("lcov", "coveralls+"):
            if got[fmt] != want:
                bad = (fmt, got[fmt])
        if not bad and {k: len(v) for k, v in got["cobertura"].items()} != {k: len(v) for k, v in want.items()}:
            bad = ("cobertura", got["cobertura"])
        if bad:
            chk.violation({"kind": "oracle", "engine": "report", "case": case, "format": bad[0], "decoded": bad[1], "expected": want,
                           "clause": "with demangling on every function is still reported once (functions whose names demangle identically must not collapse)"}, tag="demangle")
        else:
            chk.nontrivial(["demangle", case["results"]])


def run(chk, prop=PID):
    chk.proofs()
    quick = chk.tier == "quick"
    rng = chk.rng
    cases = G.fixed_cases() + [G.make_case(rng) for _ in range(170 if quick else 2600)]
    # a slice without the known classes, so that the unguarded clauses are exercised on clean inputs as well
    cases += [G.make_case(rng, big=False, branch_only=False, root_files=False, abs_paths=False) for _ in range(40 if quick else 400)]
    cases += tiny_universe(rng, not quick)
    impl, decs, stats = G.run_cases(chk, cases, prop, "gen")
    agree, bad = G.correspondence(chk, cases, decs, "gen", limit=None if not quick else 200)
    selftest(chk)
    if prop == PID:
        demangle_stream(chk, 25 if quick else 300)
    dist = {"result_sets": len(cases), "empty_set": 0, "files": 0, "files_without_lines": 0, "absolute_paths": 0, "root_files": 0,
            "lines": 0, "counts_ge_2^63": 0, "counts_2^64-1": 0, "branch_lines": 0, "branch_only_lines": 0, "functions": 0,
            "precision": {}}
    for c in cases:
        ts = [G.truth(e) for e in c["results"]]
        dist["empty_set"] += not ts
        dist["files"] += len(ts)
        dist["precision"][str(c["precision"])] = dist["precision"].get(str(c["precision"]), 0) + 1
        for t in ts:
            dist["files_without_lines"] += not t["lines"]
            dist["absolute_paths"] += t["rel"].startswith(b"/")
            dist["root_files"] += b"/" not in t["rel"]
            dist["lines"] += len(t["lines"])
            dist["counts_ge_2^63"] += sum(1 for v in t["lines"].values() if v >= 2**63)
            dist["counts_2^64-1"] += sum(1 for v in t["lines"].values() if v == 2**64 - 1)
            dist["branch_lines"] += len(t["branches"])
            dist["branch_only_lines"] += sum(1 for l in t["branches"] if l not in t["lines"])
            dist["functions"] += len(t["funcs"])
        if any(t["lines"] for t in ts):
            chk.nontrivial(c["results"])
    chk.extra["distribution"] = dist
    chk.extra["output_types_per_result_set"] = G.TYPES
    chk.extra["known_class_findings"] = stats["findings_in_known_classes"]
    chk.extra["model_correspondence"] = {"agree": agree, "disagree": bad,
                                         "formats": ["covdir (tree, stats, percent, arrays)", "coveralls", "coveralls+", "markdown", "cobertura (class lines, totals, rates)",
                                                     "html (rows, file/dir/global stats, coverage.json, badges)", "lcov (summaries)", "files",
                                                     "ade (method / file / orphan records: exact line lists and totals)"]}
    chk.sample({"result_set": cases[3]["results"], "types": G.TYPES}, limit=1)
    chk.cov["rule"] = ("generated result sets (0-6 files; relative, nested, root-level and absolute paths; 0-24 lines per file from 1..200 with counts from the boundary pool "
                       "{0,1,2^32-1,2^32,2^32+1,2^53+1,2^63-1,2^63,2^63+1,2^64-2,2^64-1} and random 64-bit values; branch vectors of 1-6 outcomes on counted and on "
                       "count-less lines; 0-4 functions with odd names; precision 0-4), 8 fixed boundary sets, a slice free of the known classes, and a one-file universe "
                       "(lines within {1,2,3} x 5 boundary counts, complete in the thorough tier); every set goes through all 10 output types of the real output_* functions; "
                       "evaluation = one result set through all types (oracle) or through the Gallina encoders (correspondence); non-trivial = a set with at least one instrumented line; distinct by content")
    chk.cov["trusted_base"] = ["Coq kernel; vm_compute for the correspondence", "serde_json / quick-xml / Tera / tabled serialisation of the documents (read back by Python json, xml.etree, html.parser and own lcov/markdown readers)",
                               "std::path component splitting (paths enter the model as component lists computed by the driver; only plain paths are generated)",
                               "impl_run harness (e_report.rs calls the public output_* functions as main.rs does), Python readers and oracle (self-tested by seeded corruptions)"]
    chk.assumptions = ["line numbers are in 1..200 in the generated sets (array formats allocate one slot per line; the theorems hold for any line >= 1 below 2^32-1)",
                       "paths are distinct, contain no '.', '..' or empty components, and no path is a directory of another (C11/C12 territory)",
                       "function and file names are printable, without control characters or '|' in file names (escaping is C18)",
                       "branch vectors are non-empty (a line with an empty vector is not representable in lcov, coveralls or Cobertura)",
                       "HTML: every source file exists with at least as many lines as its highest instrumented line (the property's hypothesis)",
                       "demangle = false; Coveralls service fields fixed; git metadata empty"]


def replay(chk, path):
    r = json.load(open(path))
    if "case" in r:
        impl, decs, _ = G.run_cases(chk, [r["case"]], chk.pid, "replay")
        G.correspondence(chk, [r["case"]], decs, "replay")
    else:
        chk.proofs()
