"""C03 - report fidelity: every output format decodes back to the aggregated data.
Proofs (Props/C03.v) + output_* correspondence with the Gallina encoders + the property's own statement evaluated with
independent readers on the real reports (reportdec.py)."""
import itertools, json
import vlib
import reportgen as G

PID = "C03"


def tiny_universe(rng, complete):
    """one file, lines within {1,2,3}, counts from the boundary pool, optional branch / function; every output type"""
    pool = [0, 1, 2**63 - 1, 2**63, 2**64 - 1]
    cases = []
    for k in range(0, 4):
        for ls in itertools.combinations([1, 2, 3], k):
            for cs in itertools.product(pool, repeat=k):
                cov = {"lines": [[l, c] for l, c in zip(ls, cs)], "branches": [], "funcs": []}
                cases.append(cov)
    if not complete:
        cases = cases[:20] + rng.sample(cases[20:], 40)
    out = []
    for i, cov in enumerate(cases):
        if i % 3 == 0:
            cov = dict(cov, branches=[[2, [True, False]]], funcs=[[G.hx("f"), 2, True]])
        out.append({"results": [[G.hx("/w/src/t.c"), G.hx("src/t.c"), cov, 3]], "types": G.TYPES, "precision": i % 5, "branch": True})
    return out


def selftest(chk):
    """the oracle must notice seeded corruptions of a real report (guards the readers against accepting anything)"""
    case = G.fixed_cases()[5]
    res = vlib.run_impl("report", [case], chk.pid, extra_env={"GIT_DIR": "/nonexistent"})[0]
    muts = {
        "lcov": lambda b: b.replace(b"DA:6,1\n", b"DA:6,2\n", 1),
        "covdir": lambda b: b.replace(b'"linesTotal":6', b'"linesTotal":7', 1),
        "coveralls": lambda b: b.replace(b'"coverage":[0,0,0,null', b'"coverage":[0,null,0,null', 1),
        "cobertura": lambda b: b.replace(b'number="6" hits="1"', b'number="6" hits="3"', 1),
        "markdown": lambda b: b.replace(b"1-5, 8", b"1-5   ", 1),
        "files": lambda b: b.replace(b"src/z.c\n", b"", 1),
    }
    missed = []
    for ty, f in muts.items():
        orig = bytes.fromhex(res[ty])
        mut = f(orig)
        if mut == orig:
            missed.append(ty + " (mutation did not apply)")
            continue
        F, _ = G.evaluate_case(dict(case, types=[ty]), {ty: mut.hex()})
        if not [it for it in F.items if it["known"] is None]:
            missed.append(ty)
    chk.extra["oracle_selftest"] = {"mutations": len(muts), "undetected": missed}
    if missed:
        chk.violation({"kind": "oracle-selftest", "detail": "seeded corruptions not noticed by the readers: %s" % missed}, has_input=False, tag="selftest")


MANGLED = ["_Z3fooi", "_Z3food", "_Z3foov", "_ZN3bar3bazEi", "_ZN3bar3bazEd", "_ZN4core3fmt5write17h0123456789abcdefE",
           "_ZN4core3fmt5write17hfedcba9876543210E", "plain_c_function", "?f@@YAHH@Z", "?f@@YAHN@Z"]


def demangle_stream(chk, n):
    """Function detail with demangling ON: names that demangle identically (C++ overloads, Rust generic
    instantiations) are distinct functions and must all be reported: per file the number of function entries and
    the multiset of (start, executed) must be those of the input (names are not compared: the demangler is not modelled)."""
    import json as _json, xml.etree.ElementTree as ET
    rng = chk.rng
    cases = []
    for i in range(n):
        files = []
        for j in range(rng.randrange(1, 3)):
            names = rng.sample(MANGLED, rng.randrange(2, 6))
            funcs = sorted([[nm.encode().hex(), rng.choice([1, 3, 5, 9]), rng.random() < 0.5] for nm in names], key=lambda x: bytes.fromhex(x[0]))
            lines = [[l, rng.choice([0, 1, 7])] for l in range(1, 12)]
            rel = ("d%d/f%d.cpp" % (i, j)).encode().hex()
            files.append(["2f772f".encode().hex() if False else ("/w/" + "d%d/f%d.cpp" % (i, j)).encode().hex(), rel,
                          {"lines": lines, "branches": [], "funcs": funcs}, 32])
        cases.append({"results": files, "types": ["lcov", "coveralls+", "cobertura"], "precision": 2, "branch": True, "demangle": True})
    impl = vlib.run_impl("report", cases, chk.pid, extra_env={"GIT_DIR": "/nonexistent"})
    for case, res in zip(cases, impl):
        chk.count()
        want = {bytes.fromhex(f[1]).decode(): sorted((fn[1], fn[2]) for fn in f[2]["funcs"]) for f in case["results"]}
        got = {}
        try:
            # lcov: FN / FNDA records in order per SF
            cur = None
            fn, fnda = {}, {}
            for line in bytes.fromhex(res["lcov"]).split(b"\n"):
                if line.startswith(b"SF:"):
                    cur = line[3:].decode()
                    fn[cur], fnda[cur] = [], []
                elif line.startswith(b"FN:"):
                    fn[cur].append(int(line[3:].split(b",")[0]))
                elif line.startswith(b"FNDA:"):
                    fnda[cur].append(int(line[5:].split(b",")[0]) != 0)
            got["lcov"] = {k: sorted(zip(fn[k], fnda[k])) for k in fn}
            doc = _json.loads(bytes.fromhex(res["coveralls+"]))
            got["coveralls+"] = {f["name"]: sorted((x["start"], x["exec"]) for x in f.get("functions", [])) for f in doc["source_files"]}
            root = ET.fromstring(bytes.fromhex(res["cobertura"]))
            got["cobertura"] = {}
            for cl in root.iter("class"):
                ms = []
                for m in cl.iter("method"):
                    ls = [int(l.get("number")) for l in m.iter("line")]
                    ms.append(min(ls) if ls else None)
                got["cobertura"][cl.get("filename")] = ms
        except Exception as ex:
            chk.violation({"kind": "oracle", "engine": "report", "case": case, "clause": "demangled reports must be readable: %r" % ex}, tag="demangle")
            continue
        bad = None
        for fmt in ("lcov", "coveralls+"):
            if got[fmt] != want:
                bad = (fmt, got[fmt])
        if not bad and {k: len(v) for k, v in got["cobertura"].items()} != {k: len(v) for k, v in want.items()}:
            bad = ("cobertura", got["cobertura"])
        if bad:
            chk.violation({"kind": "oracle", "engine": "report", "case": case, "format": bad[0], "decoded": bad[1], "expected": want,
                           "clause": "with demangling on every function is still reported once (functions whose names demangle identically must not collapse)"}, tag="demangle")
        else:
            chk.nontrivial(["demangle", case["results"]])


def lcov_sections_by_record(data):
    """lcov tracefile -> per section the RECORDS as they are listed (no keying by name: with demangling on several
    functions of a file may carry one name): name, #FN, #FNDA, #FNDA with a positive count, #DA, #DA > 0, #BRDA, #BRDA taken, summaries"""
    out, cur = [], None
    for raw in data.split(b"\n"):
        key, _, val = raw.partition(b":")
        if key == b"SF":
            cur = {"name": val, "FN": 0, "FNDA": 0, "FNDA_hit": 0, "DA": 0, "DA_hit": 0, "BRDA": 0, "BRDA_taken": 0, "summ": {}}
        elif raw == b"end_of_record":
            if cur is not None:
                out.append(cur)
            cur = None
        elif cur is None:
            continue
        elif key == b"FN":
            cur["FN"] += 1
        elif key == b"FNDA":
            cur["FNDA"] += 1
            cur["FNDA_hit"] += int(val.split(b",")[0]) > 0
        elif key == b"DA":
            cur["DA"] += 1
            cur["DA_hit"] += int(val.split(b",")[1]) > 0
        elif key == b"BRDA":
            cur["BRDA"] += 1
            cur["BRDA_taken"] += val.split(b",")[3] not in (b"-", b"0")
        elif key in (b"LF", b"LH", b"BRF", b"BRH", b"FNF", b"FNH"):
            cur["summ"][key.decode()] = int(val)
    return out


def lcov_summary_findings(F, data, nfiles):
    """C13 on an lcov report whose function names may coincide: every summary figure against the records listed in the same section"""
    secs = lcov_sections_by_record(data)
    if len(secs) != nfiles:
        F.add("C13", "lcov", "one section per file", "%d sections for %d files" % (len(secs), nfiles))
    for s in secs:
        exp = {"LF": s["DA"], "LH": s["DA_hit"], "BRF": s["BRDA"], "BRH": s["BRDA_taken"]}
        if s["FN"] or s["FNDA"] or "FNF" in s["summ"] or "FNH" in s["summ"]:
            exp["FNF"], exp["FNH"] = s["FN"], s["FNDA_hit"]
        if s["summ"] != exp:
            F.add("C13", "lcov", "LF/LH/BRF/BRH/FNF/FNH equal the counts of the listed records (demangling on)",
                  "%s: printed %s, the listed records imply %s (%d FN, %d FNDA)" % (s["name"], s["summ"], exp, s["FN"], s["FNDA"]))
        if s["FN"] != s["FNDA"]:
            F.add("C13", "lcov", "every listed function has its FNDA record", "%s: %d FN, %d FNDA" % (s["name"], s["FN"], s["FNDA"]))
        for a, b in (("LH", "LF"), ("BRH", "BRF"), ("FNH", "FNF")):
            if a in s["summ"] and b in s["summ"] and s["summ"][a] > s["summ"][b]:
                F.add("C13", "lcov", "covered <= total", "%s: %s=%d > %s=%d" % (s["name"], a, s["summ"][a], b, s["summ"][b]))


def demangle_summary_stream(chk, n, prop):
    """C13 with demangling ON: files whose functions carry mangled names that demangle to one name (C++ overloads, C1/C2-style
    copies, Rust hash-suffix instantiations, MSVC overloads).  The lcov report is the one format that prints function totals
    next to the function list: FNF / FNH (and LF/LH, BRF/BRH) must equal the counts of the FN / hit FNDA (DA, BRDA) records
    listed in the same section.  Through the report engine (output_lcov(.., demangle = true)) and through the real binary
    (lcov input with the mangled names, no --no-demangle).  Cobertura (methods), coveralls+ (functions), ActiveData (method
    records) list functions but print no function totals, HTML prints totals but no list: nothing of theirs depends on it."""
    import os, subprocess
    rng = chk.rng
    known = {e["key"]: e for e in vlib.known_findings(prop) if e.get("status") == "known"}
    stats = {"findings_in_known_classes": {}}
    cases = []
    for i in range(n):
        files = []
        for j in range(rng.randrange(1, 4)):
            names = rng.sample(MANGLED, rng.randrange(0, 7))
            funcs = sorted([[nm.encode().hex(), rng.choice([1, 3, 5, 9]), rng.random() < 0.55] for nm in names], key=lambda x: bytes.fromhex(x[0]))
            lines = [[l, rng.choice([0, 1, 7])] for l in sorted(rng.sample(range(1, 14), rng.randrange(0, 9)))]
            branches = [[l, [rng.random() < 0.5 for _ in range(rng.randrange(1, 4))]] for l in sorted(rng.sample(range(1, 14), rng.randrange(0, 3)))]
            rel = "m%d/f%d.cpp" % (i, j)
            files.append([G.hx("/w/" + rel), G.hx(rel), {"lines": lines, "branches": branches, "funcs": funcs}, 16])
        cases.append({"results": files, "types": ["lcov"], "precision": 2, "branch": True, "demangle": True})
    impl = vlib.run_impl("report", cases, chk.pid, extra_env={"GIT_DIR": "/nonexistent"})
    collisions = 0
    for case, res in zip(cases, impl):
        chk.count()
        F = G.Findings()
        if not isinstance(res.get("lcov"), str):
            F.add("C13", "lcov", "the report is produced", str(res)[:300])
        else:
            lcov_summary_findings(F, bytes.fromhex(res["lcov"]), len(case["results"]))
        bad = G.report_findings(chk, F, prop, known, stats, {"kind": "oracle", "engine": "report", "case": case}, "demangle-summ")
        if not bad:
            chk.nontrivial(["demangle-summ", case["results"]])
    # the same through the real binary: demangling is the default there
    exe = vlib.build_cli()
    ncli = max(8, n // 2)
    for i, case in enumerate(cases[:ncli]):
        chk.count()
        root = vlib.scratch("%s_dm_%d" % (prop.lower(), i % 4))
        src = os.path.join(root, "src")
        for e in case["results"]:
            path = os.path.join(src, bytes.fromhex(e[1]).decode())
            os.makedirs(os.path.dirname(path), exist_ok=True)
            open(path, "w").write("".join("L%d\n" % k for k in range(1, 17)))
        open(os.path.join(root, "in.info"), "w").write(render_lcov(case["results"]))
        cmd = [exe, "in.info", "-s", src, "-t", "lcov", "-o", "out.info", "--branch", "--threads", "2"]
        replay = {"kind": "oracle", "engine": "cli", "cmd": cmd[1:], "case": case, "input": render_lcov(case["results"])}
        pr = subprocess.run(cmd, cwd=root, stdout=subprocess.PIPE, stderr=subprocess.PIPE, timeout=60)
        F = G.Findings()
        outp = os.path.join(root, "out.info")
        if pr.returncode != 0 or not os.path.isfile(outp):
            F.add("C13", "lcov", "the report is produced", "status %s: %s" % (pr.returncode, pr.stderr.decode("utf-8", "replace")[-300:]))
        else:
            data = open(outp, "rb").read()
            lcov_summary_findings(F, data, len(case["results"]))
            secs = lcov_sections_by_record(data)
            collisions += any(s["FN"] >= 2 for s in secs)
        G.report_findings(chk, F, prop, known, stats, replay, "demangle-summ-cli")
    chk.extra["demangle_summary_stream"] = {"engine_cases": len(cases), "cli_cases": ncli, "mangled_name_pool": MANGLED,
                                            "cli_reports_with_two_or_more_functions_in_a_file": collisions}


# ----------------------------------------------------------------------------------------------------------------
# CLI stream: the same result sets through the real binary, so that what src/main.rs passes to output_* is observed
# ----------------------------------------------------------------------------------------------------------------
# file names main.rs gives each output type inside an -o directory
CLI_NAMES = {"ade": "activedata", "lcov": "lcov", "coveralls": "coveralls", "coveralls+": "coveralls+", "files": "files", "covdir": "covdir",
             "html": "html", "cobertura": "cobertura.xml", "cobertura-pretty": "cobertura.xml", "markdown": "markdown.md"}
PLAIN_FN = ["f", "main", "area", "helper_1", "init", "x9", "Class_method", "do_it"]
MANGLED_FN = ("_ZN3foo3barEv", "foo::bar")      # an Itanium name and what name-only demangling makes of it


def render_lcov(entries):
    """result-set entries -> lcov tracefile text (only what lcov carries: DA, BRDA block 0, FN, FNDA)"""
    out = ["TN:"]
    for _, rel, cov, _ in entries:
        out.append("SF:" + bytes.fromhex(rel).decode())
        for n, st, ex in cov["funcs"]:
            out.append("FN:%d,%s" % (st, bytes.fromhex(n).decode()))
        for n, st, ex in cov["funcs"]:
            out.append("FNDA:%d,%s" % (3 if ex else 0, bytes.fromhex(n).decode()))
        for l, v in cov["branches"]:
            for k, b in enumerate(v):
                out.append("BRDA:%d,0,%d,%s" % (l, k, "1" if b else "-"))
        for l, c in cov["lines"]:
            out.append("DA:%d,%d" % (l, c))
        out.append("end_of_record")
    return "\n".join(out) + "\n"


def _read_tree(root):
    import os
    pages = {}
    for d, _, fs in os.walk(root):
        for f in fs:
            rel = os.path.relpath(os.path.join(d, f), root)
            if rel != "bulma.min.css":
                pages[G.hx(rel)] = open(os.path.join(d, f), "rb").read().hex()
    return pages


def cli_stream(chk, n, prop):
    """Result sets rendered as lcov input, sources under --source-dir, the real grcov binary with one -t type per run
    (-o file) and several types at once (-o directory), --branch on/off, --precision 0-4 or default, --no-demangle on/off,
    Coveralls service options; the reports are decoded by the same readers and judged by the same oracles as the engine stream."""
    import os, subprocess, json as _json
    rng = chk.rng
    exe = vlib.build_cli()
    known = {e["key"]: e for e in vlib.known_findings(prop) if e.get("status") == "known"}
    stats = {"findings_in_known_classes": {}}
    dist = {"cases": 0, "runs": 0, "single_type_runs": 0, "multi_type_runs": 0, "single_into_directory": 0, "branch_on": 0, "no_demangle": 0,
            "default_precision": 0, "types": {}, "precision": {}}
    for i in range(n):
        root = vlib.scratch("%s_cli_%d" % (prop.lower(), i % 8))
        src = os.path.join(root, "s r c")
        os.makedirs(src)
        entries = G.gen_resultset(rng, big=rng.random() < 0.3, branch_only=True, root_files=rng.random() < 0.3, abs_paths=False)
        if i % 6 == 0:
            for e in entries[:1]:
                if e[2]["funcs"]:
                    e[2]["funcs"][0][1], e[2]["funcs"][0][2] = 0, True      # an executed function recorded at line 0 (FN:0,name)
        branch = rng.random() < 0.65
        no_demangle = rng.random() < 0.5
        prec = rng.choice([None, 0, 1, 2, 3, 4, 4])
        p_eff = 2 if prec is None else prec
        real_src = os.path.realpath(src)
        truth_entries = []
        for e in entries:
            rel = bytes.fromhex(e[1]).decode()
            cov = e[2]
            # function names lcov and the demangler leave alone; one mangled name to observe --no-demangle
            names = rng.sample(PLAIN_FN, len(cov["funcs"]))
            if names and rng.random() < 0.5:
                names[0] = MANGLED_FN[0]
            cov["funcs"] = sorted([[G.hx(nm), st, ex] for nm, (_, st, ex) in zip(names, cov["funcs"])], key=lambda x: bytes.fromhex(x[0]))
            path = os.path.join(src, rel)
            os.makedirs(os.path.dirname(path), exist_ok=True)
            with open(path, "w") as f:
                f.write("".join("L%d\n" % k for k in range(1, e[3] + 1)))
            shown = dict(cov, branches=cov["branches"] if branch else [],
                         funcs=sorted([[G.hx(MANGLED_FN[1]) if (bytes.fromhex(nm).decode() == MANGLED_FN[0] and not no_demangle) else nm, st, ex]
                                       for nm, st, ex in cov["funcs"]], key=lambda x: bytes.fromhex(x[0])))
            truth_entries.append([G.hx(os.path.join(real_src, rel)), e[1], shown, e[3]])
        # one or two tracefiles
        k = rng.randrange(0, len(entries) + 1) if rng.random() < 0.5 else len(entries)
        inputs = []
        for j, part in enumerate([entries[:k], entries[k:]]):
            if part or j == 0:
                name = "in%d.info" % j
                open(os.path.join(root, name), "w").write(render_lcov(part))
                inputs.append(name)
        # coveralls options
        cv = {"token": "TK%d" % i if rng.random() < 0.6 else None, "service_name": None, "service_job_id": None,
              "service_number": rng.choice([None, "42"]), "service_pull_request": rng.choice([None, "7"]), "commit_sha": rng.choice([None, "abc123"]),
              "vcs_branch": rng.choice([None, "dev"]), "parallel": rng.random() < 0.4, "service_flag_name": rng.choice([None, "flag"])}
        if cv["token"] is None or rng.random() < 0.4:
            cv["service_name"], cv["service_job_id"] = "svc", "job%d" % i
        cvargs = []
        for key in ("token", "service_name", "service_job_id", "service_number", "service_pull_request", "commit_sha", "vcs_branch", "service_flag_name"):
            if cv[key] is not None:
                cvargs += ["--" + key.replace("_", "-"), cv[key]]
        if cv["parallel"]:
            cvargs.append("--parallel")
        common = inputs + ["-s", src, "--threads", str(rng.choice([1, 2, 3]))] + (["--branch"] if branch else []) + \
                 (["--precision", str(prec)] if prec is not None else []) + (["--no-demangle"] if no_demangle else [])
        # the runs: several types into a directory, then a few types alone into a file
        multi = [t for t in G.TYPES if t not in ("cobertura", "cobertura-pretty") and rng.random() < 0.8]
        multi.insert(rng.randrange(len(multi) + 1), rng.choice(["cobertura", "cobertura-pretty"]))
        if len(multi) < 2:
            multi = ["lcov"] + multi
        rng.shuffle(multi)
        runs = [("multi", multi)] + [("single", [t]) for t in rng.sample(G.TYPES, 3)]
        if rng.random() < 0.25:
            runs.append(("single-dir", [rng.choice(G.TYPES)]))
        dist["cases"] += 1
        dist["branch_on"] += branch
        dist["no_demangle"] += no_demangle
        dist["default_precision"] += prec is None
        dist["precision"][str(p_eff)] = dist["precision"].get(str(p_eff), 0) + 1
        for r, (mode, types) in enumerate(runs):
            chk.count()
            dist["runs"] += 1
            dist["multi_type_runs" if mode == "multi" else "single_into_directory" if mode == "single-dir" else "single_type_runs"] += 1
            for t in types:
                dist["types"][t] = dist["types"].get(t, 0) + 1
            out = os.path.join(root, "out%d" % r)
            if mode != "single":
                os.makedirs(out)
            needs_cv = any(t.startswith("coveralls") for t in types)
            cmd = [exe] + common + ["-t", ",".join(types), "-o", out] + (cvargs if needs_cv or rng.random() < 0.2 else [])
            replay = {"kind": "oracle", "engine": "cli", "cmd": cmd[1:], "mode": mode, "case": {"results": truth_entries, "precision": p_eff, "branch": branch},
                      "inputs": {nm: open(os.path.join(root, nm)).read() for nm in inputs}}
            try:
                pr = subprocess.run(cmd, cwd=root, stdout=subprocess.PIPE, stderr=subprocess.PIPE, timeout=60, env=dict(os.environ, GIT_DIR="/nonexistent"))
            except subprocess.TimeoutExpired:
                chk.violation(dict(replay, clause="grcov terminates"), tag="cli")
                continue
            if pr.returncode != 0:
                chk.violation(dict(replay, clause="grcov exits 0 and writes the reports", status=pr.returncode, stderr=pr.stderr.decode("utf-8", "replace")[-800:]), tag="cli")
                continue
            res = {}
            F_extra = G.Findings()
            for t in types:
                path = out if mode == "single" else os.path.join(out, CLI_NAMES[t])
                if t == "html":
                    res[t] = _read_tree(path) if os.path.isdir(path) else None
                else:
                    res[t] = open(path, "rb").read().hex() if os.path.isfile(path) else None
            if mode != "single":
                made = sorted(os.listdir(out))
                if made != sorted(CLI_NAMES[t] for t in types):
                    F_extra.add("C03", "cli", "one report per requested type, under the type's file name, and nothing else in the output directory",
                                "requested %s, directory holds %s" % (types, made))
            if pr.stdout.strip():
                F_extra.add("C03", "cli", "with -o nothing is printed on standard output", "%d bytes" % len(pr.stdout))
            case_t = {"results": truth_entries, "types": types, "precision": p_eff, "branch": branch}
            F, dec = G.evaluate_case(case_t, res)
            F.items += F_extra.items
            # options that only show in the text of the report
            for t in types:
                if res.get(t) is None or t == "html":
                    continue
                data = bytes.fromhex(res[t])
                if t in ("cobertura", "cobertura-pretty"):
                    pretty = b"\n" in data.strip()
                    if pretty != (t == "cobertura-pretty"):
                        F.add("C03", t, "pretty printing exactly for cobertura-pretty", "multi-line: %s" % pretty)
                if t in ("coveralls", "coveralls+"):
                    try:
                        doc = _json.loads(data)
                        exp = {"repo_token": cv["token"], "service_name": cv["service_name"], "service_job_id": cv["service_job_id"],
                               "service_number": cv["service_number"] or "", "service_pull_request": cv["service_pull_request"] or "",
                               "flag_name": cv["service_flag_name"], "parallel": cv["parallel"]}
                        got = {k2: doc.get(k2) for k2 in exp}
                        git = doc.get("git", {})
                        if got != exp or git.get("branch") != (cv["vcs_branch"] or "master") or git.get("head", {}).get("id") != (cv["commit_sha"] or ""):
                            F.add("C03", t, "the Coveralls service fields carry the command-line values", "options %s, report %s git %s" % (cv, got, git))
                    except Exception as ex:
                        F.add("C03", t, "the report can be decoded by an independent reader", repr(ex))
            bad = G.report_findings(chk, F, prop, known, stats, replay, "cli")
            if not bad and any(t[2]["lines"] for t in truth_entries):
                chk.nontrivial(["cli", mode, types, truth_entries, p_eff, branch, no_demangle])
    chk.extra["cli_stream"] = dist
    chk.extra["cli_known_class_findings"] = stats["findings_in_known_classes"]


def run(chk, prop=PID):
    chk.proofs()
    quick = chk.tier == "quick"
    rng = chk.rng
    cases = G.fixed_cases() + [G.make_case(rng) for _ in range(170 if quick else 2600)]
    # a slice without the known classes, so that the unguarded clauses are exercised on clean inputs as well
    cases += [G.make_case(rng, big=False, branch_only=False, root_files=False, abs_paths=False) for _ in range(40 if quick else 400)]
    cases += tiny_universe(rng, not quick)
    # every seventh result set is written to output paths that already hold an older, longer report
    for c in cases[3::7]:
        c["stale_output"] = True
    impl, decs, stats = G.run_cases(chk, cases, prop, "gen")
    agree, bad = G.correspondence(chk, cases, decs, "gen", limit=None if not quick else 200)
    selftest(chk)
    if prop == PID:
        demangle_stream(chk, 25 if quick else 300)
    if prop == "C13":
        demangle_summary_stream(chk, 30 if quick else 300, prop)
    cli_stream(chk, 45 if quick else 500, prop)
    G.big_stream(chk, prop, not quick)
    dist = {"result_sets": len(cases), "empty_set": 0, "files": 0, "files_without_lines": 0, "absolute_paths": 0, "root_files": 0,
            "lines": 0, "counts_ge_2^63": 0, "counts_2^64-1": 0, "branch_lines": 0, "branch_only_lines": 0, "functions": 0,
            "precision": {}}
    for c in cases:
        ts = [G.truth(e) for e in c["results"]]
        dist["empty_set"] += not ts
        dist["files"] += len(ts)
        dist["precision"][str(c["precision"])] = dist["precision"].get(str(c["precision"]), 0) + 1
        for t in ts:
            dist["files_without_lines"] += not t["lines"]
            dist["absolute_paths"] += t["rel"].startswith(b"/")
            dist["root_files"] += b"/" not in t["rel"]
            dist["lines"] += len(t["lines"])
            dist["counts_ge_2^63"] += sum(1 for v in t["lines"].values() if v >= 2**63)
            dist["counts_2^64-1"] += sum(1 for v in t["lines"].values() if v == 2**64 - 1)
            dist["branch_lines"] += len(t["branches"])
            dist["branch_only_lines"] += sum(1 for l in t["branches"] if l not in t["lines"])
            dist["functions"] += len(t["funcs"])
        if any(t["lines"] for t in ts):
            chk.nontrivial(c["results"])
    chk.extra["distribution"] = dist
    chk.extra["output_types_per_result_set"] = G.TYPES
    chk.extra["known_class_findings"] = stats["findings_in_known_classes"]
    chk.extra["model_correspondence"] = {"agree": agree, "disagree": bad,
                                         "formats": ["covdir (tree, stats, percent, arrays)", "coveralls", "coveralls+", "markdown", "cobertura (class lines, totals, rates)",
                                                     "html (rows, file/dir/global stats, coverage.json, badges)", "lcov (summaries)", "files",
                                                     "ade (method / file / orphan records: exact line lists and totals)"]}
    chk.sample({"result_set": cases[3]["results"], "types": G.TYPES}, limit=1)
    chk.cov["rule"] = ("generated result sets (0-6 files; relative, nested, root-level and absolute paths; 0-24 lines per file from 1..200 with counts from the boundary pool "
                       "{0,1,2^32-1,2^32,2^32+1,2^53+1,2^63-1,2^63,2^63+1,2^64-2,2^64-1} and random 64-bit values; branch vectors of 1-6 outcomes on counted and on "
                       "count-less lines; 0-4 functions with odd names; precision 0-4), 8 fixed boundary sets, a slice free of the known classes, and a one-file universe "
                       "(lines within {1,2,3} x 5 boundary counts, complete in the thorough tier); every set goes through all 10 output types of the real output_* functions; "
                       "CLI stream: result sets without absolute paths rendered as one or two lcov tracefiles with their sources under --source-dir, the real grcov binary run with one -t type and -o file, "
                       "with several types and -o directory (file names per type), --branch on/off, --precision 0-4 or default, --no-demangle on/off (one mangled name), --threads 1-3 and the Coveralls "
                       "service options, the reports judged by the same readers and oracles (plus: printed precision, branch columns, function detail only in coveralls+, pretty printing only in "
                       "cobertura-pretty, service fields, nothing else in the output directory); "
                       "size / boundary sets: three fixed result sets whose highest line is 2^16+1, 2^20, 2^20+1 (thorough: also 2^24+1) through covdir, coveralls(+) and the sparse formats; "
                       "evaluation = one result set through all types (oracle), through the Gallina encoders (correspondence), or one CLI run; non-trivial = a set with at least one instrumented line; distinct by content")
    chk.cov["trusted_base"] = ["Coq kernel; vm_compute for the correspondence", "serde_json / quick-xml / Tera / tabled serialisation of the documents (read back by Python json, xml.etree, html.parser and own lcov/markdown readers)",
                               "std::path component splitting (paths enter the model as component lists computed by the driver; only plain paths are generated)",
                               "impl_run harness (e_report.rs calls the public output_* functions as main.rs does), Python readers and oracle (self-tested by seeded corruptions)"]
    chk.assumptions = ["line numbers are in 1..200 in the generated sets and up to 2^20+1 (thorough 2^24+1) in the fixed size / boundary sets (array formats allocate one slot per line; the theorems hold for any line >= 1 below 2^32-1)",
                       "paths are distinct, contain no '.', '..' or empty components, and no path is a directory of another (C11/C12 territory)",
                       "function and file names are printable, without control characters or '|' in file names (escaping is C18)",
                       "branch vectors are non-empty (a line with an empty vector is not representable in lcov, coveralls or Cobertura)",
                       "HTML: every source file exists with at least as many lines as its highest instrumented line (the property's hypothesis)",
                       "engine stream: demangle = false, Coveralls service fields fixed; CLI stream: plain C function names plus one Itanium-mangled name (the demangler itself is not modelled), "
                       "values lcov can carry (parse_lcov is C04/C05), no absolute paths, git metadata empty (GIT_DIR points nowhere)"]


def replay(chk, path):
    r = json.load(open(path))
    if "case" in r:
        impl, decs, _ = G.run_cases(chk, [r["case"]], chk.pid, "replay")
        G.correspondence(chk, [r["case"]], decs, "replay")
    else:
        chk.proofs()
