"""C14 - malformed input is rejected with an error, never a crash, hang or memory blow-up.
Proof obligations (no-panic / fuel theorems of the reader models) + exhaustive prefix and substitution sweeps of
corpus files through the real readers, with time limits, and model/implementation agreement on the outcome class.
Parts: lcov (here); gcov text/JSON, JaCoCo and gcno/gcda are plugged in from their own modules when present."""
import importlib, json, os, time
import vlib, gen, lcovgen

SLOW_US = 2_000_000        # a single small input taking longer than this is reported


def corpus_lcov(rng):
    out = []
    for f in ("empty_line.info", "prova_fn_with_commas.info", "invalid_DA_record.info", "not_info_file.info"):
        p = os.path.join(vlib.REPO, "test", f)
        if os.path.exists(p):
            out.append((f, open(p, "rb").read()))
    for i in range(4):
        out.append(("generated_%d" % i, lcovgen.render_file(lcovgen.gen_file(rng))))
    return out


TOKENS = [b"", b"-", b"0", b"-1", b"18446744073709551615", b"18446744073709551616", b"4294967295", b"4294967296",
          b"99999999999999999999999999", b"\xff\xfe", b"e", b"end_of_record", b"SF", b"ABCDE", b"\r", b" "]


def token_subst(data):
    """every single-token substitution by boundary tokens (tokens are delimited by , : and line ends)"""
    import re
    spans = [(m.start(), m.end()) for m in re.finditer(rb"[^,:\r\n]+", data)]
    for a, b in spans:
        for t in TOKENS:
            yield data[:a] + t + data[b:]


def lcov_part(chk):
    rng = chk.rng
    corpus = corpus_lcov(rng)
    cases = []
    for name, data in corpus:
        step = 1 if chk.tier == "thorough" or len(data) < 1500 else 3
        for n in range(0, len(data) + 1, step):
            cases.append(("prefix", name, data[:n]))
        subs = list(token_subst(data))
        if chk.tier == "quick" and len(subs) > 1500:
            subs = rng.sample(subs, 1500)
        for s in subs:
            cases.append(("token", name, s))
    for i in range(400 if chk.tier == "quick" else 2500):
        name, data = rng.choice(corpus)
        b = bytearray(data)
        for _ in range(rng.randrange(1, 6)):
            if b:
                b[rng.randrange(len(b))] = rng.randrange(256)
        cases.append(("random", name, bytes(b)))
    # every single-byte substitution by a hostile byte at every position of the two smallest corpus files
    for name, data in sorted(corpus, key=lambda x: len(x[1]))[:2]:
        data = data[:300]
        for pos in range(len(data)):
            for b in (0x00, 0x0a, 0x0d, 0x2c, 0x3a, 0x2d, 0x80, 0xbf, 0xc3, 0xff):
                if data[pos] != b:
                    cases.append(("byte", name, data[:pos] + bytes([b]) + data[pos + 1:]))
    jcases = [{"hex": d.hex(), "branch": (i % 2 == 0)} for i, (_, _, d) in enumerate(cases)]
    impl = vlib.run_impl("lcov", jcases, chk.pid, parallel=8, case_timeout=6)
    classes = {}
    worst = 0
    known = {e["key"]: e for e in vlib.known_findings(chk.pid) if e.get("status") == "known"}
    known_hits = [0]
    for (kind, name, data), jc, r in zip(cases, jcases, impl):
        chk.count()
        a = lcovgen.results_from_impl(r)
        classes[a[0]] = classes.get(a[0], 0) + 1
        worst = max(worst, r.get("_us", 0))
        if a[0] == "huge" and "lcov-branch-number-alloc" in known:
            chk.known(known["lcov-branch-number-alloc"])
            continue
        if a[0] == "crash" and "lcov-branch-number-alloc" in known and \
           (lcovgen.huge_branch_number(data) or ("memory allocation of" in str(r) and "parser::add_branch" in str(r))):
            chk.known(known["lcov-branch-number-alloc"])
            known_hits[0] += 1
        elif a[0] in ("panic", "crash"):
            chk.violation({"kind": "oracle", "engine": "lcov", "reader": "parse_lcov", "mutation": kind, "corpus_file": name, "case": jc,
                           "impl": r, "clause": "reading must end in a result or an error value, never a panic/abort"}, tag="lcov")
        elif r.get("_us", 0) > SLOW_US:
            chk.violation({"kind": "oracle", "engine": "lcov", "reader": "parse_lcov", "mutation": kind, "corpus_file": name, "case": jc,
                           "micros": r["_us"], "clause": "reading a %d-byte input took more than %d us" % (len(data), SLOW_US)}, tag="lcov")
        else:
            chk.nontrivial(["lcov", jc["hex"][:64], len(data), jc["branch"]])
    # model / implementation agreement on the outcome class for a sample
    k = 500 if chk.tier == "quick" else 1500
    pool = [i for i in range(len(cases)) if not lcovgen.model_unfriendly(cases[i][2]) and "crash" not in impl[i] and "huge_branch_vector" not in impl[i]]
    idx = rng.sample(pool, min(k, len(pool)))
    exprs = [vlib.app("run_lcov", jcases[i]["branch"], list(cases[i][2])) for i in idx]
    model = vlib.run_model(chk.pid, "Run.Show", exprs)
    dis = 0
    for i, rm in zip(idx, model):
        a = lcovgen.results_from_impl(impl[i])
        if isinstance(rm, tuple) and rm and rm[0] == "@@ERROR":
            m = ("error", rm)
        else:
            m = lcovgen.results_from_coq(rm)
        if a[0] != m[0] and dis < 3:
            dis += 1
            chk.violation({"kind": "correspondence", "engine": "lcov", "case": jcases[i], "impl": a[0], "model": m[0],
                           "theorems_at_stake": "C14_lcov_never_panics (Model/Lcov.v no longer describes parse_lcov's outcome)"}, has_input=False, tag="lcov-corr")
    chk.sample({"reader": "parse_lcov", "mutation": cases[1][0], "input": cases[min(40, len(cases) - 1)][2].decode("latin-1")[:120]})
    return {"cases": len(cases), "outcomes": classes, "known_class_hits": known_hits[0], "slowest_us": worst, "model_compared": len(idx),
            "corpus": [(n, len(d)) for n, d in corpus]}


def run(chk):
    chk.proofs()
    t = time.time()
    parts = {"lcov": lcov_part(chk)}
    walls = {"lcov": round(time.time() - t, 1)}
    for mod, fn in (("c14gcov", "run_part"), ("c14jacoco", "run_part"), ("c14gcno", "run_gcno_part")):
        try:
            m = importlib.import_module(mod)
        except ImportError:
            continue
        t = time.time()
        parts[mod] = getattr(m, fn)(chk)
        walls[mod] = round(time.time() - t, 1)
    chk.extra["part_wall_s"] = walls
    chk.extra["parts"] = parts
    chk.cov["rule"] = ("per reader: every prefix (truncation point) of every corpus file (repo fixtures + generated valid files), every single-token substitution by boundary tokens "
                       "(text formats) / every single 32-bit word substitution by boundary values (gcno/gcda), every single-byte substitution by hostile bytes (NUL, separators, UTF-8 continuation and lead bytes, 0xFF) at every position of small text files, plus seeded multi-point corruptions; each through the real reader "
                       "under catch_unwind with per-case timing: outcome must be a result or an error within the time limit; a sample is also evaluated by the Gallina reader "
                       "model and must agree on the outcome class; non-trivial = distinct input that ended in Ok/Err; exhaustive over the listed corpus for prefixes")
    chk.cov["trusted_base"] = ["Coq kernel; vm_compute", "impl_run harness (catch_unwind, per-case timing)", "release-mode arithmetic semantics",
                               "modelled, not verified: memory use and stack depth are sampled by the sweep, not proved; unsafe reads in reader.rs"]
    chk.assumptions = ["parts present in this revision: " + ", ".join(sorted(parts))]


def replay(chk, path):
    r = json.load(open(path))
    if r.get("engine") == "lcov" and "case" in r:
        res = vlib.run_impl("lcov", [r["case"]], chk.pid)
        chk.count()
        a = lcovgen.results_from_impl(res[0])
        if a[0] in ("panic", "crash"):
            chk.violation({"kind": "oracle", "engine": "lcov", "case": r["case"], "impl": res[0], "clause": "panic"}, tag="replay")
    else:
        chk.proofs()
