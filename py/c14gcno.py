"""C14, gcno/gcda part - malformed input is rejected with an error, never a crash, hang or memory blow-up.
`run_gcno_part(chk)` is called by the C14 check; `run` makes the module usable on its own as property id C14."""
import json, os
import vlib
import gcnolib as G

KNOWN_KEY = "gcno-circuit-enumeration"


def small_sweep():
    cases = []
    for pair in G.SMALL:
        g, d = G.fixture(pair)
        lab = os.path.basename(pair[0])
        cases += G.sweep(g, d, "gcno", label=lab)
        cases += G.sweep(g, None, "gcno", prefixes=True, substitutions=False, label=lab + "/nogcda")
        cases += G.sweep(g, d, "gcda", label=lab)
    for pair in G.GCC:
        g, d = G.fixture(pair)
        lab = os.path.basename(pair[0])
        cases += G.sweep(g, d, "gcno", label=lab)
        cases += G.sweep(g, d, "gcda", label=lab)
    import cgen
    for pair in G.SMALL[:2]:             # big-endian twins of the two smallest LLVM fixtures (BigEndian reader paths)
        g, d = G.fixture(pair)
        g, d = cgen.to_big_endian_gcno(g), cgen.to_big_endian_gcda(d)
        lab = os.path.basename(pair[0]) + "-be"
        cases += G.sweep(g, d, "gcno", label=lab)
        cases += G.sweep(g, d, "gcda", label=lab)
    # functions that declare 0, 1 or 2 basic blocks (formats 4.2 / 4.7 / 4.8 / 8.0, with and without gcda)
    cases += G.degenerate_cases()
    # version words that differ from a real one only in the release-status character: must be an error
    for pair in G.SMALL + G.GCC:
        g, d = G.fixture(pair)
        lab = os.path.basename(pair[0])
        for ch in (ord("e"), ord("p"), ord("A"), 0):
            for target, c_ in (("gcno", G.case(g[:4] + bytes([ch]) + g[5:], [d])), ("gcda", G.case(g, [d[:4] + bytes([ch]) + d[5:]]))):
                c_["mut"] = [lab, target, "status", ch]
                cases.append(c_)
    return cases


def large_sweep(rng, nprefix, nword, nmulti):
    cases = []
    for pair in G.LARGE:
        g, d = G.fixture(pair)
        lab = os.path.basename(pair[0])
        if len(g) > 400000:
            nprefix_, nword_ = max(3, nprefix // 20), max(5, nword // 20)
        else:
            nprefix_, nword_ = nprefix, nword
        vals = G.subst_values(g[:40000])
        for target, buf in (("gcno", g), ("gcda", d)):
            for _ in range(nprefix_):
                n = rng.randrange(0, len(buf))
                c = G.case(g[:n], [d]) if target == "gcno" else G.case(g, [d[:n]])
                c["mut"] = [lab, target, "prefix", n]
                cases.append(c)
            for _ in range(nword_):
                i = rng.randrange(0, len(buf) // 4)
                v = rng.choice(vals)
                b = G.put_word(buf, i, v)
                c = G.case(b, [d]) if target == "gcno" else G.case(g, [b])
                c["mut"] = [lab, target, "word", i, v]
                cases.append(c)
    # seeded multi-point corruption of the small files
    small = [G.fixture(p) + (os.path.basename(p[0]),) for p in G.SMALL + G.GCC]
    for _ in range(nmulti):
        g, d, lab = rng.choice(small)
        target = rng.choice(["gcno", "gcda"])
        buf = g if target == "gcno" else d
        vals = G.subst_values(g)
        pts = []
        for _ in range(rng.randrange(2, 6)):
            i = rng.randrange(0, len(buf) // 4)
            v = rng.choice(vals) if rng.random() < 0.8 else rng.randrange(0, 2**32)
            buf = G.put_word(buf, i, v)
            pts.append([i, v])
        if rng.random() < 0.2:
            buf = buf[:rng.randrange(0, len(buf))]
        c = G.case(buf, [d]) if target == "gcno" else G.case(g, [buf])
        c["mut"] = [lab, target, "multi", pts, len(buf)]
        cases.append(c)
    return cases


def le_counts(part, full):
    """every count of `part` is present in `full` and not larger; executed functions of part are executed in full"""
    f = {n: c for n, c in full}
    for n, c in part:
        if n not in f:
            return "file %s not in the complete result" % n
        fl = dict(f[n]["lines"])
        for l, x in c["lines"]:
            if l not in fl or x > fl[l]:
                return "line %d of %s has count %d, the complete gcda gives %s" % (l, n, x, fl.get(l))
        fe = {a: e for a, _, e in f[n]["funcs"]}
        for a, _, e in c["funcs"]:
            if e and not fe.get(a, False):
                return "function %s executed only with the truncated gcda" % a
    return None


def confirm_known(chk):
    """F20: re-confirm the witness of the known finding (slow circuit enumeration, deep recursion)"""
    entries = [e for e in vlib.known_findings("C14") if e.get("key") == KNOWN_KEY]
    f2, nreal = G.dense_cycle_function(11)
    f1, nreal1 = G.dense_cycle_function(9)
    cs = [G.case(G.synth_gcno([f1]), [G.synth_gcda([f1], {1: [1] * nreal1})], False),
          G.case(G.synth_gcno([f2]), [G.synth_gcda([f2], {1: [1] * nreal})], False)]
    r = G.run_guarded(cs, chk.pid, batch=1)
    t9, t11 = r[0].get("ms", 0), r[1].get("ms", 0)
    chk.extra["gcno_circuit_enumeration"] = {"blocks_on_one_line": [9, 11], "input_bytes": [len(cs[0]["gcno"]) // 2, len(cs[1]["gcno"]) // 2], "ms": [t9, t11]}
    confirmed = "ok" in r[1] and t11 >= 20 * max(1, t9) and t11 >= 300
    if confirmed and entries:
        chk.known(entries[0])
    elif confirmed and not entries:
        chk.violation({"kind": "oracle", "engine": "gcno", "case": cs[1], "impl": r[1], "ms": [t9, t11],
                       "clause": "time bounded by a modest multiple of the input size (circuit enumeration is exponential; not listed in known_findings.json)"}, tag="slow")
    return confirmed


def run_gcno_part(chk):
    quick = chk.tier == "quick"
    confirm_known(chk)
    cases = small_sweep()
    if not quick:
        cases += large_sweep(chk.rng, 150, 300, 20000)
    else:
        cases += large_sweep(chk.rng, 6, 12, 1500)
    impl = G.run_guarded(cases, chk.pid)
    # gcda words that are the identifier of a FUNCTION record, and the identifiers each gcno announces: substituting an
    # identifier the gcno does not have must be an error (never counts attributed to another function)
    ident_pos, known_ids, arcs_len = {}, {}, {}
    import cgen
    for pair in G.SMALL + G.GCC:
        g, d = G.fixture(pair)
        lab = os.path.basename(pair[0])
        for lab_, g_, d_ in ((lab, g, d),) + (((lab + "-be", cgen.to_big_endian_gcno(g), cgen.to_big_endian_gcda(d)),) if pair in G.SMALL[:2] else ()):
            try:
                ident_pos[lab_] = {i for i, _v in G.function_idents(d_)}
                arcs_len[lab_] = dict(G.counter_records(d_))
                known_ids[lab_] = G.gcno_idents_scan(g_)
            except Exception:
                pass
    dist = {"cases": len(cases), "ok": 0, "err": 0, "prefix": 0, "word": 0, "multi": 0, "status": 0, "degen": 0, "max_ms": 0, "gcda_prefix_ok": 0, "model_cases": 0, "model_outoffuel": 0}
    full = {}
    forced = []
    for ci, (c, r) in enumerate(zip(cases, impl)):
        chk.count()
        k = G.klass(r)
        dist[c["mut"][2]] += 1
        if k in ("ok", "err"):
            dist[k] += 1
            dist["max_ms"] = max(dist["max_ms"], r.get("ms", 0))
            if r.get("ms", 0) > 1000 * G.CASE_SECONDS:
                chk.violation({"kind": "oracle", "engine": "gcno", "case": c, "ms": r["ms"], "clause": "reading ends within a time bounded by a modest multiple of the input size (5 s limit)"}, tag="slow")
        else:
            chk.violation({"kind": "oracle", "engine": "gcno", "case": c, "impl": r,
                           "clause": "reading a gcno/gcda byte string ends in a result or an error value (no panic, abort, stack overflow, address-space exhaustion at 1 GiB, or hang)"}, tag="crash")
            continue
        m = c["mut"]
        if m[2] == "status" and k == "ok":
            chk.violation({"kind": "oracle", "engine": "gcno", "case": c, "impl": r,
                           "clause": "a version word whose release-status character is not '*' is not a version grcov reads: error, never a result"}, tag="status")
        if m[2] in ("status", "degen"):
            forced.append(ci)
        # the length word of a counter record replaced by a value that announces another number of counters than the
        # function has measured arcs: an error (never counters taken from the bytes of the following records)
        if m[1] == "gcda" and m[2] == "word" and m[0] in arcs_len and m[3] in arcs_len[m[0]] and m[4] // 2 != arcs_len[m[0]][m[3]] // 2:
            dist["arcs_length"] = dist.get("arcs_length", 0) + 1
            forced.append(ci)
            if k == "ok":
                chk.violation({"kind": "oracle", "engine": "gcno", "case": c, "impl": r,
                               "clause": "a counter record whose length does not match the number of measured arcs of its function is an error, never a result with counts that are not in the file"}, tag="arcslen")
        if m[1] == "gcda" and m[2] == "word" and m[0] in ident_pos and m[3] in ident_pos[m[0]] and m[4] not in known_ids[m[0]]:
            dist["foreign_ident"] = dist.get("foreign_ident", 0) + 1
            forced.append(ci)
            if k == "ok":
                chk.violation({"kind": "oracle", "engine": "gcno", "case": c, "impl": r,
                               "clause": "a gcda record for a function the gcno does not describe is an error, never a result (counts must not be attributed to another function)"}, tag="ident")
        # a truncated gcda gives an error or counts that were in the file
        if c["mut"][1] == "gcda" and c["mut"][2] == "prefix" and k == "ok":
            key = c["gcno"][:64] + str(len(c["gcno"]))
            if key not in full:
                lab = c["mut"][0]
                be = lab.endswith("-be")
                pair = [p for p in G.SMALL + G.GCC + G.LARGE if os.path.basename(p[0]) == (lab[:-3] if be else lab)][0]
                g, d = G.fixture(pair)
                if be:
                    import cgen
                    g, d = cgen.to_big_endian_gcno(g), cgen.to_big_endian_gcda(d)
                full[key] = G.run_guarded([G.case(g, [d])], chk.pid)[0]
            if "ok" in full[key]:
                why = le_counts(G.canon_impl(r), G.canon_impl(full[key]))
                if why:
                    chk.violation({"kind": "oracle", "engine": "gcno", "case": c, "why": why, "clause": "a truncated gcda yields an error or the counts of the complete records, never counts that were not in the file"}, tag="prefix")
                dist["gcda_prefix_ok"] += 1
        if k == "err":
            chk.nontrivial(["err", c["mut"][0], c["mut"][1], r.get("err", "")[:40].split(" in ")[0].rstrip("0123456789 ")])
    # outcome class of the model on a sample of the stream (small inputs only)
    small = [i for i, c in enumerate(cases) if len(c["gcno"]) <= 4000 and all(len(g) <= 2000 for g in c["gcdas"])]
    sel = chk.rng.sample(small, min(len(small), 700 if quick else 2500))
    sel = sorted(set(sel) | set(forced[:300]) | set(chk.rng.sample(forced, min(len(forced), 300))))          # the foreign-identifier cases are always compared with the model
    model = G.run_model(chk.pid, [cases[i] for i in sel], fn="class_gcno", shard_size=120)
    dis = []
    for i, rm in zip(sel, model):
        chk.count()
        dist["model_cases"] += 1
        if isinstance(rm, tuple) and rm and rm[0] == "@@ERROR":
            dis.append({"case": cases[i], "model": rm})
            continue
        mk = G.MODEL_CLASS[rm]
        if mk == "outoffuel":
            dist["model_outoffuel"] += 1
            continue
        if mk != G.klass(impl[i]):
            dis.append({"case": cases[i], "impl": impl[i], "model": mk})
    for d in dis[:3]:
        d.update({"kind": "correspondence", "engine": "gcno", "theorems_at_stake": "C14_gcno_never_panics (Model/GcnoRead.v, GcnoCount.v no longer describe Gcno::compute)"})
        chk.violation(d, has_input=False, tag="gcno-corr")
    chk.extra["gcno_sweep"] = dist
    return dist


RULE = ("gcno/gcda malformed stream: for the three LLVM fixtures, big-endian twins of two of them, and the five GCC fixtures (v6-v10) every prefix and every single 32-bit word replaced by each of "
        "{0,1,2,3,block counts of the file,2^31-1,2^31,2^32-1, the 7 record tags}, for gcno (with and without gcda) and gcda; sampled prefixes/word substitutions of the 9 large "
        "fixtures (up to 2.6 MB); seeded multi-point corruption (2-5 words, optional truncation); each case runs Gcno::compute in a child limited to 1 GiB of address space, "
        "a crashed or timed-out batch is bisected to the single case; outcome must be Ok/Err within 5 s; truncated gcda must not add counts; the model's outcome class is compared on a sample; "
        "non-trivial = distinct (fixture, target, error message kind)")


def run(chk):
    # standalone: `bin/check C14gcno` (proof obligations of Props/C14gcno.v); the C14 check calls run_gcno_part
    chk.proofs()
    run_gcno_part(chk)
    chk.cov["rule"] = RULE
    chk.cov["trusted_base"] = ["Coq kernel; vm_compute", "impl_run harness, RLIMIT_AS/timeouts of the driver", "unsafe reads of reader.rs (transmute of the buffer pointer, from_utf8_unchecked) are outside the model"]
    chk.assumptions = ["real memory use, stack depth and wall-clock are runtime facts sampled by the sweep, not theorems", "fuel exhaustion of the counting half of the model is not excluded by a theorem (circuit enumeration: known finding)"]


def replay(chk, path):
    r = json.load(open(path))
    if "case" in r:
        print(json.dumps(G.run_guarded([r["case"]], chk.pid, batch=1)[0])[:2000])
