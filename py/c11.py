"""C11 - file selection and path rewriting.  Proofs + std::path correspondence (engine pathfacts) +
rewrite_paths correspondence (engine rewrite, real globset verdicts fed to the model) + the property's own reading."""
import collections, json
import vlib, gen, pathgen

R = pathgen.R


def ms(run):
    """multiset of canonical records"""
    return collections.Counter(vlib.canon(x) for x in pathgen.canon_run(run))


def is_covered(c):
    """the property's reading of 'covered': some line executed and (at most one function, or some function other
    than the JS 'top-level' executed)"""
    if not any(n != 0 for _, n in c["lines"]):
        return False
    return len(c["funcs"]) <= 1 or any(e and bytes.fromhex(n) != b"top-level" for n, _, e in c["funcs"])


def key_of(cov):
    ks = [l - 1000 for l, _ in cov["lines"] if 1000 <= l < 2000]
    return ks[0] if len(ks) == 1 else None


def in_class_backslash(case):
    return case["mapping"] is not None and any(b"\\" in bytes.fromhex(v) for _, v in case["mapping"])


# ---------------------------------------------------------------------------------------------
def facts_stream(chk, n):
    pairs = pathgen.facts_pairs(chk.rng, n)
    cases = [{"a": pathgen.hx(a), "b": pathgen.hx(b)} for a, b in pairs]
    impl = vlib.run_impl("pathfacts", cases, chk.pid)
    exprs = [vlib.app("run_facts", list(a.encode()), list(b.encode())) for a, b in pairs]
    model = vlib.run_model(chk.pid, "Run.ShowRewrite", exprs)
    dis = []
    dist = collections.Counter()
    renorm = []
    for (a, b), ri, rm in zip(pairs, impl, model):
        chk.count()
        if "comps" not in ri:
            chk.violation({"kind": "oracle", "engine": "pathfacts", "case": {"a": a, "b": b}, "impl": ri, "clause": "std::path facts must be computable"}, tag="facts")
            continue
        # the property's own reading (Appendix D) of components and of normalize_path
        absolute, segs = pathgen.comps_py(a)
        exp = (absolute, [(0, []) if s == "c" else (1, []) if s == "u" else (2, list(s[1])) for s in segs])
        iv = pathgen.facts_impl_view(ri)
        if iv[0] != exp:
            chk.violation({"kind": "oracle", "engine": "pathfacts", "case": {"a": a, "b": b}, "impl": iv[0], "expected": exp,
                           "clause": "components: '//' collapses, interior '.' vanishes, a leading '.' is kept, '..' is kept"}, tag="facts")
            continue
        depth, escaped = 0, False
        for s in segs:
            if s == "u":
                depth -= 1
                if depth < 0:
                    escaped = True
                    break
            elif s != "c":
                depth += 1
        norm = ri["normalize"]
        if (norm is None) != escaped:
            chk.violation({"kind": "oracle", "engine": "pathfacts", "case": {"a": a, "b": b}, "impl": norm,
                           "clause": "normalize_path gives up iff some prefix has more '..' than names"}, tag="facts")
            continue
        if norm is not None:
            raw = bytes.fromhex(norm["raw"])
            parts = raw.split(b"/")
            body = parts[1:] if raw.startswith(b"/") else parts
            if raw not in (b"", b"/") and any(p in (b"", b".", b"..") for p in body):
                chk.violation({"kind": "oracle", "engine": "pathfacts", "case": {"a": a, "b": b}, "impl": raw.decode(errors="replace"),
                               "clause": "normal form has no '.', '..' or empty component"}, tag="facts")
                continue
            renorm.append(raw)
        if isinstance(rm, tuple) and rm and rm[0] == "@@ERROR":
            dis.append({"case": {"a": a, "b": b}, "model": rm})
            continue
        mv, wf = pathgen.facts_model_view(rm)
        if iv != mv or not wf:
            dis.append({"case": {"a": a, "b": b}, "impl": iv, "model": mv, "wf": wf})
            continue
        dist["starts_with_true"] += ri["starts_with"]
        dist["ends_with_true"] += ri["ends_with"]
        dist["normalize_none"] += norm is None
        dist["absolute"] += absolute
        dist["leading_cur"] += bool(segs) and segs[0] == "c"
        chk.nontrivial(("facts", a, b))
    # idempotence on the implementation: normalising a normal form returns it
    rc = [{"a": r.hex(), "b": ""} for r in sorted(set(renorm))]
    for c, ri in zip(rc, vlib.run_impl("pathfacts", rc, chk.pid)):
        chk.count()
        if not ri.get("normalize") or ri["normalize"]["raw"] != c["a"]:
            chk.violation({"kind": "oracle", "engine": "pathfacts", "case": c, "impl": ri.get("normalize"), "clause": "normalize_path is idempotent"}, tag="facts")
    for d in dis[:3]:
        d.update({"kind": "correspondence", "engine": "pathfacts", "theorems_at_stake": "C11_* (Model/Paths.v no longer describes std::path / normalize_path)"})
        chk.violation(d, has_input=False, tag="facts-corr")
    return dict(dist)


# ---------------------------------------------------------------------------------------------
def expectations(case, root):
    """what the property says about keys whose spelling was built for it: index -> ('rel', bytes) | ('dropped',)"""
    out = {}
    sd = case["meta"]["sd_rel"]
    mapped = set()
    if case["mapping"]:
        for k, _ in case["mapping"]:
            kb = pathgen.sub(k, root)
            mapped |= {kb, kb[:1].lower() + kb[1:], kb[:1].upper() + kb[1:]}
    if case["source_dir"] is not None and not pathgen.sub(case["source_dir"], root).startswith(b"/"):
        return out
    for i, (k, u, note, intends) in enumerate(case["meta"]["keys"]):
        kb = k.replace("\\", "/").encode().replace(R.encode(), root)
        if kb in mapped or u.startswith("src/") or u not in pathgen.UNDER:
            continue
        if intends == "same" and sd and note != "mapped":
            out[i] = ("rel", u.encode())
        elif note in ("escape", "escape_abs"):
            out[i] = ("dropped",)
    return out


def rewrite_stream(chk, cases, label):
    impl = vlib.run_impl("rewrite", cases, chk.pid, parallel=4)
    exprs, idx = [], []
    for ci, (c, ri) in enumerate(zip(cases, impl)):
        if "runs" in ri:
            exprs.append(pathgen.model_case_expr(c, bytes.fromhex(ri["root"]), ri["globs"]))
            idx.append(ci)
    model = dict(zip(idx, vlib.run_model(chk.pid, "Run.ShowRewrite", exprs, shard_size=40)))
    dis = []
    dist = collections.Counter()
    known = {e["key"]: e for e in vlib.known_findings(chk.pid)}
    for ci, (c, ri) in enumerate(zip(cases, impl)):
        if "runs" not in ri:
            chk.count()
            chk.violation({"kind": "oracle", "engine": "rewrite", "case": c, "impl": ri, "clause": "the harness must be able to run the case"}, tag=label)
            continue
        root = bytes.fromhex(ri["root"])
        runs = ri["runs"]
        rm = model.get(ci)
        model_err = isinstance(rm, tuple) and rm and rm[0] == "@@ERROR"
        if model_err:
            dis.append({"case": c, "model": rm})
        base = runs[0]
        exists = {a: e for a, e in ri["exists"]}
        nkeys = len(c["keys"])
        ok_case = True
        for vi, v in enumerate(c["variants"]):
            chk.count()
            run = runs[vi]
            # ---- correspondence
            if not model_err:
                tag, mrs, missing = pathgen.model_run(rm[vi], root)
                if isinstance(run, dict):
                    if tag != 2:
                        dis.append({"case": c, "variant": vi, "impl": run, "model_tag": tag})
                elif missing and in_class_backslash(c):
                    # globset is asked about the path before its backslashes become '/', the harness can only record verdicts for
                    # reported paths: without globs nothing depends on the verdict; with globs the variant is not compared
                    if v["ignore"] or v["keep"]:
                        dist["uncompared_backslash_glob_variants"] += 1
                    elif tag != 0 or vlib.canon(pathgen.canon_run(run)) != vlib.canon(mrs):
                        dis.append({"case": c, "variant": vi, "root": root.decode(), "impl": pathgen.canon_run(run), "model": mrs, "model_tag": tag})
                elif tag != 0 or missing or vlib.canon(pathgen.canon_run(run)) != vlib.canon(mrs):
                    dis.append({"case": c, "variant": vi, "root": root.decode(), "impl": pathgen.canon_run(run), "model": mrs, "model_tag": tag,
                                "missing_verdicts": [m.decode(errors="replace") for m in missing]})
            # ---- panics: only the two documented ones (relative source_dir, empty key with a mapping)
            if isinstance(run, dict):
                sdb = None if c["source_dir"] is None else pathgen.sub(c["source_dir"], root)
                legit = (sdb is not None and not sdb.startswith(b"/")) or (c["mapping"] is not None and any(k == "" for k, _ in c["keys"]))
                dist["panic_runs"] += 1
                if not legit:
                    chk.violation({"kind": "oracle", "engine": "rewrite", "case": c, "variant": v, "impl": run,
                                   "clause": "rewrite_paths must not panic on a non-empty key set with an absolute source directory"}, tag=label)
                    ok_case = False
                continue
            if isinstance(base, dict):
                continue
            verd = {r: (i, k) for r, i, k in ri["globs"][vi]}
            # ---- presence iff the filters say so (on the unfiltered run's records)
            want = []
            for a, r, cv in base:
                gi, gk = verd[r]
                keep = (not gi) and (not v["keep"] or gk) and (not v["ine"] or exists[a]) and \
                       (v["filter"] is None or is_covered(cv) == v["filter"])
                if keep:
                    want.append([a, r, cv])
            if ms(want) != ms(run):
                chk.violation({"kind": "oracle", "engine": "rewrite", "case": c, "variant": v, "impl": pathgen.canon_run(run), "expected": pathgen.canon_run(want),
                               "clause": "a file is reported iff not ignored, kept when --keep-only is given, existing when --ignore-not-existing, and of the requested --filter status"}, tag=label)
                ok_case = False
            for a, r, cv in run:
                rb = bytes.fromhex(r)
                ab = bytes.fromhex(a)
                # ---- data unchanged: the record is the one stored under its key
                ki = key_of(cv)
                if ki is None or ki >= nkeys or vlib.canon(gen.cov_canon(cv)) != vlib.canon(gen.cov_canon(c["keys"][ki][1])):
                    chk.violation({"kind": "oracle", "engine": "rewrite", "case": c, "variant": v, "record": [a, r, cv],
                                   "clause": "coverage data of a retained file is passed through unchanged"}, tag=label)
                    ok_case = False
                # ---- normal form of the reported path
                parts = rb.split(b"/")
                body = parts[1:] if rb.startswith(b"/") else parts
                bad = b"\\" in rb or (rb not in (b"", b"/") and any(p in (b"", b".", b"..") for p in body))
                if bad:
                    if in_class_backslash(c) and "backslash-in-mapped-path" in known:
                        dist["known_backslash_mapping"] += 1
                    else:
                        chk.violation({"kind": "oracle", "engine": "rewrite", "case": c, "variant": v, "record": [a, r],
                                       "clause": "reported paths use '/' and contain no '.', '..' or empty component"}, tag=label)
                        ok_case = False
                # ---- relative to the source directory whenever the file lies under it
                if c["source_dir"] is not None:
                    sdb = pathgen.sub(c["source_dir"], root).rstrip(b"/")
                    if ab.startswith(sdb + b"/"):
                        if rb.startswith(b"/") or ab != sdb + b"/" + rb:
                            kraw = pathgen.sub(c["keys"][ki][0], root) if ki is not None and ki < nkeys else b""
                            if b".." in kraw and rb.startswith(b"/") and "unresolved-dotdot-abs" in known:
                                dist["known_unresolved_dotdot"] += 1
                            elif in_class_backslash(c) and b"\\" in ab and "backslash-in-mapped-path" in known:
                                dist["known_backslash_mapping"] += 1
                            else:
                                chk.violation({"kind": "oracle", "engine": "rewrite", "case": c, "variant": v, "record": [a, r],
                                               "clause": "a file under the source directory is reported relative to it"}, tag=label)
                                ok_case = False
        if isinstance(base, dict):
            continue
        # ---- partitions
        for (x, y, what) in ((1, 2, "--ignore G and --keep-only G partition the unfiltered report"),
                             (3, 4, "--filter covered and --filter uncovered partition the unfiltered report")):
            if len(runs) > y and all(not isinstance(runs[i], dict) for i in (x, y)):
                chk.count()
                if ms(runs[x]) + ms(runs[y]) != ms(base):
                    chk.violation({"kind": "oracle", "engine": "rewrite", "case": c, "variants": [c["variants"][x], c["variants"][y]],
                                   "a": pathgen.canon_run(runs[x]), "b": pathgen.canon_run(runs[y]), "all": pathgen.canon_run(base), "clause": what}, tag=label)
                    ok_case = False
                dist["partition_nontrivial"] += bool(runs[x]) and bool(runs[y])
        # ---- spellings built for the property: expected path / dropped
        by_key = collections.defaultdict(list)
        for a, r, cv in base:
            by_key[key_of(cv)].append((bytes.fromhex(a), bytes.fromhex(r)))
        for i, e in expectations(c, root).items():
            chk.count()
            got = by_key.get(i, [])
            if e[0] == "dropped":
                dist["escape_keys"] += 1
                if got:
                    chk.violation({"kind": "oracle", "engine": "rewrite", "case": c, "key": c["meta"]["keys"][i], "impl": [(a.decode(), r.decode()) for a, r in got],
                                   "clause": "a path that would escape through '..' is dropped rather than reported"}, tag=label)
                    ok_case = False
            else:
                dist["spelled_keys"] += 1
                sdb = pathgen.sub(c["source_dir"], root).rstrip(b"/")
                if len(got) != 1 or got[0][1] != e[1] or got[0][0] != sdb + b"/" + e[1]:
                    chk.violation({"kind": "oracle", "engine": "rewrite", "case": c, "key": c["meta"]["keys"][i], "impl": [(a.decode(), r.decode()) for a, r in got],
                                   "expected": e[1].decode(), "clause": "prefix removed, separators normalised, path relative to the source directory"}, tag=label)
                    ok_case = False
        dist["cases_with_symlinks"] += bool(c["symlinks"])
        dist["cases_with_mapping"] += c["mapping"] is not None
        dist["cases_with_source_dir"] += c["source_dir"] is not None
        dist["cases_with_prefix_dir"] += c["prefix_dir"] is not None
        dist["records_unfiltered"] += len(base)
        dist["keys"] += nkeys
        dist["dropped_keys"] += nkeys - len(base)
        if ok_case and base:
            chk.nontrivial(("rw", c["id"], [k for k, _ in c["keys"]], c["source_dir"], c["prefix_dir"], c["mapping"], c["files"], c["symlinks"]))
        chk.sample({"keys": [m[0] for m in c["meta"]["keys"]], "source_dir": c["meta"]["sd_rel"],
                    "reported": sorted({bytes.fromhex(r).replace(root, b"{R}").decode(errors="replace") for _, r, _ in base})}, limit=3)
    for d in dis[:3]:
        d.update({"kind": "correspondence", "engine": "rewrite", "theorems_at_stake": "C11_*, C12_* (Model/Rewrite.v no longer describes rewrite_paths)"})
        chk.violation(d, has_input=False, tag=label + "-corr")
    return dict(dist)


# ---------------------------------------------------------------------------------------------
# CLI stream: the options as a user gives them; reports are made after merge_same_paths, so the selection
# clauses are read on merged records (one per path; --filter decided on the merged record)
# ---------------------------------------------------------------------------------------------
CLI_GLOBS = [["foo/*"], ["*.h"], ["**/sub/**"], ["main.c"], ["foo/**", "lib/*"], ["*"], ["**/*.c"], ["gone/*"], ["nomatch/*"]]


def cli_stream(chk, n):
    import os, shutil
    import c12
    exe = vlib.build_cli()
    sc = os.path.realpath(vlib.scratch("cli_" + chk.pid))
    rng = chk.rng
    dist = collections.Counter()
    for ci in range(n):
        root = os.path.join(sc, "c%d" % ci)
        for u in c12.ONDISK:
            if rng.random() < 0.7:
                p = os.path.join(root, "src", u)
                os.makedirs(os.path.dirname(p), exist_ok=True)
                open(p, "w").write("x\n")
        os.makedirs(os.path.join(root, "src"), exist_ok=True)
        run_dir = os.path.join(root, "run")
        os.makedirs(run_dir, exist_ok=True)
        sd = os.path.join(root, "src") if rng.random() < 0.7 else None
        pd = c12.PREFIX if rng.random() < 0.4 else None
        fam = []
        for u in rng.sample(c12.UNDER, rng.randrange(2, 5)):
            fam += c12.cli_spellings(rng, u, root, sd, pd)
        recs = []
        for i, (k, _) in enumerate(fam):
            lines = sorted(set(rng.sample([1, 2, 3, 4, 5, 6], rng.randrange(0, 4))))
            recs.append((k, {"lines": [[l, rng.choice([0, 0, 1, 3])] for l in lines] + [[1000 + i, rng.choice([0, 0, 1])]], "branches": [], "funcs": []}))
        info = os.path.join(run_dir, "in.info")
        open(info, "w").write(c12.render_lcov(recs))
        base_args = [exe, info] + (["-s", sd] if sd else []) + (["-p", pd] if pd else [])
        g = rng.choice(CLI_GLOBS)
        gi = [x for gl in g for x in ("--ignore", gl)]
        gk = [x for gl in g for x in ("--keep-only", gl)]
        variants = {"none": [], "ignore": gi, "keep": gk, "covered": ["--filter", "covered"], "uncovered": ["--filter", "uncovered"], "ine": ["--ignore-not-existing"]}
        rep = {}
        for name, extra in variants.items():
            p = vlib.sh(base_args + extra + ["-t", "lcov"], cwd=run_dir, timeout=120)
            chk.count()
            if p.returncode != 0:
                chk.violation({"kind": "oracle", "engine": "cli", "args": (base_args + extra)[1:], "input": c12.render_lcov(recs), "stderr": p.stderr[-600:],
                               "clause": "grcov must produce a report"}, tag="cli")
                rep = None
                break
            rep[name] = collections.Counter((path, json.dumps(sorted(das))) for path, das in c12.parse_lcov(p.stdout))
        if rep is None:
            continue
        replay = {"kind": "oracle", "engine": "cli", "args": base_args[1:], "glob": g, "input": c12.render_lcov(recs),
                  "reports": {k: sorted(v.elements()) for k, v in rep.items()}}
        base = rep["none"]
        if rep["ignore"] + rep["keep"] != base:
            chk.violation(dict(replay, clause="--ignore G and --keep-only G partition the unfiltered report (paths and data)"), tag="cli")
        if rep["covered"] + rep["uncovered"] != base:
            chk.violation(dict(replay, clause="--filter covered and --filter uncovered partition the unfiltered report (paths and data)"), tag="cli")
        for (path, das), _ in rep["covered"].items():
            if not any(c > 0 for _, c in json.loads(das)):
                chk.violation(dict(replay, path=path, clause="--filter covered reports files with an executed line only"), tag="cli")
        for (path, das), _ in rep["uncovered"].items():
            if any(c > 0 for _, c in json.loads(das)):
                chk.violation(dict(replay, path=path, clause="--filter uncovered reports files without executed line only"), tag="cli")
        want = collections.Counter({k: v for k, v in base.items() if os.path.exists(os.path.join(sd or run_dir, k[0]))})
        if rep["ine"] != want:
            chk.violation(dict(replay, expected=sorted(want.elements()), clause="--ignore-not-existing reports exactly the files that exist on disk"), tag="cli")
        for (path, _), _ in base.items():
            parts = path.split("/")
            body = parts[1:] if path.startswith("/") else parts
            if "\\" in path or any(x in ("", ".", "..") for x in body) or (sd and path.startswith(sd + "/")):
                chk.violation(dict(replay, path=path, clause="reported paths use '/', have no '.', '..' or empty component, and are relative to the source directory"), tag="cli")
        dist["cases"] += 1
        dist["ignore_keep_both_nonempty"] += bool(rep["ignore"]) and bool(rep["keep"])
        dist["covered_uncovered_both_nonempty"] += bool(rep["covered"]) and bool(rep["uncovered"])
        dist["ine_drops_something"] += rep["ine"] != base
        dist["files_reported"] += sum(base.values())
        if len(base) > 1:
            chk.nontrivial(("cli", [k for k, _ in recs], bool(sd), bool(pd), g))
        shutil.rmtree(root, ignore_errors=True)
    return dict(dist)


def witness_case(keys, sd=None, pd=None, mapping=None, files=(), dirs=("src",)):
    hx = pathgen.hx
    return {"id": -1, "dirs": [hx(d) for d in dirs], "files": [hx(f) for f in files], "symlinks": [], "cwd": hx(""),
            "keys": [[hx(k), {"lines": [[1000 + i, 1]], "branches": [], "funcs": []}] for i, k in enumerate(keys)],
            "source_dir": None if sd is None else hx(sd), "prefix_dir": None if pd is None else hx(pd),
            "mapping": None if mapping is None else [[hx(a), hx(b)] for a, b in mapping],
            "variants": [{"ine": False, "ignore": [], "keep": [], "filter": None}],
            "meta": {"keys": [[k, k, "witness", "other"] for k in keys], "sd_rel": None}}


def confirm_known(chk):
    """re-confirm the witnesses of the known findings on the implementation"""
    known = {e["key"]: e for e in vlib.known_findings(chk.pid)}
    cs = [witness_case(["x.c"], mapping=[("x.c", "a\\..\\b.c")]),
          witness_case([R + "/missing/../src/a.c"], sd=R + "/src", files=["src/a.c"])]
    res = vlib.run_impl("rewrite", cs, chk.pid)
    chk.count(2)
    r0 = res[0].get("runs", [[]])[0]
    if "backslash-in-mapped-path" in known and r0 and not isinstance(r0, dict) and bytes.fromhex(r0[0][1]) == b"a/../b.c":
        chk.known(known["backslash-in-mapped-path"])
    r1 = res[1].get("runs", [[]])[0]
    if "unresolved-dotdot-abs" in known and r1 and not isinstance(r1, dict) and bytes.fromhex(r1[0][1]).startswith(b"/"):
        chk.known(known["unresolved-dotdot-abs"])
    # the witnesses also go through the correspondence (the model reproduces both)
    return cs


def run(chk):
    chk.proofs()
    quick = chk.tier == "quick"
    d1 = facts_stream(chk, 1500 if quick else 12000)
    wit = confirm_known(chk)
    cases = [pathgen.make_case(chk.rng, i) for i in range(220 if quick else 2000)]
    # a few cases of the backslash-in-mapping class, so that the class is exercised on both sides
    for i in range(3 if quick else 20):
        c = pathgen.make_case(chk.rng, 100000 + i)
        c["mapping"] = (c["mapping"] or []) + [[pathgen.hx("bs_key.c"), pathgen.hx("d\\..\\e.c")]]
        c["keys"].append([pathgen.hx("bs_key.c"), {"lines": [[1000 + len(c["keys"]), 1]], "branches": [], "funcs": []}])
        c["meta"]["keys"].append(["bs_key.c", "bs_key.c", "bslash_mapped", "other"])
        cases.append(c)
    d2 = rewrite_stream(chk, wit + cases, "rw")
    d3 = cli_stream(chk, 40 if quick else 400)
    chk.extra["distribution"] = {"pathfacts": d1, "rewrite": d2, "cli": d3}
    chk.cov["rule"] = ("(1) std::path facts: generated pairs of path strings (tokens '/', '//', '.', '..', names, UTF-8, backslash; second operand a "
                       "re-spelt prefix/suffix of the first half of the time): components, join, starts_with, ends_with, strip_prefix, parent, ancestors, "
                       "normalize_path, has_no_parent through std::path/grcov vs Model/Paths.v vs the driver's reading of Appendix D (components, escape "
                       "criterion, normal form, idempotence). (2) rewrite_paths: generated trees (files present or not, symlinks, cwd), 1-4 underlying files in "
                       "up to 4 spellings each (18 spelling kinds), source dir / prefix dir / mapping on or off, 7 option variants per case (none, ignore G, keep G, "
                       "covered, uncovered, ignore-not-existing, random mix): implementation vs model (fed with the real globset verdicts) vs the property's "
                       "reading (presence iff filters, both partitions, data unchanged, normal form, source-relative, expected path by construction, escapes dropped). "
                       "(3) CLI: tracefiles with several spellings of 2-4 files, -s / -p on or off, and the reports of no filter, --ignore G, --keep-only G, --filter covered, "
                       "--filter uncovered, --ignore-not-existing compared as multisets of (path, merged data): both partitions, covered/uncovered reading on the "
                       "merged record (merge_same_paths runs before the filter), existence on disk, normal form. "
                       "non-trivial = a rewrite case with at least one reported record that passed every oracle, or a facts pair on which model and std agree; distinct by content")
    chk.cov["trusted_base"] = ["Coq kernel; vm_compute for the correspondence",
                               "globset crate (its verdict on every candidate path enters the model as data; the theorems quantify over all verdict functions)",
                               "OS path resolution / fs::canonicalize (the model walks an explicit tree value; agreement is checked on generated trees incl. symlinks)",
                               "impl_run harness (materialises the tree, chdir, calls rewrite_paths), Python oracles",
                               "not modelled: Java/Kotlin partial-path lookup (no generated key ends in .java/.kt), Windows branches, Unicode case mapping of a non-ASCII first character in apply_mapping, exclusion markers (C16)"]
    chk.assumptions = ["keys, prefix dir and mapped values do not end in '/' or '/.' while naming a regular file (PathBuf keeps raw bytes; the model keeps components)",
                       "no key has the extension java or kt when a source directory is given (map_partial_path is outside the model)",
                       "globs are valid (Glob::new(..).unwrap()), mapping values are JSON strings",
                       "symlink chains are shorter than the OS limit (the model's walk has fuel 4000 steps)"]


def replay(chk, path):
    r = json.load(open(path))
    if r.get("engine") == "rewrite" and "case" in r:
        rewrite_stream(chk, [r["case"]], "replay")
    elif r.get("engine") == "pathfacts" and "case" in r:
        c = r["case"]
        chk.rng.seed(0)
        pathgen_pairs = [(c["a"], c["b"])]
        orig = pathgen.facts_pairs
        pathgen.facts_pairs = lambda rng, n: pathgen_pairs
        try:
            facts_stream(chk, 1)
        finally:
            pathgen.facts_pairs = orig
    else:
        chk.proofs()
