"""C11 - file selection and path rewriting.  Proofs + std::path correspondence (engine pathfacts) +
rewrite_paths correspondence (engine rewrite, real globset verdicts fed to the model) + the property's own reading."""
import collections, json
import vlib, gen, pathgen

R = pathgen.R


def ms(run):
    """multiset of canonical records"""
    return collections.Counter(vlib.canon(x) for x in pathgen.canon_run(run))


def is_covered(c):
    """the property's reading of 'covered': some line executed and (at most one function, or some function other
    than the JS 'top-level' executed)"""
    if not any(n != 0 for _, n in c["lines"]):
        return False
    return len(c["funcs"]) <= 1 or any(e and bytes.fromhex(n) != b"top-level" for n, _, e in c["funcs"])


def key_of(cov):
    ks = [l - 1000 for l, _ in cov["lines"] if 1000 <= l < 2000]
    return ks[0] if len(ks) == 1 else None


def in_class_backslash(case):
    return case["mapping"] is not None and any(b"\\" in bytes.fromhex(v) for _, v in case["mapping"])


# ---------------------------------------------------------------------------------------------
def facts_stream(chk, n):
    pairs = pathgen.facts_pairs(chk.rng, n)
    cases = [{"a": pathgen.hx(a), "b": pathgen.hx(b)} for a, b in pairs]
    impl = vlib.run_impl("pathfacts", cases, chk.pid)
    exprs = [vlib.app("run_facts", list(a.encode()), list(b.encode())) for a, b in pairs]
    model = vlib.run_model(chk.pid, "Run.ShowRewrite", exprs)
    dis = []
    dist = collections.Counter()
    renorm = []
    for (a, b), ri, rm in zip(pairs, impl, model):
        chk.count()
        if "comps" not in ri:
            chk.violation({"kind": "oracle", "engine": "pathfacts", "case": {"a": a, "b": b}, "impl": ri, "clause": "std::path facts must be computable"}, tag="facts")
            continue
        # the property's own reading (Appendix D) of components and of normalize_path
        absolute, segs = pathgen.comps_py(a)
        exp = (absolute, [(0, []) if s == "c" else (1, []) if s == "u" else (2, list(s[1])) for s in segs])
        iv = pathgen.facts_impl_view(ri)
        if iv[0] != exp:
            chk.violation({"kind": "oracle", "engine": "pathfacts", "case": {"a": a, "b": b}, "impl": iv[0], "expected": exp,
                           "clause": "components: '//' collapses, interior '.' vanishes, a leading '.' is kept, '..' is kept"}, tag="facts")
            continue
        depth, escaped = 0, False
        for s in segs:
            if s == "u":
                depth -= 1
                if depth < 0:
                    escaped = True
                    break
            elif s != "c":
                depth += 1
        norm = ri["normalize"]
        if (norm is None) != escaped:
            chk.violation({"kind": "oracle", "engine": "pathfacts", "case": {"a": a, "b": b}, "impl": norm,
                           "clause": "normalize_path gives up iff some prefix has more '..' than names"}, tag="facts")
            continue
        if norm is not None:
            raw = bytes.fromhex(norm["raw"])
            parts = raw.split(b"/")
            body = parts[1:] if raw.startswith(b"/") else parts
            if raw not in (b"", b"/") and any(p in (b"", b".", b"..") for p in body):
                chk.violation({"kind": "oracle", "engine": "pathfacts", "case": {"a": a, "b": b}, "impl": raw.decode(errors="replace"),
                               "clause": "normal form has no '.', '..' or empty component"}, tag="facts")
                continue
            renorm.append(raw)
        if isinstance(rm, tuple) and rm and rm[0] == "@@ERROR":
            dis.append({"case": {"a": a, "b": b}, "model": rm})
            continue
        mv, wf = pathgen.facts_model_view(rm)
        if iv != mv or not wf:
            dis.append({"case": {"a": a, "b": b}, "impl": iv, "model": mv, "wf": wf})
            continue
        dist["starts_with_true"] += ri["starts_with"]
        dist["ends_with_true"] += ri["ends_with"]
        dist["normalize_none"] += norm is None
        dist["absolute"] += absolute
        dist["leading_cur"] += bool(segs) and segs[0] == "c"
        chk.nontrivial(("facts", a, b))
    # idempotence on the implementation: normalising a normal form returns it
    rc = [{"a": r.hex(), "b": ""} for r in sorted(set(renorm))]
    for c, ri in zip(rc, vlib.run_impl("pathfacts", rc, chk.pid)):
        chk.count()
        if not ri.get("normalize") or ri["normalize"]["raw"] != c["a"]:
            chk.violation({"kind": "oracle", "engine": "pathfacts", "case": c, "impl": ri.get("normalize"), "clause": "normalize_path is idempotent"}, tag="facts")
    for d in dis[:3]:
        d.update({"kind": "correspondence", "engine": "pathfacts", "theorems_at_stake": "C11_* (Model/Paths.v no longer describes std::path / normalize_path)"})
        chk.violation(d, has_input=False, tag="facts-corr")
    return dict(dist)


# ---------------------------------------------------------------------------------------------
def expectations(case, root):
    """what the property says about keys whose spelling was built for it: index -> ('rel', bytes) | ('dropped',)"""
    out = {}
    sd = case["meta"]["sd_rel"]
    mapped = set()
    if case["mapping"]:
        for k, _ in case["mapping"]:
            kb = pathgen.sub(k, root)
            mapped |= {kb, kb[:1].lower() + kb[1:], kb[:1].upper() + kb[1:]}
    if case["source_dir"] is not None and not pathgen.sub(case["source_dir"], root).startswith(b"/"):
        return out
    for i, (k, u, note, intends) in enumerate(case["meta"]["keys"]):
        kb = k.replace("\\", "/").encode().replace(R.encode(), root)
        if kb in mapped or u.startswith("src/") or u not in pathgen.UNDER:
            continue
        if intends == "same" and sd and note != "mapped":
            out[i] = ("rel", u.encode())
        elif note in ("escape", "escape_abs"):
            out[i] = ("dropped",)
    return out


def rewrite_stream(chk, cases, label):
    impl = vlib.run_impl("rewrite", cases, chk.pid, parallel=4)
    exprs, idx = [], []
    for ci, (c, ri) in enumerate(zip(cases, impl)):
        if "runs" in ri:
            exprs.append(pathgen.model_case_expr(c, bytes.fromhex(ri["root"]), ri["globs"]))
            idx.append(ci)
    model = dict(zip(idx, vlib.run_model(chk.pid, "Run.ShowRewrite", exprs, shard_size=40)))
    dis = []
    dist = collections.Counter()
    known = {e["key"]: e for e in vlib.known_findings(chk.pid)}
    for ci, (c, ri) in enumerate(zip(cases, impl)):
        if "runs" not in ri:
            chk.count()
            chk.violation({"kind": "oracle", "engine": "rewrite", "case": c, "impl": ri, "clause": "the harness must be able to run the case"}, tag=label)
            continue
        root = bytes.fromhex(ri["root"])
        runs = ri["runs"]
        rm = model.get(ci)
        model_err = isinstance(rm, tuple) and rm and rm[0] == "@@ERROR"
        if model_err:
            dis.append({"case": c, "model": rm})
        base = runs[0]
        exists = {a: e for a, e in ri["exists"]}
        nkeys = len(c["keys"])
        ok_case = True
        for vi, v in enumerate(c["variants"]):
            chk.count()
            run = runs[vi]
            # ---- correspondence
            if not model_err:
                tag, mrs, missing = pathgen.model_run(rm[vi], root)
                if isinstance(run, dict):
                    if tag != 2:
                        dis.append({"case": c, "variant": vi, "impl": run, "model_tag": tag})
                elif missing and in_class_backslash(c):
                    # globset is asked about the path before its backslashes become '/', the harness can only record verdicts for
                    # reported paths: without globs nothing depends on the verdict; with globs the variant is not compared
                    if v["ignore"] or v["keep"]:
                        dist["uncompared_backslash_glob_variants"] += 1
                    elif tag != 0 or vlib.canon(pathgen.canon_run(run)) != vlib.canon(mrs):
                        dis.append({"case": c, "variant": vi, "root": root.decode(), "impl": pathgen.canon_run(run), "model": mrs, "model_tag": tag})
                elif tag != 0 or missing or vlib.canon(pathgen.canon_run(run)) != vlib.canon(mrs):
                    dis.append({"case": c, "variant": vi, "root": root.decode(), "impl": pathgen.canon_run(run), "model": mrs, "model_tag": tag,
                                "missing_verdicts": [m.decode(errors="replace") for m in missing]})
            # ---- panics: only the two documented ones (relative source_dir, empty key with a mapping)
            if isinstance(run, dict):
                sdb = None if c["source_dir"] is None else pathgen.sub(c["source_dir"], root)
                legit = (sdb is not None and not sdb.startswith(b"/")) or (c["mapping"] is not None and any(k == "" for k, _ in c["keys"]))
                dist["panic_runs"] += 1
                if not legit:
                    chk.violation({"kind": "oracle", "engine": "rewrite", "case": c, "variant": v, "impl": run,
                                   "clause": "rewrite_paths must not panic on a non-empty key set with an absolute source directory"}, tag=label)
                    ok_case = False
                continue
            if isinstance(base, dict):
                continue
            verd = {r: (i, k) for r, i, k in ri["globs"][vi]}
            # ---- presence iff the filters say so (on the unfiltered run's records)
            want = []
            for a, r, cv in base:
                gi, gk = verd[r]
                keep = (not gi) and (not v["keep"] or gk) and (not v["ine"] or exists[a]) and \
                       (v["filter"] is None or is_covered(cv) == v["filter"])
                if keep:
                    want.append([a, r, cv])
            nb = lambda rs: [x for x in rs if b"\\" not in bytes.fromhex(x[0])]
            if ms(want) != ms(run) and in_class_backslash(c) and (v["ignore"] or v["keep"]) and ms(nb(want)) == ms(nb(run)) \
                    and "backslash-in-mapped-path" in known:
                # same known class: the globs are asked about the mapped value before its backslashes become '/' (one file name), so a
                # record whose abs path still shows the backslashes may be selected differently from its reported spelling
                dist["known_backslash_mapping_glob"] += 1
            elif ms(want) != ms(run):
                chk.violation({"kind": "oracle", "engine": "rewrite", "case": c, "variant": v, "impl": pathgen.canon_run(run), "expected": pathgen.canon_run(want),
                               "clause": "a file is reported iff not ignored, kept when --keep-only is given, existing when --ignore-not-existing, and of the requested --filter status"}, tag=label)
                ok_case = False
            for a, r, cv in run:
                rb = bytes.fromhex(r)
                ab = bytes.fromhex(a)
                # ---- data unchanged: the record is the one stored under its key
                ki = key_of(cv)
                if ki is None or ki >= nkeys or vlib.canon(gen.cov_canon(cv)) != vlib.canon(gen.cov_canon(c["keys"][ki][1])):
                    chk.violation({"kind": "oracle", "engine": "rewrite", "case": c, "variant": v, "record": [a, r, cv],
                                   "clause": "coverage data of a retained file is passed through unchanged"}, tag=label)
                    ok_case = False
                # ---- normal form of the reported path
                parts = rb.split(b"/")
                body = parts[1:] if rb.startswith(b"/") else parts
                bad = b"\\" in rb or (rb not in (b"", b"/") and any(p in (b"", b".", b"..") for p in body))
                if bad:
                    # the known class is about '.', '..' or empty components that survive because a mapped value with backslashes is
                    # normalised as one file name; the backslashes themselves are always turned into '/': one that survives is judged
                    if b"\\" not in rb and in_class_backslash(c) and "backslash-in-mapped-path" in known:
                        dist["known_backslash_mapping"] += 1
                    else:
                        chk.violation({"kind": "oracle", "engine": "rewrite", "case": c, "variant": v, "record": [a, r],
                                       "clause": "reported paths use '/' and contain no '.', '..' or empty component"}, tag=label)
                        ok_case = False
                # ---- relative to the source directory whenever the file lies under it
                if c["source_dir"] is not None:
                    sdb = pathgen.sub(c["source_dir"], root).rstrip(b"/")
                    if ab.startswith(sdb + b"/"):
                        if rb.startswith(b"/") or ab != sdb + b"/" + rb:
                            kraw = pathgen.sub(c["keys"][ki][0], root) if ki is not None and ki < nkeys else b""
                            if b".." in kraw and rb.startswith(b"/") and "unresolved-dotdot-abs" in known:
                                dist["known_unresolved_dotdot"] += 1
                            elif in_class_backslash(c) and b"\\" in ab and "backslash-in-mapped-path" in known:
                                dist["known_backslash_mapping"] += 1
                            else:
                                chk.violation({"kind": "oracle", "engine": "rewrite", "case": c, "variant": v, "record": [a, r],
                                               "clause": "a file under the source directory is reported relative to it"}, tag=label)
                                ok_case = False
        if isinstance(base, dict):
            continue
        # ---- the report pipeline of main.rs (merge_same_paths after rewrite_paths, --filter applied there): the status clause and
        # the covered / uncovered partition must hold whatever the number of records that reach the merge step (two, one, none)
        mg = ri.get("merged")
        if mg and len(mg) == len(c["variants"]) and not any(isinstance(x, dict) for x in mg):
            def mobs(run):
                return collections.Counter(vlib.canon([r, sorted(map(list, cv["lines"])), sorted([l, list(b)] for l, b in cv["branches"]),
                                                       sorted((n, e) for n, _, e in cv["funcs"])]) for _, r, cv in run)
            for vi, v in enumerate(c["variants"]):
                if v["filter"] is None:
                    continue
                chk.count()
                wrong = [[a, r] for a, r, cv in mg[vi] if is_covered(cv) != v["filter"]]
                if wrong:
                    chk.violation({"kind": "oracle", "engine": "rewrite", "case": c, "variant": v, "merged": pathgen.canon_run(mg[vi]), "records": wrong,
                                   "clause": "a file is reported under --filter covered / uncovered only if it has that status (report pipeline: merge_same_paths after rewrite_paths)"}, tag=label)
                    ok_case = False
            if len(c["variants"]) > 4:
                chk.count()
                if mobs(mg[3]) + mobs(mg[4]) != mobs(mg[0]):
                    chk.violation({"kind": "oracle", "engine": "rewrite", "case": c, "covered": pathgen.canon_run(mg[3]), "uncovered": pathgen.canon_run(mg[4]),
                                   "all": pathgen.canon_run(mg[0]),
                                   "clause": "--filter covered and --filter uncovered partition the report (report pipeline: merge_same_paths after rewrite_paths)"}, tag=label)
                    ok_case = False
                dist["merged_reports_with_%s" % ("one_record" if len(mg[0]) == 1 else "no_record" if not mg[0] else "several_records")] += 1
        # ---- partitions
        for (x, y, what) in ((1, 2, "--ignore G and --keep-only G partition the unfiltered report"),
                             (3, 4, "--filter covered and --filter uncovered partition the unfiltered report")):
            if len(runs) > y and all(not isinstance(runs[i], dict) for i in (x, y)):
                chk.count()
                if ms(runs[x]) + ms(runs[y]) != ms(base):
                    chk.violation({"kind": "oracle", "engine": "rewrite", "case": c, "variants": [c["variants"][x], c["variants"][y]],
                                   "a": pathgen.canon_run(runs[x]), "b": pathgen.canon_run(runs[y]), "all": pathgen.canon_run(base), "clause": what}, tag=label)
                    ok_case = False
                dist["partition_nontrivial"] += bool(runs[x]) and bool(runs[y])
        # ---- spellings built for the property: expected path / dropped
        by_key = collections.defaultdict(list)
        for a, r, cv in base:
            by_key[key_of(cv)].append((bytes.fromhex(a), bytes.fromhex(r)))
        for i, e in expectations(c, root).items():
            chk.count()
            got = by_key.get(i, [])
            if e[0] == "dropped":
                dist["escape_keys"] += 1
                if got:
                    chk.violation({"kind": "oracle", "engine": "rewrite", "case": c, "key": c["meta"]["keys"][i], "impl": [(a.decode(), r.decode()) for a, r in got],
                                   "clause": "a path that would escape through '..' is dropped rather than reported"}, tag=label)
                    ok_case = False
            else:
                dist["spelled_keys"] += 1
                sdb = pathgen.sub(c["source_dir"], root).rstrip(b"/")
                if len(got) != 1 or got[0][1] != e[1] or got[0][0] != sdb + b"/" + e[1]:
                    chk.violation({"kind": "oracle", "engine": "rewrite", "case": c, "key": c["meta"]["keys"][i], "impl": [(a.decode(), r.decode()) for a, r in got],
                                   "expected": e[1].decode(), "clause": "prefix removed, separators normalised, path relative to the source directory"}, tag=label)
                    ok_case = False
        dist["cases_with_symlinks"] += bool(c["symlinks"])
        dist["cases_with_mapping"] += c["mapping"] is not None
        dist["cases_with_source_dir"] += c["source_dir"] is not None
        dist["cases_with_prefix_dir"] += c["prefix_dir"] is not None
        dist["records_unfiltered"] += len(base)
        dist["keys"] += nkeys
        dist["dropped_keys"] += nkeys - len(base)
        if ok_case and base:
            chk.nontrivial(("rw", c["id"], [k for k, _ in c["keys"]], c["source_dir"], c["prefix_dir"], c["mapping"], c["files"], c["symlinks"]))
        chk.sample({"keys": [m[0] for m in c["meta"]["keys"]], "source_dir": c["meta"]["sd_rel"],
                    "reported": sorted({bytes.fromhex(r).replace(root, b"{R}").decode(errors="replace") for _, r, _ in base})}, limit=3)
    for d in dis[:3]:
        d.update({"kind": "correspondence", "engine": "rewrite", "theorems_at_stake": "C11_*, C12_* (Model/Rewrite.v no longer describes rewrite_paths)"})
        chk.violation(d, has_input=False, tag=label + "-corr")
    return dict(dist)


# ---------------------------------------------------------------------------------------------
# CLI stream: the options as a user gives them; reports are made after merge_same_paths, so the selection
# clauses are read on merged records (one per path; --filter decided on the merged record)
# ---------------------------------------------------------------------------------------------
CLI_GLOBS = [["foo/*"], ["*.h"], ["**/sub/**"], ["main.c"], ["foo/**", "lib/*"], ["*"], ["**/*.c"], ["gone/*"], ["nomatch/*"]]


def cli_stream(chk, n):
    import os, shutil
    import c12
    exe = vlib.build_cli()
    sc = os.path.realpath(vlib.scratch("cli_" + chk.pid))
    rng = chk.rng
    dist = collections.Counter()
    for ci in range(n):
        root = os.path.join(sc, "c%d" % ci)
        for u in c12.ONDISK:
            if rng.random() < 0.7:
                p = os.path.join(root, "src", u)
                os.makedirs(os.path.dirname(p), exist_ok=True)
                open(p, "w").write("x\n")
        os.makedirs(os.path.join(root, "src"), exist_ok=True)
        run_dir = os.path.join(root, "run")
        os.makedirs(run_dir, exist_ok=True)
        sd = os.path.join(root, "src") if rng.random() < 0.7 else None
        pd = c12.PREFIX if rng.random() < 0.4 else None
        fam = []
        single = rng.random() < 0.3
        if single:
            # a report with exactly one record before --filter (or none, once a glob / --ignore-not-existing has removed it)
            fam = c12.cli_spellings(rng, rng.choice(c12.UNDER), root, sd, pd)[:1]
        else:
            for u in rng.sample(c12.UNDER, rng.randrange(2, 5)):
                fam += c12.cli_spellings(rng, u, root, sd, pd)
        dist["single_record_cases"] += single
        recs = []
        for i, (k, _) in enumerate(fam):
            lines = sorted(set(rng.sample([1, 2, 3, 4, 5, 6], rng.randrange(0, 4))))
            recs.append((k, {"lines": [[l, rng.choice([0, 0, 1, 3])] for l in lines] + [[1000 + i, rng.choice([0, 0, 1])]], "branches": [], "funcs": []}))
        info = os.path.join(run_dir, "in.info")
        open(info, "w").write(c12.render_lcov(recs))
        base_args = [exe, info] + (["-s", sd] if sd else []) + (["-p", pd] if pd else [])
        g = rng.choice(CLI_GLOBS)
        gi = [x for gl in g for x in ("--ignore", gl)]
        gk = [x for gl in g for x in ("--keep-only", gl)]
        variants = {"none": [], "ignore": gi, "keep": gk, "covered": ["--filter", "covered"], "uncovered": ["--filter", "uncovered"], "ine": ["--ignore-not-existing"]}
        for nm in ("ignore", "keep", "ine"):
            variants[nm + "+covered"] = variants[nm] + ["--filter", "covered"]
            variants[nm + "+uncovered"] = variants[nm] + ["--filter", "uncovered"]
        rep = {}
        for name, extra in variants.items():
            p = vlib.sh(base_args + extra + ["-t", "lcov"], cwd=run_dir, timeout=120)
            chk.count()
            if p.returncode != 0:
                chk.violation({"kind": "oracle", "engine": "cli", "args": (base_args + extra)[1:], "input": c12.render_lcov(recs), "stderr": p.stderr[-600:],
                               "clause": "grcov must produce a report"}, tag="cli")
                rep = None
                break
            rep[name] = collections.Counter((path, json.dumps(sorted(das))) for path, das in c12.parse_lcov(p.stdout))
        if rep is None:
            continue
        replay = {"kind": "oracle", "engine": "cli", "args": base_args[1:], "glob": g, "input": c12.render_lcov(recs),
                  "reports": {k: sorted(v.elements()) for k, v in rep.items()}}
        base = rep["none"]
        if rep["ignore"] + rep["keep"] != base:
            chk.violation(dict(replay, clause="--ignore G and --keep-only G partition the unfiltered report (paths and data)"), tag="cli")
        if rep["covered"] + rep["uncovered"] != base:
            chk.violation(dict(replay, clause="--filter covered and --filter uncovered partition the unfiltered report (paths and data)"), tag="cli")
        for nm in ("ignore", "keep", "ine"):
            # --filter on top of a selection partitions that selection, however many files it leaves (several, one, none)
            if rep[nm + "+covered"] + rep[nm + "+uncovered"] != rep[nm]:
                chk.violation(dict(replay, selection=nm, clause="--filter covered and --filter uncovered partition the report left by the other options (paths and data)"), tag="cli")
            dist["filtered_selection_of_%s" % ("one_file" if sum(rep[nm].values()) == 1 else "no_file" if not rep[nm] else "several_files")] += 1
        for nm, rp in rep.items():
            if nm.endswith("covered"):
                flag = not nm.endswith("uncovered")
                for (path, das), _ in rp.items():
                    if any(c > 0 for _, c in json.loads(das)) != flag:
                        chk.violation(dict(replay, path=path, report=nm, clause="--filter covered reports files with an executed line only, --filter uncovered files without"), tag="cli")
        want = collections.Counter({k: v for k, v in base.items() if os.path.exists(os.path.join(sd or run_dir, k[0]))})
        if rep["ine"] != want:
            chk.violation(dict(replay, expected=sorted(want.elements()), clause="--ignore-not-existing reports exactly the files that exist on disk"), tag="cli")
        for (path, _), _ in base.items():
            parts = path.split("/")
            body = parts[1:] if path.startswith("/") else parts
            if "\\" in path or any(x in ("", ".", "..") for x in body) or (sd and path.startswith(sd + "/")):
                chk.violation(dict(replay, path=path, clause="reported paths use '/', have no '.', '..' or empty component, and are relative to the source directory"), tag="cli")
        dist["cases"] += 1
        dist["ignore_keep_both_nonempty"] += bool(rep["ignore"]) and bool(rep["keep"])
        dist["covered_uncovered_both_nonempty"] += bool(rep["covered"]) and bool(rep["uncovered"])
        dist["ine_drops_something"] += rep["ine"] != base
        dist["files_reported"] += sum(base.values())
        if len(base) > 1:
            chk.nontrivial(("cli", [k for k, _ in recs], bool(sd), bool(pd), g))
        shutil.rmtree(root, ignore_errors=True)
    return dict(dist)


# ---------------------------------------------------------------------------------------------
# CLI stream, Java / Kotlin partial paths (map_partial_path; outside the Gallina model)
# The property's reading: with -s, a .java/.kt record whose path is package-relative denotes the source file whose path
# ends with it (the only file of that name, if there is just one); the report without globs is that mapping, and
# --ignore G / --keep-only G partition it.
# Known class `ignore-prunes-partial-path-index`: an --ignore glob that matches the file a record maps to removes it from the
# index: the record is then attributed to the one remaining same-named file, or stays under its partial path.
# ---------------------------------------------------------------------------------------------
JNAMES = ["Main.java", "Util.kt", "Helper.java", "Main.kt"]
JDIRS = ["x", "y", "z"]
JPKGS = ["com/a", "com/b", "org/c", "io/d/e"]
KF_JAVA = "ignore-prunes-partial-path-index"


def lcov_report(txt):
    import c12
    return collections.Counter((path, json.dumps(sorted(das))) for path, das in c12.parse_lcov(txt))


def expected_report(recs, mapping, keep):
    """records grouped under the path they denote, lines summed (C01), restricted to the paths `keep` accepts"""
    groups = collections.defaultdict(list)
    for (k, cov), path in zip(recs, mapping):
        groups[path].append(cov)
    return collections.Counter({(path, json.dumps(gen.ref_agg(cs)["lines"])): 1 for path, cs in groups.items() if keep(path)})


def java_case(chk, exe, root, files, recs, d, dist, label, known):
    """files: {rel path under root}; recs: [(SF, cov)]; glob = src/<d>/*.  Returns False on a violation."""
    import os, c12
    run_dir = os.path.join(root, "run")
    os.makedirs(run_dir, exist_ok=True)
    for f in files:
        os.makedirs(os.path.dirname(os.path.join(root, f)), exist_ok=True)
        open(os.path.join(root, f), "w").write("x\n")
    info = os.path.join(run_dir, "in.info")
    open(info, "w").write(c12.render_lcov(recs))
    glob = "src/%s/*" % d
    under = lambda path: path.startswith("src/%s/" % d)
    is_j = lambda k: k.endswith(".java") or k.endswith(".kt")

    def target(k, index):
        """map_partial_path as the property reads it, over the files in `index`"""
        if not is_j(k):
            return k
        name = k.rsplit("/", 1)[-1]
        cands = [f for f in index if f.rsplit("/", 1)[-1] == name]
        if len(cands) == 1:
            return cands[0]
        ends = [f for f in cands if f == k or f.endswith("/" + k)]
        return ends[0] if len(ends) == 1 else k
    jfiles = sorted(f for f in files if is_j(f))
    needed = any(not os.path.exists(os.path.join(root, k)) for k, _ in recs) and any(is_j(k) for k, _ in recs)
    full = [target(k, jfiles) if needed else k for k, _ in recs]
    outs = {}
    base_args = [exe, info, "-s", root, "-t", "lcov"]
    for name, extra in (("none", []), ("ignore", ["--ignore", glob]), ("keep", ["--keep-only", glob])):
        p = vlib.sh(base_args + extra, cwd=run_dir, timeout=120)
        chk.count()
        if p.returncode != 0:
            chk.violation({"kind": "oracle", "engine": "cli-java", "args": (base_args + extra)[1:], "files": sorted(files), "input": c12.render_lcov(recs),
                           "stderr": p.stderr[-600:], "clause": "grcov must produce a report"}, tag=label)
            return False
        outs[name] = lcov_report(p.stdout)
    replay = {"kind": "oracle", "engine": "cli-java", "root": root, "files": sorted(files), "glob": glob, "input": c12.render_lcov(recs),
              "reports": {k: sorted(v.elements()) for k, v in outs.items()}}
    ok = True
    want_none = expected_report(recs, full, lambda p_: True)
    if outs["none"] != want_none:
        chk.violation(dict(replay, expected=sorted(want_none.elements()),
                           clause="with -s a package-relative .java/.kt record is reported under the source file whose path ends with it (data unchanged)"), tag=label)
        ok = False
    want_keep = expected_report(recs, full, under)
    if outs["keep"] != want_keep:
        chk.violation(dict(replay, expected=sorted(want_keep.elements()),
                           clause="the --keep-only G report is exactly the matching part of the unfiltered report (paths and data)"), tag=label)
        ok = False
    want_ign = expected_report(recs, full, lambda p_: not under(p_))
    if outs["ignore"] != want_ign:
        # the known class: some record's file matches the glob, so the index it is looked up in was pruned
        pruned = [f for f in jfiles if not under(f)]
        wrong = expected_report(recs, [target(k, pruned) if needed else k for k, _ in recs], lambda p_: not under(p_))
        in_class = needed and any(is_j(k) and under(t) for (k, _), t in zip(recs, full))
        if in_class and outs["ignore"] == wrong and KF_JAVA in known:
            dist["known_ignore_prunes_index"] += 1
        else:
            chk.violation(dict(replay, expected=sorted(want_ign.elements()), known_wrong=sorted(wrong.elements()), in_known_class=in_class,
                               clause="the --ignore G report is exactly the non-matching part of the unfiltered report (paths and data)"), tag=label)
            ok = False
    else:
        dist["ignore_reports_right"] += 1
    if outs["keep"] + want_ign != want_none:
        pass          # (by construction of the expectations; kept for the reader: keep ⊎ ignore = none)
    dist["keep_nonempty_and_ignore_nonempty"] += bool(want_keep) and bool(want_ign)
    return ok


def java_stream(chk, n, known):
    import os, shutil
    exe = vlib.build_cli()
    sc = os.path.realpath(vlib.scratch("clij_" + chk.pid))
    rng = chk.rng
    dist = collections.Counter()
    # ---- the witness of the known finding, on every run
    root = os.path.join(sc, "w")
    files = {"src/x/com/a/Main.java", "src/y/com/b/Main.java"}
    recs = [("com/a/Main.java", {"lines": [[1, 1]], "branches": [], "funcs": []}), ("com/b/Main.java", {"lines": [[3, 5]], "branches": [], "funcs": []})]
    d0 = collections.Counter()
    wchk_before = len(chk.violations)
    java_case(chk, exe, root, files, recs, "y", d0, "cli-java-witness", known)
    if d0["known_ignore_prunes_index"] and KF_JAVA in known:
        chk.known(known[KF_JAVA])           # reproduced: SF:src/x/com/a/Main.java carries DA:1,1 and DA:3,5
    elif len(chk.violations) == wchk_before:
        dist["witness_now_right"] = 1       # neither wrong output nor violation: the defect is gone
    shutil.rmtree(root, ignore_errors=True)
    for ci in range(n):
        root = os.path.join(sc, "j%d" % ci)
        files, partial = set(), {}
        for name in rng.sample(JNAMES, rng.randrange(1, 4)):
            k = rng.choice([1, 2, 2, 3])
            for d, pkg in zip(rng.sample(JDIRS, k), rng.sample(JPKGS, k)):
                f = "src/%s/%s/%s" % (d, pkg, name)
                files.add(f)
                partial[f] = "%s/%s" % (pkg, name)
        if rng.random() < 0.3:
            # a Kotlin file outside its package directory: the only file of that name
            f = "src/%s/misc/Only.kt" % rng.choice(JDIRS)
            files.add(f)
            partial[f] = "com/k/Only.kt"
        cfiles = ["src/%s/plain%d.c" % (rng.choice(JDIRS), i) for i in range(rng.randrange(0, 3))]
        files |= set(cfiles)
        recs = []
        for f in sorted(files):
            if rng.random() < 0.1:
                continue
            spell = [partial[f]] if f in partial else [f]
            if f in partial and rng.random() < 0.25:
                spell.append(f)                                  # the full source-relative path as well (merged into one record)
            if f in partial and rng.random() < 0.1:
                spell = [f]
            for k in spell:
                i = len(recs)
                lines = sorted(set(rng.sample([1, 2, 3, 4, 5, 6], rng.randrange(0, 3))))
                recs.append((k, {"lines": [[l, rng.choice([0, 1, 3])] for l in lines] + [[1000 + i, rng.choice([0, 1])]], "branches": [], "funcs": []}))
        if not recs:
            continue
        rng.shuffle(recs)
        d = rng.choice(JDIRS)
        ok = java_case(chk, exe, root, files, recs, d, dist, "cli-java", known)
        names = collections.Counter(f.rsplit("/", 1)[-1] for f in partial)
        dist["cases"] += 1
        dist["cases_with_same_named_files"] += any(v > 1 for v in names.values())
        dist["cases_with_misplaced_sole_file"] += any(f.endswith("Only.kt") for f in files)
        if ok:
            chk.nontrivial(("cli-java", sorted(files), [k for k, _ in recs], d))
        shutil.rmtree(root, ignore_errors=True)
    return dict(dist)


# ---------------------------------------------------------------------------------------------
# CLI stream, -p prefixes that exist on this machine: the prefix is removed as the literal leading components of the
# recorded paths, whatever the local filesystem says about it (symlink, relative, "..", "./")
# ---------------------------------------------------------------------------------------------
def prefix_stream(chk, n):
    import os, shutil, c12
    exe = vlib.build_cli()
    sc = os.path.realpath(vlib.scratch("clip_" + chk.pid))
    rng = chk.rng
    dist = collections.Counter()
    for ci in range(n):
        root = os.path.join(sc, "p%d" % ci)
        run_dir = os.path.join(root, "run")
        for dname in ("build/obj", "run/build/obj", "src/foo", "src/lib", "other"):
            os.makedirs(os.path.join(root, dname), exist_ok=True)
        os.symlink(os.path.join(root, "build"), os.path.join(root, "lnk"))
        os.symlink("../other", os.path.join(root, "build", "rel_lnk"))
        for u in ("foo/bar.c", "lib/util.h"):
            if rng.random() < 0.6:
                open(os.path.join(root, "src", u), "w").write("x\n")
        kind = rng.choice(["symlink", "symlink-sub", "relative", "relative-dot", "dotdot", "dot", "symlink-rel-target", "absent"])
        P = {"symlink": root + "/lnk", "symlink-sub": root + "/lnk/obj", "relative": "build/obj", "relative-dot": "./build/obj",
             "dotdot": root + "/other/../build/obj", "dot": root + "/./build/obj", "symlink-rel-target": root + "/build/rel_lnk",
             "absent": "/builds/worker/checkout"}[kind]
        rec_prefix = root + "/build/obj" if kind == "dot" else P       # "./" inside the option: the recorded paths are written without it
        sd = os.path.join(root, "src") if rng.random() < 0.5 else None
        unders = rng.sample(["foo/bar.c", "lib/util.h", "gone/missing.c", "main.c"], rng.randrange(1, 4))
        recs, intent = [], []
        for u in unders:
            # the prefix part itself may be written with '//' or '/./' between its components: it is removed component-wise
            spelt = [rec_prefix + "/" + u, rec_prefix + "//" + u, rec_prefix + "/./" + u,
                     c12.inside_prefix(rng, rec_prefix) + "/" + u, c12.inside_prefix(rng, rec_prefix) + "//" + u]
            for k in rng.sample(spelt, rng.randrange(1, 4)):
                i = len(recs)
                recs.append((k, {"lines": [[rng.choice([1, 2, 3]), rng.choice([0, 2])], [1000 + i, 1]], "branches": [], "funcs": []}))
                intent.append(u)
        info = os.path.join(run_dir, "in.info")
        open(info, "w").write(c12.render_lcov(recs))
        args = [exe, info, "-p", P] + (["-s", sd] if sd else []) + ["-t", "lcov"]
        p = vlib.sh(args, cwd=run_dir, timeout=120)
        chk.count()
        replay = {"kind": "oracle", "engine": "cli-prefix", "args": args[1:], "prefix_kind": kind, "input": c12.render_lcov(recs), "lcov": p.stdout[-3000:]}
        if p.returncode != 0:
            chk.violation(dict(replay, stderr=p.stderr[-600:], clause="grcov must produce a report"), tag="cli-prefix")
            continue
        want = expected_report(recs, intent, lambda p_: True)
        got = lcov_report(p.stdout)
        if got != want:
            chk.violation(dict(replay, reported=sorted(got.elements()), expected=sorted(want.elements()),
                               clause="reported paths have the prefix directory removed (the literal leading components given with -p), data unchanged"), tag="cli-prefix")
        else:
            chk.nontrivial(("cli-prefix", kind, bool(sd), [k.replace(root, "{R}") for k, _ in recs]))
        dist["cases"] += 1
        dist["prefix_" + kind] += 1
        dist["with_source_dir"] += bool(sd)
        dist["records_with_respelt_prefix_part"] += sum(1 for k, _ in recs if not k.startswith(rec_prefix + "/"))
        shutil.rmtree(root, ignore_errors=True)
    return dict(dist)


# ---------------------------------------------------------------------------------------------
# CLI stream, --path-mapping: a record is looked up with its first letter in lower case, then in upper case, so a key
# and a record that differ only in the case of the first letter (either way) denote the mapped file
# ---------------------------------------------------------------------------------------------
def mapping_stream(chk, n):
    import os, shutil, c12
    exe = vlib.build_cli()
    sc = os.path.realpath(vlib.scratch("clim_" + chk.pid))
    rng = chk.rng
    dist = collections.Counter()
    for ci in range(n):
        root = os.path.join(sc, "m%d" % ci)
        run_dir = os.path.join(root, "run")
        os.makedirs(run_dir, exist_ok=True)
        for u in ("foo/bar.c", "lib/util.h"):
            os.makedirs(os.path.dirname(os.path.join(root, "src", u)), exist_ok=True)
            if rng.random() < 0.6:
                open(os.path.join(root, "src", u), "w").write("x\n")
        sd = os.path.join(root, "src") if rng.random() < 0.5 else None
        # with -p the mapped value may be the build-machine path <prefix>/<path>: the record is mapped first, then the prefix is removed
        pd = rng.choice([None, "/builds/worker/checkout", "/builds/worker/checkout", "C:/proj"])
        mapping, recs, intent = {}, [], []
        for u in rng.sample(["foo/bar.c", "lib/util.h", "gone/missing.c", "main.c"], rng.randrange(1, 4)):
            keys = rng.sample(["C:/obj/dist/include/" + u.replace("/", "_"), "gen/obj/" + u.replace("/", "_"), "Build/" + u, "z:/w/" + u], rng.randrange(1, 3))
            spelt = [u] if rng.random() < 0.7 else []
            if pd and rng.random() < 0.5:
                spelt.append(pd + "/" + u)
            for key in keys:
                mapping[key] = rng.choice([pd + "/" + u, pd + "/" + u, pd + "//" + u, u] if pd else [u, u, "./" + u])
                if "/" in u and rng.random() < 0.3:
                    # a mapping written on Windows: no '.' or '..' in it, so the reported path is the same file, with '/'
                    mapping[key] = u.replace("/", "\\")
                    dist["mapped_values_with_backslashes"] += 1
                spelt.append(rng.choice([c12.flip_first(key), c12.flip_first(key), key]))
            if rng.random() < 0.3:
                spelt.append("Unmapped/" + u)
            for k in spelt:
                i = len(recs)
                recs.append((k, {"lines": [[rng.choice([1, 2, 3]), rng.choice([0, 2])], [1000 + i, 1]], "branches": [], "funcs": []}))
                intent.append(k if k.startswith("Unmapped/") else u)
        mfile = os.path.join(run_dir, "map.json")
        json.dump(mapping, open(mfile, "w"))
        info = os.path.join(run_dir, "in.info")
        open(info, "w").write(c12.render_lcov(recs))
        args = [exe, info, "--path-mapping", mfile] + (["-s", sd] if sd else []) + (["-p", pd] if pd else []) + ["-t", "lcov"]
        dist["with_prefix_dir"] += bool(pd)
        dist["mapped_values_starting_with_prefix"] += sum(1 for v in mapping.values() if pd and v.startswith(pd + "/"))
        p = vlib.sh(args, cwd=run_dir, timeout=120)
        chk.count()
        replay = {"kind": "oracle", "engine": "cli-mapping", "args": args[1:], "path_mapping": mapping, "input": c12.render_lcov(recs), "lcov": p.stdout[-3000:]}
        if p.returncode != 0:
            chk.violation(dict(replay, stderr=p.stderr[-600:], clause="grcov must produce a report"), tag="cli-mapping")
            continue
        want = expected_report(recs, intent, lambda p_: True)
        got = lcov_report(p.stdout)
        if got != want:
            chk.violation(dict(replay, reported=sorted(got.elements()), expected=sorted(want.elements()),
                               clause="a record whose path is a --path-mapping key (up to the case of its first letter) is reported under the mapped path with the prefix directory removed, data unchanged"), tag="cli-mapping")
        else:
            chk.nontrivial(("cli-mapping", sorted(mapping.items()), [k for k, _ in recs], bool(sd)))
        dist["cases"] += 1
        dist["key_upper_record_lower"] += sum(1 for k, _ in recs if k[0].islower() and c12.flip_first(k) in mapping)
        dist["key_lower_record_upper"] += sum(1 for k, _ in recs if k[0].isupper() and c12.flip_first(k) in mapping)
        dist["exact"] += sum(1 for k, _ in recs if k in mapping)
        shutil.rmtree(root, ignore_errors=True)
    return dict(dist)


def witness_case(keys, sd=None, pd=None, mapping=None, files=(), dirs=("src",)):
    hx = pathgen.hx
    return {"id": -1, "dirs": [hx(d) for d in dirs], "files": [hx(f) for f in files], "symlinks": [], "cwd": hx(""),
            "keys": [[hx(k), {"lines": [[1000 + i, 1]], "branches": [], "funcs": []}] for i, k in enumerate(keys)],
            "source_dir": None if sd is None else hx(sd), "prefix_dir": None if pd is None else hx(pd),
            "mapping": None if mapping is None else [[hx(a), hx(b)] for a, b in mapping],
            "variants": [{"ine": False, "ignore": [], "keep": [], "filter": None}],
            "meta": {"keys": [[k, k, "witness", "other"] for k in keys], "sd_rel": None}}


def confirm_known(chk):
    """re-confirm the witnesses of the known findings on the implementation"""
    known = {e["key"]: e for e in vlib.known_findings(chk.pid)}
    cs = [witness_case(["x.c"], mapping=[("x.c", "a\\..\\b.c")]),
          witness_case([R + "/missing/../src/a.c"], sd=R + "/src", files=["src/a.c"])]
    res = vlib.run_impl("rewrite", cs, chk.pid)
    chk.count(2)
    r0 = res[0].get("runs", [[]])[0]
    if "backslash-in-mapped-path" in known and r0 and not isinstance(r0, dict) and bytes.fromhex(r0[0][1]) == b"a/../b.c":
        chk.known(known["backslash-in-mapped-path"])
    r1 = res[1].get("runs", [[]])[0]
    if "unresolved-dotdot-abs" in known and r1 and not isinstance(r1, dict) and bytes.fromhex(r1[0][1]).startswith(b"/"):
        chk.known(known["unresolved-dotdot-abs"])
    # the witnesses also go through the correspondence (the model reproduces both)
    return cs


def run(chk):
    chk.proofs()
    quick = chk.tier == "quick"
    d1 = facts_stream(chk, 1500 if quick else 12000)
    wit = confirm_known(chk)
    cases = [pathgen.make_case(chk.rng, i) for i in range(220 if quick else 2000)]
    # a few cases of the backslash-in-mapping class, so that the class is exercised on both sides
    for i in range(3 if quick else 20):
        c = pathgen.make_case(chk.rng, 100000 + i)
        c["mapping"] = (c["mapping"] or []) + [[pathgen.hx("bs_key.c"), pathgen.hx("d\\..\\e.c")]]
        c["keys"].append([pathgen.hx("bs_key.c"), {"lines": [[1000 + len(c["keys"]), 1]], "branches": [], "funcs": []}])
        c["meta"]["keys"].append(["bs_key.c", "bs_key.c", "bslash_mapped", "other"])
        cases.append(c)
    # mapped values with backslashes but without '.' / '..': outside the known class (the reported path is lib/util/a.c)
    for i in range(4 if quick else 30):
        c = pathgen.make_case(chk.rng, 200000 + i)
        c["mapping"] = (c["mapping"] or []) + [[pathgen.hx("Bsl_key.c"), pathgen.hx("lib\\util\\a.c")]]
        for k in ("bsl_key.c", "lib/util/a.c"):
            c["keys"].append([pathgen.hx(k), {"lines": [[1000 + len(c["keys"]), 1]], "branches": [], "funcs": []}])
            c["meta"]["keys"].append([k, "lib/util/a.c", "bslash_mapped_plain", "other"])
        cases.append(c)
    # reports that end up with exactly one record, or none: one key only (and the glob / existence variants on top of it)
    for i in range(25 if quick else 250):
        c = pathgen.make_case(chk.rng, 300000 + i)
        c["keys"] = c["keys"][:1]
        c["meta"]["keys"] = c["meta"]["keys"][:1]
        c["keys"][0][1]["lines"] = sorted([l for l in c["keys"][0][1]["lines"] if l[0] < 1000] + [[1000, chk.rng.choice([0, 0, 1])]])
        if c["mapping"]:
            c["mapping"] = [m for m in c["mapping"] if bytes.fromhex(m[0]) != b""]
        cases.append(c)
    d2 = rewrite_stream(chk, wit + cases, "rw")
    d3 = cli_stream(chk, 40 if quick else 400)
    known = {e["key"]: e for e in vlib.known_findings(chk.pid)}
    d4 = java_stream(chk, 40 if quick else 400, known)
    d5 = prefix_stream(chk, 40 if quick else 400)
    d6 = mapping_stream(chk, 30 if quick else 300)
    chk.extra["distribution"] = {"pathfacts": d1, "rewrite": d2, "cli": d3, "cli_java": d4, "cli_prefix": d5, "cli_mapping": d6}
    chk.cov["rule"] = ("(1) std::path facts: generated pairs of path strings (tokens '/', '//', '.', '..', names, UTF-8, backslash; second operand a "
                       "re-spelt prefix/suffix of the first half of the time): components, join, starts_with, ends_with, strip_prefix, parent, ancestors, "
                       "normalize_path, has_no_parent through std::path/grcov vs Model/Paths.v vs the driver's reading of Appendix D (components, escape "
                       "criterion, normal form, idempotence). (2) rewrite_paths: generated trees (files present or not, symlinks, cwd), 1-4 underlying files in "
                       "up to 4 spellings each (18 spelling kinds), source dir / prefix dir / mapping on or off, 7 option variants per case (none, ignore G, keep G, "
                       "covered, uncovered, ignore-not-existing, random mix): implementation vs model (fed with the real globset verdicts) vs the property's "
                       "reading (presence iff filters, both partitions, data unchanged, normal form, source-relative, expected path by construction, escapes dropped). "
                       "(3) CLI: tracefiles with several spellings of 2-4 files, -s / -p on or off, and the reports of no filter, --ignore G, --keep-only G, --filter covered, "
                       "--filter uncovered, --ignore-not-existing compared as multisets of (path, merged data): both partitions, covered/uncovered reading on the "
                       "merged record (merge_same_paths runs before the filter), existence on disk, normal form. "
                       "(4) CLI, Java/Kotlin partial paths: source trees with 1-3 same-named .java/.kt files in different directories (and a sole file outside its package "
                       "directory), package-relative and full records, -s, and the reports of no glob / --ignore src/<d>/* / --keep-only src/<d>/*: unfiltered mapping, "
                       "then the glob partition (the --ignore half inside the known class ignore-prunes-partial-path-index must be exactly the recorded wrong output). "
                       "(5) CLI, -p prefixes that exist locally as a symlink, a relative path, with '..' or './' segments, or not at all: removed as the literal "
                       "leading components of the recorded paths, also when the records write the prefix part itself with '//' or '/./'. "
                       "(6) CLI, --path-mapping: keys and records that differ only in the case of the first letter (both directions) next to plain spellings, values either repository paths or build-machine paths under the -p prefix: reported under the mapped path with the prefix removed. "
                       "non-trivial = a rewrite case with at least one reported record that passed every oracle, or a facts pair on which model and std agree; distinct by content")
    chk.cov["trusted_base"] = ["Coq kernel; vm_compute for the correspondence",
                               "globset crate (its verdict on every candidate path enters the model as data; the theorems quantify over all verdict functions)",
                               "OS path resolution / fs::canonicalize (the model walks an explicit tree value; agreement is checked on generated trees incl. symlinks)",
                               "impl_run harness (materialises the tree, chdir, calls rewrite_paths), Python oracles",
                               "not modelled in Gallina: Java/Kotlin partial-path lookup (checked through the CLI only, against the driver's reading), Windows branches, Unicode case mapping of a non-ASCII first character in apply_mapping, exclusion markers (C16)"]
    chk.assumptions = ["keys, prefix dir and mapped values do not end in '/' or '/.' while naming a regular file (PathBuf keeps raw bytes; the model keeps components)",
                       "engine stream: no key has the extension java or kt when a source directory is given (map_partial_path is outside the model; it is exercised by the CLI stream); there, package-relative paths are unambiguous (at most one file ends with a given partial path), no hidden or symlinked directories",
                       "globs are valid (Glob::new(..).unwrap()), mapping values are JSON strings",
                       "symlink chains are shorter than the OS limit (the model's walk has fuel 4000 steps)"]


def replay(chk, path):
    r = json.load(open(path))
    if r.get("engine") == "rewrite" and "case" in r:
        rewrite_stream(chk, [r["case"]], "replay")
    elif r.get("engine") == "pathfacts" and "case" in r:
        c = r["case"]
        chk.rng.seed(0)
        pathgen_pairs = [(c["a"], c["b"])]
        orig = pathgen.facts_pairs
        pathgen.facts_pairs = lambda rng, n: pathgen_pairs
        try:
            facts_stream(chk, 1)
        finally:
            pathgen.facts_pairs = orig
    else:
        chk.proofs()
