"""C04 - LCOV input fidelity.  Proofs + parse_lcov correspondence (well-formed and malformed streams)
+ the property's own reading of the records evaluated on the implementation."""
import json
import vlib, gen, lcovgen


def is_utf8(b):
    try:
        b.decode("utf-8")
        return True
    except UnicodeDecodeError:
        return False


def mutate(rng, data):
    """malformed stream: truncation, token substitution, byte flips."""
    r = rng.random()
    if not data:
        return data
    if r < 0.35:
        return data[:rng.randrange(0, len(data))]
    if r < 0.7:
        toks = [b"", b"-", b"0", b",", b":", b"\n", b"\r", b"end_of_record", b"SF:", b"FN:", b"FNDA:", b"BRDA:", b"DA:",
                b"18446744073709551616", b"4294967296", b"99999999999999999999999", b"ABCDE:", b"e", b"\r\n", b"\xff", b"1,"]
        i = rng.randrange(0, len(data))
        j = min(len(data), i + rng.randrange(0, 4))
        return data[:i] + rng.choice(toks) + data[j:]
    b = bytearray(data)
    for _ in range(rng.randrange(1, 4)):
        b[rng.randrange(len(b))] = rng.choice([0, 10, 13, 44, 45, 48, 58, 65, 69, 101, 200, 255, rng.randrange(256)])
    return bytes(b)


def compare(chk, label, case, ri, rm, relevant=True):
    """model vs implementation on one input.  Returns a disagreement record or None."""
    a = lcovgen.results_from_impl(ri)
    if isinstance(rm, tuple) and rm and rm[0] == "@@ERROR":
        return {"case": case, "impl": a, "model": rm}
    m = lcovgen.results_from_coq(rm)
    if a[0] != m[0]:
        return {"case": case, "impl": a, "model": m}
    if a[0] == "ok" and relevant and vlib.canon(a[1]) != vlib.canon(m[1]):
        # names are bytes in the model and String::from_utf8_lossy in the implementation: a parser that cuts inside a
        # multi-byte character (a malformed record) leaves fragments that decode to U+FFFD - compared after the same decoding
        if vlib.canon(a[1]) != vlib.canon(lossy_names(m[1])):
            return {"case": case, "impl": a, "model": m}
    return None


def lossy(hexname):
    return bytes.fromhex(hexname).decode("utf-8", "replace").encode("utf-8").hex()


def lossy_names(results):
    out = []
    for n, c in results:
        c = dict(c, funcs=sorted([[lossy(f[0])] + list(f[1:]) for f in c["funcs"]], key=lambda x: bytes.fromhex(x[0])))
        out.append([lossy(n), c])
    return out


def run_wellformed(chk, files):
    cases, exprs = [], []
    for f in files:
        data = lcovgen.render_file(f)
        for b in (True, False):
            cases.append({"hex": data.hex(), "branch": b})
            exprs.append(vlib.app("run_lcov_spec", b, lcovgen.file_coq(f)))
    impl = vlib.run_impl("lcov", cases, chk.pid, parallel=4)
    model = vlib.run_model(chk.pid, "Run.Show", exprs)
    dist = {"files": len(files), "sections": 0, "records": 0, "crlf": 0, "known_fnda_first": 0, "dup_DA": 0,
            "saturating": 0, "brda_zero": 0, "wf": 0, "non_ascii_names": 0}
    disagreements = []
    known = {e["key"]: e for e in vlib.known_findings(chk.pid) if e.get("status") == "known"}
    idx = 0
    for f in files:
        data = lcovgen.render_file(f)
        kn = any(lcovgen.known_fnda_first(s) for s in f["sections"])
        for b in (True, False):
            ri, rm, case = impl[idx], model[idx], cases[idx]
            idx += 1
            chk.count()
            if isinstance(rm, tuple) and rm and rm[0] == "@@ERROR":
                disagreements.append({"case": case, "model": rm})
                continue
            mbytes, mwf, mknown, mparsed, mspec = rm
            if bytes(mbytes) != data:
                disagreements.append({"case": case, "what": "render_file differs from the driver's rendering",
                                      "model_bytes": bytes(mbytes).hex()})
                continue
            if not mwf:
                disagreements.append({"case": case, "what": "generated file is not wf_file in the model"})
                continue
            if mknown != kn:
                disagreements.append({"case": case, "what": "KnownClass_fnda_first differs between model and driver"})
                continue
            a = lcovgen.results_from_impl(ri)
            # (1) model of the parser vs implementation
            d = compare(chk, "wf", case, ri, mparsed)
            if d:
                disagreements.append(d)
            # (2) the property, evaluated on the implementation
            ref = [[s["name"].hex(), lcovgen.ref_section(s, b)] for s in f["sections"]]
            if kn:
                if a[0] == "err" and "fnda-before-fn" in known:
                    chk.known(known["fnda-before-fn"])
                elif a[0] != "ok" or vlib.canon(a[1]) != vlib.canon(ref):
                    chk.violation({"kind": "oracle", "engine": "lcov", "case": case, "text": data.decode("latin-1"),
                                   "impl": a, "expected": ref, "clause": "section with FNDA before FN: neither the recorded known finding (whole file rejected) nor the right result"}, tag="wf")
                continue
            if a[0] != "ok" or vlib.canon(a[1]) != vlib.canon(ref):
                chk.violation({"kind": "oracle", "engine": "lcov", "case": case, "text": data.decode("latin-1"),
                               "impl": a, "expected": ref,
                               "clause": "parse_lcov of a well-formed tracefile must yield exactly what the records say"}, tag="wf")
                continue
            # (3) the Coq spec (denote) agrees with the driver's reference
            sp = [[bytes(n).hex(), gen.cov_from_coq(c)] for n, c in mspec]
            if vlib.canon(sp) != vlib.canon(ref):
                disagreements.append({"case": case, "what": "Coq denote differs from the driver's reference", "spec": sp, "ref": ref})
                continue
            chk.nontrivial(case)
            if b:
                chk.sample({"lcov": data.decode("latin-1")[:400], "branch": b, "result": a[1]}, limit=3)
        # distribution
        dist["sections"] += len(f["sections"])
        dist["known_fnda_first"] += kn
        for s in f["sections"]:
            dist["records"] += len(s["recs"])
            dist["crlf"] += any(c for _, c in s["recs"])
            das = [int(r[1]) for r, _ in s["recs"] if r[0] == "DA"]
            dist["dup_DA"] += len(das) != len(set(das))
            tot = {}
            for r, _ in s["recs"]:
                if r[0] == "DA":
                    tot[int(r[1])] = tot.get(int(r[1]), 0) + int(r[2])
            dist["saturating"] += any(v > gen.U64 for v in tot.values())
            dist["brda_zero"] += any(r[0] == "BRDA" and r[4] is not None and int(r[4]) == 0 for r, _ in s["recs"])
            dist["non_ascii_names"] += any(max(r[2]) > 127 for r, _ in s["recs"] if r[0] in ("FN", "FNDA") and r[2])
    return dist, disagreements


def run_malformed(chk, files, n):
    rng = chk.rng
    cases, exprs = [], []
    for i in range(n):
        data = mutate(rng, lcovgen.render_file(rng.choice(files)))
        if rng.random() < 0.3:
            data = mutate(rng, data)
        b = rng.random() < 0.7
        cases.append({"hex": data.hex(), "branch": b})
    impl = vlib.run_impl("lcov", cases, chk.pid, parallel=4)
    # the model is not evaluated where it would build the same giant vector as the implementation: decided by the text
    # (huge branch number) or by what the implementation reported (the number can be hidden, e.g. split by a CR LF)
    skip = [lcovgen.model_unfriendly(bytes.fromhex(c["hex"])) or "huge_branch_vector" in ri or "crash" in ri for c, ri in zip(cases, impl)]
    exprs = [vlib.app("run_lcov", c["branch"], list(bytes.fromhex(c["hex"]))) if not sk else "0" for c, sk in zip(cases, skip)]
    model = vlib.run_model(chk.pid, "Run.Show", exprs)
    classes = {}
    disagreements = []
    known = {e["key"]: e for e in vlib.known_findings(chk.pid) if e.get("status") == "known"}
    for case, ri, rm, sk in zip(cases, impl, model, skip):
        chk.count()
        data = bytes.fromhex(case["hex"])
        a = lcovgen.results_from_impl(ri)
        classes[a[0]] = classes.get(a[0], 0) + 1
        if a[0] == "huge" and "lcov-branch-number-alloc" in known:
            chk.known(known["lcov-branch-number-alloc"])
            continue
        if a[0] == "crash" and "lcov-branch-number-alloc" in known and \
           (lcovgen.huge_branch_number(data) or ("memory allocation of" in str(ri) and "parser::add_branch" in str(ri))):
            chk.known(known["lcov-branch-number-alloc"])
            continue
        if a[0] in ("panic", "crash"):
            chk.violation({"kind": "oracle", "engine": "lcov", "case": case, "text": data.decode("latin-1"), "impl": a,
                           "clause": "malformed lcov input must give a result or an error, never a panic"}, tag="mal")
            continue
        if sk:
            continue      # the Gallina model would build the same giant vector
        # names are modelled as bytes; from_utf8_lossy is outside the model, so results are compared
        # only when the input is valid UTF-8 (outcome class is compared always)
        d = compare(chk, "mal", case, ri, rm, relevant=is_utf8(data))
        if d:
            disagreements.append(d)
        else:
            chk.nontrivial(case)
    return classes, disagreements


def run(chk):
    chk.proofs()
    nf = 350 if chk.tier == "quick" else 6000
    nm = 500 if chk.tier == "quick" else 10000
    corpus = load_corpus()
    files = corpus + [lcovgen.gen_file(chk.rng) for _ in range(nf)]
    dist, dis1 = run_wellformed(chk, files)
    classes, dis2 = run_malformed(chk, files, nm)
    for d in (dis1 + dis2)[:3]:
        d.update({"kind": "correspondence", "engine": "lcov",
                  "theorems_at_stake": "C04_* / C14 lcov (Model/Lcov.v no longer describes parse_lcov, or Model/LcovSpec.v the generator)"})
        chk.violation(d, has_input=False, tag="corr")
    chk.extra["distribution"] = dist
    chk.extra["malformed_outcomes"] = classes
    chk.cov["rule"] = ("well-formed stream: random tracefiles built from records (1-3 sections, 0-13 records in arbitrary order, duplicate DA/BRDA, "
                       "negative counts, BRDA '-', 0, 00, n; leading zeros; LF/CRLF/mixed; TN/LF/LH/VER/MCDC and unused S/D/F/B keys; UTF-8 names with "
                       "commas), each parsed with branch parsing on and off: implementation vs Gallina parse_lcov vs Gallina denote vs the driver's reference "
                       "reading; malformed stream: truncations, token substitutions and byte flips of those files, implementation vs Gallina parse_lcov "
                       "(outcome class always, results when the bytes are valid UTF-8); non-trivial = agreed on all comparisons; distinct by input bytes")
    chk.cov["trusted_base"] = ["Coq 8.16.1 kernel; vm_compute for the correspondence", "std++ gmap", "impl_run harness, Python renderer/reference",
                               "modelled: Peekable<Iter<u8>>::take_while consumption, release-mode wrapping folds; String::from_utf8_lossy not modelled (names compared on valid UTF-8 only)"]
    chk.assumptions = ["release-mode arithmetic (overflow checks off) is the reference semantics",
                       "the FNDA-before-FN class is a recorded known finding and excluded from the soundness theorem"]


def load_corpus():
    import os
    p = os.path.join(vlib.VERIF, "corpus", "C04", "files.json")
    if not os.path.exists(p):
        return []
    out = []
    for f in json.load(open(p)):
        out.append(decode_file(f))
    return out


def decode_file(f):
    def rec(r):
        return tuple(bytes.fromhex(x) if isinstance(x, str) and i > 0 else x for i, x in enumerate(r))
    return {"sections": [{"pre": [(rec(r), c) for r, c in s["pre"]], "name": bytes.fromhex(s["name"]), "name_crlf": s["name_crlf"],
                          "recs": [(rec(r), c) for r, c in s["recs"]], "end_crlf": s["end_crlf"]} for s in f["sections"]],
            "trailer": [(rec(r), c) for r, c in f["trailer"]]}


def replay(chk, path):
    r = json.load(open(path))
    if "case" in r and "hex" in r["case"]:
        case = r["case"]
        impl = vlib.run_impl("lcov", [case], chk.pid)
        model = vlib.run_model(chk.pid, "Run.Show", [vlib.app("run_lcov", case["branch"], list(bytes.fromhex(case["hex"])))])
        chk.count()
        a = lcovgen.results_from_impl(impl[0])
        if a[0] in ("panic", "crash"):
            chk.violation({"kind": "oracle", "case": case, "impl": a, "clause": "panic"}, tag="replay")
        d = compare(chk, "replay", case, impl[0], model[0])
        if d:
            chk.violation(dict(d, kind="correspondence"), has_input=False, tag="replay")
        if "expected" in r and (a[0] != "ok" or vlib.canon(a[1]) != vlib.canon(r["expected"])):
            chk.violation({"kind": "oracle", "case": case, "impl": a, "expected": r["expected"], "clause": r.get("clause")}, tag="replay")
    else:
        chk.proofs()
