"""C05 - LCOV fixed point.  Proofs + output_lcov/parse_lcov round-trip correspondence + CLI iteration."""
import json, os
import vlib, gen, pipeline


def gen_results(rng):
    n = rng.choice([0, 1, 1, 2, 3, 5])
    paths = rng.sample(gen.PATHS, min(n, len(gen.PATHS)))
    return [[gen.hexname(p), gen.cov(rng, max_lines=6)] for p in paths]


def records(data):
    """an lcov report as a canonical list of sections, each a sorted list of lines"""
    secs, cur = [], None
    for line in data.split(b"\n"):
        if line.startswith(b"SF:"):
            cur = [line]
        elif cur is not None:
            if line.startswith(b"end_of_record"):
                secs.append(sorted(cur))
                cur = None
            else:
                cur.append(line)
    return sorted(secs)


def evaluate(chk, cases, label):
    impl = vlib.run_impl("lcov_rt", cases, chk.pid, parallel=4)
    exprs = [vlib.app("run_rt", c["k"], c["branch"], [(list(bytes.fromhex(n)), gen.cov_coq(cv)) for n, cv in c["results"]]) if c.get("model", True) else "0" for c in cases]
    model = vlib.run_model(chk.pid, "Run.Show", exprs)
    dis = []
    dist = {"non_ascii": 0, "with_branches": 0, "saturated": 0, "empty": 0}
    for c, ri, rm in zip(cases, impl, model):
        chk.count()
        rs = [[n, gen.cov_canon(cv)] for n, cv in c["results"]]
        if "ok" not in ri:
            chk.violation({"kind": "oracle", "engine": "lcov_rt", "case": c, "impl": ri, "clause": "grcov must re-import its own lcov report"}, tag=label)
            continue
        got = [[n, gen.cov_canon(cv)] for n, cv in ri["ok"]]
        want = rs if c["branch"] else [[n, dict(cv, branches=[])] for n, cv in rs]
        if vlib.canon(got) != vlib.canon(want):
            chk.violation({"kind": "oracle", "engine": "lcov_rt", "case": c, "impl": got, "expected": want,
                           "clause": "re-import after %d round trip(s) must reproduce the same files with the same DA/BRDA/FN/FNDA facts" % c["k"]}, tag=label)
            continue
        outs = [records(bytes.fromhex(o)) for o in ri["outs"]]
        if c["branch"] and any(o != outs[0] for o in outs[1:]):
            chk.violation({"kind": "oracle", "engine": "lcov_rt", "case": c, "clause": "re-exported report differs from the first export (as record sets, summary lines included)",
                           "first": bytes.fromhex(ri["outs"][0]).decode("latin-1"), "later": [bytes.fromhex(o).decode("latin-1") for o in ri["outs"][1:]]}, tag=label)
            continue
        if not c.get("model", True):
            chk.nontrivial(["long-vector", c["k"], c["branch"], [len(v) for _, cv in rs for _, v in cv["branches"]]])
            continue
        if isinstance(rm, tuple) and rm and rm[0] == "@@ERROR":
            dis.append({"case": c, "model": rm})
            continue
        mouts, mres = rm
        import lcovgen
        mr = lcovgen.results_from_coq(mres)
        if mr[0] != "ok" or vlib.canon(mr[1]) != vlib.canon(got) or [records(bytes(o)) for o in mouts] != outs:
            dis.append({"case": c, "impl": {"results": got, "first_out": bytes.fromhex(ri["outs"][0]).decode("latin-1")},
                        "model": {"results": mr, "first_out": bytes(mouts[0]).decode("latin-1") if mouts else None}})
            continue
        dist["non_ascii"] += any(max(bytes.fromhex(n) or b"\0") > 127 for n, _ in rs)
        dist["with_branches"] += any(cv["branches"] for _, cv in rs)
        dist["saturated"] += any(x[1] == gen.U64 for _, cv in rs for x in cv["lines"])
        dist["empty"] += not rs
        if rs:
            chk.nontrivial(c)
        chk.sample({"report": bytes.fromhex(ri["outs"][0]).decode("latin-1")[:300], "k": c["k"]}, limit=2)
    for d in dis[:3]:
        d.update({"kind": "correspondence", "engine": "lcov_rt", "theorems_at_stake": "C05_* (Model/LcovOut.v or Model/Lcov.v no longer describe output_lcov / parse_lcov)"})
        chk.violation(d, has_input=False, tag=label + "-corr")
    return dist


def cli_iteration(chk, n):
    """grcov in -t lcov > r1; grcov r1 -t lcov > r2; ... all reports equal as record sets"""
    rng = chk.rng
    for i in range(n):
        root = vlib.scratch("c05_%d" % i)
        blobs = [pipeline.make_info(rng, j, ["src/a.c", "b.c", "lib/é.rs"]) for j in range(rng.randrange(1, 5))]
        args = pipeline.lay_out(rng, os.path.join(root, "in"), blobs)
        branch = rng.random() < 0.7
        prev = None
        cur_args = args
        for k in range(rng.choice([2, 3, 4])):
            rc, out, err = pipeline.run_cli(cur_args, rng.choice([1, 2, 4]), branch, cwd=root)
            chk.count()
            if rc != 0:
                chk.violation({"kind": "oracle", "engine": "cli", "clause": "re-import run failed", "status": rc, "stderr": err[-500:], "round": k}, tag="cli")
                break
            if prev is not None and records(out) != records(prev):
                chk.violation({"kind": "oracle", "engine": "cli", "clause": "report after re-import differs from the report it was made from",
                               "round": k, "inputs": [b.decode() for b in blobs], "before": prev.decode("latin-1"), "after": out.decode("latin-1")}, tag="cli")
                break
            prev = out
            p = os.path.join(root, "r%d.info" % k)
            open(p, "wb").write(out)
            cur_args = [p]
        else:
            chk.nontrivial(["cli", i])


SRC_TREE = ["src/a.c", "src/gen/x.c", "lib/y.c", "gen/z.c", "src/deep/er/w.c"]


BUILD_PREFIX = "/builds/worker/checkouts"


MISSING = ["gone/q.c", "src/gen/missing.c"]


def spellings(rng, root, rel, late=False):
    """ways an input can name the source file <root>/proj/<rel> (all of them end up as the same report path under -s <root>/proj).
    late: only spellings that reach the rewriting step unnormalised (add_results cannot canonicalise them)"""
    d, b = os.path.split(rel)
    other = "lib" if not rel.startswith("lib") else "src"
    if rel in MISSING:
        # a file that is not on disk is only normalised textually, at the very end of the rewriting
        out = [rel, d + "/./" + b, d + "//" + b, other + "/../" + rel, "./" + rel]
        return rng.choice(out[1:] if late else out)
    if late:
        return "proj/" + rel
    out = [rel, rel, os.path.join(root, "proj", rel), "proj/" + rel, d + "/./" + b, d + "//" + b, other + "/../" + rel,
           rel.replace("/", "\\"), ("proj/" + rel).replace("/", "\\"), (other + "/../" + rel).replace("/", "\\")]      # as written on Windows
    return rng.choice(out)


def strip_sf(recs, sub):
    """record sets with the SF paths that start with sub + '/' shortened by it (the effect of the known class below)"""
    out = []
    for sec in recs:
        sec2 = []
        for l in sec:
            if l.startswith(b"SF:" + sub.encode() + b"/"):
                l = b"SF:" + l[4 + len(sub):]
            sec2.append(l)
        out.append(sorted(sec2))
    return sorted(out)


def option_chain(chk, root, blobs, opts, branch, threads, known):
    """grcov in OPTS > r1; grcov r1 OPTS > r2; grcov r2 OPTS > r3: all equal as record sets.  Returns the last report or None."""
    ind = os.path.join(root, "in")
    os.makedirs(ind, exist_ok=True)
    for j, b in enumerate(blobs):
        open(os.path.join(ind, "i%d.info" % j), "wb").write(b)
    # known class C05/prefix-dir-inside-source-dir: -p names a directory strictly inside the -s directory
    sdir = opts[opts.index("-s") + 1]
    pdir = opts[opts.index("-p") + 1] if "-p" in opts else None
    inside = pdir.startswith(sdir + "/") if pdir else False
    prev, cur_args = None, [ind]
    for k in range(3):
        rc, out, err = pipeline.run_cli(cur_args, threads[k % len(threads)], branch, cwd=root, extra=opts)
        chk.count()
        hist = {"inputs": [b.decode() for b in blobs], "options": [o.replace(root, "<root>") for o in opts], "tree": SRC_TREE, "round": k}
        if rc != 0:
            chk.violation(dict(hist, kind="oracle", engine="cli", clause="re-import run failed", status=rc, stderr=err[-500:]), tag="cli-opts")
            return None
        if prev is not None and records(out) != records(prev):
            if inside and "prefix-dir-inside-source-dir" in known and records(out) == strip_sf(records(prev), pdir[len(sdir) + 1:]):
                chk.known(known["prefix-dir-inside-source-dir"])
            else:
                chk.violation(dict(hist, kind="oracle", engine="cli", clause="with the same filtering and path options, the report after re-import differs from the report it was made from",
                                   before=prev.decode("latin-1"), after=out.decode("latin-1")), tag="cli-opts")
                return None
        prev = out
        p = os.path.join(root, "r%d.info" % k)
        open(p, "wb").write(out)
        cur_args = [p]
    return prev


def make_tree(root):
    for rel in SRC_TREE:
        os.makedirs(os.path.dirname(os.path.join(root, "proj", rel)), exist_ok=True)
        open(os.path.join(root, "proj", rel), "w").write("int x;\n" * 12)


def cli_options_iteration(chk, n):
    """the same chain with filtering and path options: the options decide on some spelling of a path; whatever they decided
    for r1 must be what they decide on r1's own paths."""
    rng = chk.rng
    used = {}
    known = {e["key"]: e for e in vlib.known_findings(chk.pid) if e.get("status") == "known"}
    # fixed witness of the known class (every run)
    root = vlib.scratch("c05o_w")
    make_tree(root)
    option_chain(chk, root, [b"SF:proj/src/gen/x.c\nDA:1,1\nDA:2,0\nend_of_record\n"],
                 ["-s", os.path.join(root, "proj"), "-p", os.path.join(root, "proj", "src")], True, [1], known)
    for i in range(n):
        root = vlib.scratch("c05o_%d" % i)
        make_tree(root)
        opts = ["-s", os.path.join(root, "proj")]
        # the glob options aim at the directory of one file, which at least one input names in a spelling that only the
        # rewriting step itself normalises
        target = rng.choice(SRC_TREE + MISSING)
        tdir = os.path.dirname(target)
        r = rng.random()
        if r < 0.45:
            opts += ["--ignore", rng.choice([tdir + "/*", tdir + "/*", "src/gen/*", "gen/*", "lib/*", "src/deep/**", "src/*"])]
        elif r < 0.8:
            opts += ["--keep-only", rng.choice([tdir + "/*", "src/*", "src/gen/*", "lib/*", "gen/*", "**/er/*"])]
        if rng.random() < 0.3:
            opts += ["--ignore-not-existing"]
        if rng.random() < 0.2:
            opts += ["--filter", rng.choice(["covered", "uncovered"])]
        pre = None
        if rng.random() < 0.3:
            pre = rng.choice(["proj", BUILD_PREFIX, BUILD_PREFIX])      # a -p inside -s is the known class: witness above only
            opts += ["-p", pre]
        blobs = []
        for j in range(rng.randrange(1, 4)):
            names = [spellings(rng, root, rel) for rel in rng.sample(SRC_TREE + MISSING, rng.randrange(1, 4))]
            if pre == BUILD_PREFIX:
                names = [BUILD_PREFIX + "/" + nm if not nm.startswith("/") and rng.random() < 0.6 else nm for nm in names]
            blobs.append(pipeline.make_info(rng, j, names, repeat_sf=0.0))
        late = spellings(rng, root, target, late=True)
        blobs.append(pipeline.make_info(rng, 9, [BUILD_PREFIX + "/" + late if pre == BUILD_PREFIX and rng.random() < 0.5 else late], repeat_sf=0.0))
        for o in opts:
            if o.startswith("--") or o in ("-s", "-p"):
                used[o] = used.get(o, 0) + 1
        last = option_chain(chk, root, blobs, opts, rng.random() < 0.7, [rng.choice([1, 2, 4]) for _ in range(3)], known)
        if last is not None:
            chk.nontrivial(["cli-opts", i, len(records(last))])
    return used


def run(chk):
    chk.proofs()
    n = 300 if chk.tier == "quick" else 5000
    cases = [{"results": gen_results(chk.rng), "branch": chk.rng.random() < 0.75, "k": chk.rng.choice([1, 2, 3])} for _ in range(n)]
    # long branch vectors (a generated switch, JaCoCo's per-line counters): grcov writes BRDA numbers as large as the vector is long
    # and must read them all back; the lengths sit around powers of two.  The model runs the short ones only.
    lens = [255, 256, 257, 1023, 1024, 1025, 1500, 4095, 4096, 4097] + ([] if chk.tier == "quick" else [65535, 65536, 65537, 100000])
    for ln in lens:
        rng = chk.rng
        v = [rng.random() < 0.5 for _ in range(ln)]
        v[-1] = rng.random() < 0.7
        cv = {"lines": [[7, 3]], "branches": [[7, v], [9, [True, False]]], "funcs": []}
        cases.append({"results": [[gen.hexname("src/big_switch.c"), cv]], "branch": True, "k": rng.choice([1, 2]), "model": ln <= 1100})
    dist = evaluate(chk, cases, "gen")
    cli_iteration(chk, 6 if chk.tier == "quick" else 80)
    dist["cli_option_chains"] = cli_options_iteration(chk, 24 if chk.tier == "quick" else 300)
    chk.extra["distribution"] = dist
    chk.cov["rule"] = ("random result sets (0-5 files, UTF-8 paths and function names with commas, boundary counts, vectors of length 1-6) written by output_lcov and "
                       "re-read by parse_lcov k = 1..3 times in-process: implementation vs Gallina output_lcov/parse_lcov (reports compared as record sets, results exactly) "
                       "and the round-trip property evaluated on the implementation; plus CLI chains grcov in -> r1 -> r2 -> .. (2-4 rounds, 1-4 threads), without options and with -s plus --ignore / --keep-only / --ignore-not-existing / --filter / -p over inputs that spell the source files in several ways (absolute, ./, //, .., parent-relative); "
                       "non-trivial = non-empty result set that agreed everywhere; distinct by content")
    chk.cov["trusted_base"] = ["Coq kernel; vm_compute for the correspondence", "std++ gmap (map_to_list order differs from the implementation's hash-map order: reports compared as record sets)",
                               "impl_run harness, Python record reader", "demangling disabled (the property's own proviso)"]
    chk.assumptions = ["paths and function names contain no CR/LF (the property's hypothesis)", "the path rewriting function itself is proved and compared in C11; here the options are only required to be idempotent over a re-import"]


def replay(chk, path):
    r = json.load(open(path))
    if "case" in r and "results" in r["case"]:
        evaluate(chk, [r["case"]], "replay")
    else:
        chk.proofs()
