"""C05 - LCOV fixed point.  Proofs + output_lcov/parse_lcov round-trip correspondence + CLI iteration."""
import json, os
import vlib, gen, pipeline


def gen_results(rng):
    n = rng.choice([0, 1, 1, 2, 3, 5])
    paths = rng.sample(gen.PATHS, min(n, len(gen.PATHS)))
    return [[gen.hexname(p), gen.cov(rng, max_lines=6)] for p in paths]


def records(data):
    """an lcov report as a canonical list of sections, each a sorted list of lines"""
    secs, cur = [], None
    for line in data.split(b"\n"):
        if line.startswith(b"SF:"):
            cur = [line]
        elif cur is not None:
            if line.startswith(b"end_of_record"):
                secs.append(sorted(cur))
                cur = None
            else:
                cur.append(line)
    return sorted(secs)


def evaluate(chk, cases, label):
    impl = vlib.run_impl("lcov_rt", cases, chk.pid, parallel=4)
    exprs = [vlib.app("run_rt", c["k"], c["branch"], [(list(bytes.fromhex(n)), gen.cov_coq(cv)) for n, cv in c["results"]]) for c in cases]
    model = vlib.run_model(chk.pid, "Run.Show", exprs)
    dis = []
    dist = {"non_ascii": 0, "with_branches": 0, "saturated": 0, "empty": 0}
    for c, ri, rm in zip(cases, impl, model):
        chk.count()
        rs = [[n, gen.cov_canon(cv)] for n, cv in c["results"]]
        if "ok" not in ri:
            chk.violation({"kind": "oracle", "engine": "lcov_rt", "case": c, "impl": ri, "clause": "grcov must re-import its own lcov report"}, tag=label)
            continue
        got = [[n, gen.cov_canon(cv)] for n, cv in ri["ok"]]
        want = rs if c["branch"] else [[n, dict(cv, branches=[])] for n, cv in rs]
        if vlib.canon(got) != vlib.canon(want):
            chk.violation({"kind": "oracle", "engine": "lcov_rt", "case": c, "impl": got, "expected": want,
                           "clause": "re-import after %d round trip(s) must reproduce the same files with the same DA/BRDA/FN/FNDA facts" % c["k"]}, tag=label)
            continue
        outs = [records(bytes.fromhex(o)) for o in ri["outs"]]
        if c["branch"] and any(o != outs[0] for o in outs[1:]):
            chk.violation({"kind": "oracle", "engine": "lcov_rt", "case": c, "clause": "re-exported report differs from the first export (as record sets, summary lines included)",
                           "first": bytes.fromhex(ri["outs"][0]).decode("latin-1"), "later": [bytes.fromhex(o).decode("latin-1") for o in ri["outs"][1:]]}, tag=label)
            continue
        if isinstance(rm, tuple) and rm and rm[0] == "@@ERROR":
            dis.append({"case": c, "model": rm})
            continue
        mouts, mres = rm
        import lcovgen
        mr = lcovgen.results_from_coq(mres)
        if mr[0] != "ok" or vlib.canon(mr[1]) != vlib.canon(got) or [records(bytes(o)) for o in mouts] != outs:
            dis.append({"case": c, "impl": {"results": got, "first_out": bytes.fromhex(ri["outs"][0]).decode("latin-1")},
                        "model": {"results": mr, "first_out": bytes(mouts[0]).decode("latin-1") if mouts else None}})
            continue
        dist["non_ascii"] += any(max(bytes.fromhex(n) or b"\0") > 127 for n, _ in rs)
        dist["with_branches"] += any(cv["branches"] for _, cv in rs)
        dist["saturated"] += any(x[1] == gen.U64 for _, cv in rs for x in cv["lines"])
        dist["empty"] += not rs
        if rs:
            chk.nontrivial(c)
        chk.sample({"report": bytes.fromhex(ri["outs"][0]).decode("latin-1")[:300], "k": c["k"]}, limit=2)
    for d in dis[:3]:
        d.update({"kind": "correspondence", "engine": "lcov_rt", "theorems_at_stake": "C05_* (Model/LcovOut.v or Model/Lcov.v no longer describe output_lcov / parse_lcov)"})
        chk.violation(d, has_input=False, tag=label + "-corr")
    return dist


def cli_iteration(chk, n):
    """grcov in -t lcov > r1; grcov r1 -t lcov > r2; ... all reports equal as record sets"""
    rng = chk.rng
    for i in range(n):
        root = vlib.scratch("c05_%d" % i)
        blobs = [pipeline.make_info(rng, j, ["src/a.c", "b.c", "lib/é.rs"]) for j in range(rng.randrange(1, 5))]
        args = pipeline.lay_out(rng, os.path.join(root, "in"), blobs)
        branch = rng.random() < 0.7
        prev = None
        cur_args = args
        for k in range(rng.choice([2, 3, 4])):
            rc, out, err = pipeline.run_cli(cur_args, rng.choice([1, 2, 4]), branch, cwd=root)
            chk.count()
            if rc != 0:
                chk.violation({"kind": "oracle", "engine": "cli", "clause": "re-import run failed", "status": rc, "stderr": err[-500:], "round": k}, tag="cli")
                break
            if prev is not None and records(out) != records(prev):
                chk.violation({"kind": "oracle", "engine": "cli", "clause": "report after re-import differs from the report it was made from",
                               "round": k, "inputs": [b.decode() for b in blobs], "before": prev.decode("latin-1"), "after": out.decode("latin-1")}, tag="cli")
                break
            prev = out
            p = os.path.join(root, "r%d.info" % k)
            open(p, "wb").write(out)
            cur_args = [p]
        else:
            chk.nontrivial(["cli", i])


def run(chk):
    chk.proofs()
    n = 300 if chk.tier == "quick" else 5000
    cases = [{"results": gen_results(chk.rng), "branch": chk.rng.random() < 0.75, "k": chk.rng.choice([1, 2, 3])} for _ in range(n)]
    dist = evaluate(chk, cases, "gen")
    cli_iteration(chk, 6 if chk.tier == "quick" else 80)
    chk.extra["distribution"] = dist
    chk.cov["rule"] = ("random result sets (0-5 files, UTF-8 paths and function names with commas, boundary counts, vectors of length 1-6) written by output_lcov and "
                       "re-read by parse_lcov k = 1..3 times in-process: implementation vs Gallina output_lcov/parse_lcov (reports compared as record sets, results exactly) "
                       "and the round-trip property evaluated on the implementation; plus CLI chains grcov in -> r1 -> r2 -> .. (2-4 rounds, 1-4 threads); "
                       "non-trivial = non-empty result set that agreed everywhere; distinct by content")
    chk.cov["trusted_base"] = ["Coq kernel; vm_compute for the correspondence", "std++ gmap (map_to_list order differs from the implementation's hash-map order: reports compared as record sets)",
                               "impl_run harness, Python record reader", "demangling disabled (the property's own proviso)"]
    chk.assumptions = ["paths and function names contain no CR/LF (the property's hypothesis)", "path rewriting options are exercised by C11, not here"]


def replay(chk, path):
    r = json.load(open(path))
    if "case" in r and "results" in r["case"]:
        evaluate(chk, [r["case"]], "replay")
    else:
        chk.proofs()
