"""C18 generators: hostile / benign strings of printable Unicode, report cases with hostile names, and the
benign report of the same shape."""
import unicodedata

META = ["&", "<", ">", '"', "'", "/", "\\", ";", "#", "=", " ", "`", "{{", "}}", "{%", "%}", "<!--", "-->", "]]>",
        "<![CDATA[", "&amp;", "&lt;", "&quot;", "&#x27;", "&#60;", "\\u0022", '\\"', "\\\\", "%22", "javascript:", "&#", "&;",
        "\\u", "\\", "\\n", "${x}", "<?", "?>", "<!DOCTYPE x>", ",", ":", "{", "}", "[", "]"]
PAYLOADS = ['"><script>alert(1)</script>', "'><img src=x onerror=alert(1)>", "</pre><script>alert(1)</script>",
            '","name":"x', '"}],"x":[{"', '\\",\\"a\\":\\"', "--><svg onload=alert(1)>", "</title><script>alert(1)</script>",
            ']]></source><x a="1"/>', '" onmouseover="alert(1)', "' onmouseover='alert(1)", "a&b<c>'d\"", "{{ 7*7 }}", "{% include \"x\" %}",
            "<a href=\"javascript:alert(1)\">x</a>", "&lt;already&gt;", "</li></ul></nav><h1>x</h1>", '\\"}', "\\", '"', "&", "<", "'"]
NONASCII = ["é", "ü", "ß", "日本語", "😀", " ", " ", "é", "אב", "＜script＞", "﹤", "‹", "Ω", "ı", "\U0001f468‍", "ǅ", "ﬁ", "𝔘",
"“quoted”", "‘x’", "«»", "¬", "　"]
BENIGN = ["main", "foo", "lib", "src", "util", "x1", "hello_world", "Test", "a.b", "README", "mod.rs", "f", "g2", "core"]
OK_CATS_ = {"Lu", "Ll", "Lt", "Lm", "Lo", "Mn", "Mc", "Me", "Nd", "Nl", "No", "Pc", "Pd", "Ps", "Pe", "Pi", "Pf", "Po",
           "Sm", "Sc", "Sk", "So", "Zs"}
RANGES = [(0x20, 0x7e), (0xa0, 0x24f), (0x370, 0x3ff), (0x400, 0x4ff), (0x5d0, 0x5ea), (0x600, 0x6ff), (0x900, 0x97f),
          (0x2000, 0x206f), (0x2190, 0x21ff), (0x3040, 0x30ff), (0x4e00, 0x4fff), (0xac00, 0xacff), (0xff00, 0xffef),
          (0x1f300, 0x1f64f), (0x1d400, 0x1d4ff), (0x20000, 0x200ff)]


OK_CATS = OK_CATS_


def printable(ch):
    return unicodedata.category(ch) in OK_CATS


def in_domain(s):
    return all(printable(c) for c in s)


NONASCII = [s for s in NONASCII if s and in_domain(s)]


def rand_char(rng):
    while True:
        lo, hi = rng.choice(RANGES) if rng.random() < 0.8 else (0x20, 0x7e)
        ch = chr(rng.randrange(lo, hi + 1))
        if printable(ch):
            return ch


def hostile(rng, maxlen=60):
    """a string of printable Unicode characters, biased to metacharacters."""
    r = rng.random()
    if r < 0.12:
        s = rng.choice(PAYLOADS)
    elif r < 0.2:
        s = rng.choice(BENIGN)
    else:
        parts = []
        for _ in range(rng.randrange(1, 9)):
            q = rng.random()
            if q < 0.4:
                parts.append(rng.choice(META))
            elif q < 0.55:
                parts.append(rng.choice(NONASCII))
            elif q < 0.7:
                parts.append(rng.choice(BENIGN))
            elif q < 0.8:
                parts.append(rng.choice(PAYLOADS))
            else:
                parts.append("".join(rand_char(rng) for _ in range(rng.randrange(1, 6))))
        s = "".join(parts)
    if rng.random() < 0.04:
        s = (s or "x") * (1 + maxlen * 4 // max(1, len(s)))
        return s[:maxlen * 4]
    return s[:maxlen] if rng.random() < 0.9 else s


def fit_utf8(s, maxbytes):
    while len(s.encode()) > maxbytes:
        s = s[:-1]
    return s


def component(rng, used, ext_bias=0.6):
    """a file-system path component: hostile string without '/', not '.'/'..', <= 200 bytes, new in this case."""
    for _ in range(100):
        s = hostile(rng, 40).replace("/", rng.choice(["", "\\", "⁄", "_"]))
        s = fit_utf8(s, 200)
        if rng.random() < ext_bias and not s.endswith("."):
            s += rng.choice([".c", ".rs", ".h<T>", ".\"x", ".c&v"])
        if s and s not in (".", "..") and s not in used and (s + ".html") not in used and (s + "..html") not in used:
            used.add(s)
            return s
    raise RuntimeError("no component")


MANGLED = ["_ZN3foo3barEv", "_ZN3fooIcE3barEv", "_ZN4core3fmt5Write9write_fmt17h0123456789abcdefE", "_RNvCs1234_5crate4main",
           "?f@@YAHH@Z", "_Z1fIiEvT_", "_ZlsRSoRK1A"]


def has_ext(name):
    """Rust Path::extension() is Some for this file name."""
    if name == "..":
        return False
    i = name.rfind(".")
    return i > 0


def stem(name):
    """Rust Path::file_stem() of a file name."""
    if name == "..":
        return name
    i = name.rfind(".")
    return name if i <= 0 else name[:i]


def gen_case(rng, tier_big=False):
    """files: [{"comps": [..], "lines": [..source lines..], "cov": ..., "funcs": [names]}]"""
    used = set()
    nd = rng.randrange(1, 4)
    dirs = []
    for _ in range(nd):
        depth = rng.choice([0, 1, 1, 1, 2, 3])
        base = rng.choice(dirs)[:] if dirs and rng.random() < 0.3 else []
        d = base + [component(rng, used, 0.15) for _ in range(depth)]
        dirs.append(d)
    files = []
    for _ in range(rng.randrange(1, 5)):
        d = rng.choice(dirs)
        name = component(rng, used)
        nlines = rng.randrange(0, 7)
        lines = []
        for _ in range(nlines):
            l = hostile(rng, 80) if rng.random() < 0.85 else ""
            lines.append(l)
        while lines and lines[-1] == "":
            lines.pop()          # str::lines() drops a trailing empty line
        pool = list(range(1, nlines + 2))
        cl = sorted(rng.sample(pool, rng.randrange(0, len(pool) + 1)))
        cov_lines = [[l, rng.choice([0, 0, 1, 3, 2**32, 2**63 - 1, 2**64 - 1, 7])] for l in cl]
        bl = sorted(rng.sample(pool, rng.randrange(0, min(3, len(pool)) + 1)))
        branches = [[l, [rng.random() < 0.5 for _ in range(rng.randrange(1, 4))]] for l in bl]
        fnames = set()
        for _ in range(rng.randrange(0, 4)):
            fnames.add(rng.choice(MANGLED) if rng.random() < 0.15 else (hostile(rng, 60) or "f"))
        funcs = [[n, rng.choice(pool), rng.random() < 0.5] for n in sorted(fnames)]
        files.append({"comps": d + [name], "lines": lines, "cov_lines": cov_lines, "branches": branches, "funcs": funcs})
    return {"files": files, "source_dir": hostile(rng, 40) if rng.random() < 0.5 else None,
            "demangle": rng.random() < 0.2, "pretty": rng.random() < 0.5, "branch": rng.random() < 0.7}


def benign_of(case):
    """(benign case of the same shape, mapping benign string -> hostile string)."""
    cmap, lmap, fmap = {}, {}, {}
    back = {}

    def comp(c, is_file):
        if c not in cmap:
            t = "Zq%04dqZ" % len(cmap)
            if is_file and has_ext(c):
                t += ".c"
            cmap[c] = t
            back[t] = c
            if t.endswith(".c"):
                back[t[:-2]] = stem(c)        # the bare token only occurs as the file stem (Cobertura class name)
        return cmap[c]

    def line(l):
        if l == "":
            return ""
        if l not in lmap:
            lmap[l] = "Zs%04dsZ" % len(lmap)
            back[lmap[l]] = l
        return lmap[l]

    def fn(n):
        if n not in fmap:
            fmap[n] = "Zf%04dfZ" % len(fmap)
            back[fmap[n]] = n
        return fmap[n]
    files = []
    for f in case["files"]:
        comps = [comp(c, i == len(f["comps"]) - 1) for i, c in enumerate(f["comps"])]
        files.append({"comps": comps, "lines": [line(l) for l in f["lines"]], "cov_lines": f["cov_lines"],
                      "branches": f["branches"], "funcs": [[fn(n), s, e] for n, s, e in f["funcs"]]})
    b = dict(case, files=files, source_dir=None if case["source_dir"] is None else "Zd0000dZ")
    if case["source_dir"] is not None:
        back["Zd0000dZ"] = case["source_dir"]
    return b, back


def to_engine(case, abs_prefix):
    files = []
    for f in case["files"]:
        src = "".join(l + "\n" for l in f["lines"])
        files.append({"path": "/".join(f["comps"]).encode().hex(), "src": src.encode().hex(),
                      "cov": {"lines": f["cov_lines"], "branches": f["branches"],
                              "funcs": [[n.encode().hex(), s, e] for n, s, e in f["funcs"]]}})
    return {"op": "report", "files": files, "abs_prefix": abs_prefix, "demangle": case["demangle"], "pretty": case["pretty"],
            "branch": case["branch"], "source_dir": None if case["source_dir"] is None else case["source_dir"].encode().hex()}
