"""C20 generators: (GCC) small C programs; (LLVM) profile layouts, binary trees, canned exports, recording stub tools.
Also the small readers used by the check: lcov report reader, gcov text / JSON readers."""
import gzip
import json
import os
import re
import stat
import zipfile

import gen

U64 = 2**64 - 1

# ----------------------------------------------------------------------------
# lcov report reader (grcov -t lcov output) and renderer for canned exports
# ----------------------------------------------------------------------------


def read_lcov(text):
    """grcov's lcov report -> ({file: cov-json}, duplicates[list of file names seen twice])."""
    out, dup = {}, []
    cur = None
    for line in text.split("\n"):
        line = line.rstrip("\r")
        if line.startswith("SF:"):
            cur = {"name": line[3:], "lines": {}, "br": {}, "fn": {}, "fnda": {}}
        elif cur is None:
            continue
        elif line.startswith("DA:"):
            a, b = line[3:].split(",")[:2]
            cur["lines"][int(a)] = int(b)
        elif line.startswith("FN:"):
            a, b = line[3:].split(",", 1)
            cur["fn"][b] = int(a)
        elif line.startswith("FNDA:"):
            a, b = line[5:].split(",", 1)
            cur["fnda"][b] = int(a) > 0
        elif line.startswith("BRDA:"):
            l, _, i, t = line[5:].split(",")
            cur["br"].setdefault(int(l), {})[int(i)] = (t != "-" and int(t) > 0)
        elif line == "end_of_record":
            c = {"lines": sorted([l, n] for l, n in cur["lines"].items()),
                 "branches": sorted([l, [d.get(i, False) for i in range(max(d) + 1)]] for l, d in cur["br"].items()),
                 "funcs": sorted([[gen.hexname(n), s, cur["fnda"].get(n, False)] for n, s in cur["fn"].items()],
                                 key=lambda x: bytes.fromhex(x[0]))}
            if cur["name"] in out:
                dup.append(cur["name"])
            out[cur["name"]] = c
            cur = None
    return out, dup


def render_section(name, c, rng=None):
    out = ["SF:" + name]
    for n, s, e in c["funcs"]:
        out.append("FN:%d,%s" % (s, bytes.fromhex(n).decode()))
    for n, s, e in c["funcs"]:
        out.append("FNDA:%d,%s" % ((rng.choice([1, 7, 1000]) if rng else 1) if e else 0, bytes.fromhex(n).decode()))
    for l, v in c["branches"]:
        for i, t in enumerate(v):
            out.append("BRDA:%d,0,%d,%s" % (l, i, (rng.choice(["1", "3"]) if rng else "1") if t else "-"))
    for l, n in c["lines"]:
        out.append("DA:%d,%d" % (l, n))
    out.append("end_of_record")
    return "\n".join(out) + "\n"


SRC_NAMES = ["src/a.c", "src/b.c", "lib/util.h", "main.rs", "deep/er/x.cpp", "/abs/p.c"]
FN_NAMES = ["f", "main", "_ZN3foo3barEv", "helper_1", "x y", "Cls::m"]
GARBAGE = ["SF:src/a.c\nFNDA:1,nofn\nend_of_record\n", "SF:src/a.c\nDA:x,1\nend_of_record\n", "end_of_record\n"]


def gen_canned(rng):
    """one binary's export: list of (file name, cov-json); the same file may occur twice."""
    secs = []
    for _ in range(rng.choice([1, 1, 2, 3])):
        c = gen.cov(rng, max_lines=4, lines_pool=[1, 2, 3, 5, 8, 2**32 - 1], names_pool=FN_NAMES, empty_ok=True)
        secs.append([rng.choice(SRC_NAMES), c])
    return secs


def render_canned(secs, rng=None):
    return "TN:\n" + "".join(render_section(n, c, rng) for n, c in secs)


# ----------------------------------------------------------------------------
# LLVM stream: stub tools
# ----------------------------------------------------------------------------

STUB_PROFDATA = r"""#!/bin/sh
# recording stand-in for llvm-profdata: logs argv and stdin (and the first line of every listed file), writes the -o file
d=$(dirname "$0")
f="$d/log/profdata.$$"
{ echo "ARGV"; for a in "$@"; do printf 'A %s\n' "$a"; done; echo "STDIN"; } > "$f.tmp"
out=""; prev=""
for a in "$@"; do [ "$prev" = "-o" ] && out="$a"; prev="$a"; done
while IFS= read -r p; do
  printf 'P %s\n' "$p" >> "$f.tmp"
  if [ -f "$p" ]; then printf 'C %s\n' "$(head -n 1 "$p")" >> "$f.tmp"; printf 'H %s\n' "$(sha1sum < "$p" | cut -c1-40)" >> "$f.tmp"
  else echo "C <missing>" >> "$f.tmp"; echo "H <missing>" >> "$f.tmp"; fi
done
if [ -f "$d/merge_fails" ]; then echo "RC 1" >> "$f.tmp"; mv "$f.tmp" "$f"; echo "stub: merge failure requested" >&2; exit 1; fi
if [ -f "$d/merge_warns" ]; then echo "warning: $out: malformed instrumentation profile data; 1 profile skipped (stub diagnostic, exit status stays 0)" >&2; echo "WARN 1" >> "$f.tmp"; fi
[ -n "$out" ] && echo "merged-$$" > "$out"
echo "TOKEN merged-$$" >> "$f.tmp"
echo "RC 0" >> "$f.tmp"
mv "$f.tmp" "$f"
exit 0
"""

STUB_COV = r"""#!/bin/sh
# recording stand-in for llvm-cov: logs argv, the id inside the binary and the token of the merged profile; prints the canned lcov
d=$(dirname "$0")
f="$d/log/cov.$$"
{ echo "ARGV"; for a in "$@"; do printf 'A %s\n' "$a"; done; } > "$f.tmp"
bin="$2"
id=$(sed -n 2p "$bin" 2>/dev/null | tr -cd 'A-Za-z0-9_')
printf 'ID %s\n' "$id" >> "$f.tmp"
prof=""; prev=""
for a in "$@"; do [ "$prev" = "--instr-profile" ] && prof="$a"; prev="$a"; done
if [ -f "$prof" ]; then printf 'TOKEN %s\n' "$(head -n 1 "$prof")" >> "$f.tmp"; else echo "TOKEN <missing>" >> "$f.tmp"; fi
if [ -n "$id" ] && [ -f "$d/canned/$id.info" ]; then
  if [ -f "$d/warn/$id" ]; then echo "WARN 1" >> "$f.tmp"; echo "warning: 3 functions have mismatched data" >&2; fi
  echo "RC 0" >> "$f.tmp"; mv "$f.tmp" "$f"; cat "$d/canned/$id.info"; exit 0
fi
echo "RC 1" >> "$f.tmp"; mv "$f.tmp" "$f"
echo "error: $bin: failed to load coverage" >&2
exit 1
"""


def install_stubs(tools_dir, canned, merge_fails=False, merge_warns=False, warn_ids=()):
    """warn_ids: binaries whose export succeeds (exit 0, complete lcov on stdout) AND prints a diagnostic on stderr, as
    llvm-cov does ("warning: N functions have mismatched data"); merge_warns: the same for llvm-profdata merge."""
    os.makedirs(os.path.join(tools_dir, "log"))
    os.makedirs(os.path.join(tools_dir, "canned"))
    os.makedirs(os.path.join(tools_dir, "warn"))
    for bid in warn_ids:
        open(os.path.join(tools_dir, "warn", bid), "w").close()
    if merge_warns:
        open(os.path.join(tools_dir, "merge_warns"), "w").close()
    for name, body in (("llvm-profdata", STUB_PROFDATA), ("llvm-cov", STUB_COV)):
        p = os.path.join(tools_dir, name)
        with open(p, "w") as f:
            f.write(body)
        os.chmod(p, 0o755)
    for bid, text in canned.items():
        with open(os.path.join(tools_dir, "canned", bid + ".info"), "w") as f:
            f.write(text)
    if merge_fails:
        open(os.path.join(tools_dir, "merge_fails"), "w").close()


def read_log(tools_dir):
    """-> (merges, exports).  merge = {argv, paths, ids, token, rc}; export = {argv, id, token, rc}."""
    merges, exports = [], []
    ld = os.path.join(tools_dir, "log")
    for fn in sorted(os.listdir(ld)):
        lines = open(os.path.join(ld, fn), errors="replace").read().split("\n")
        argv = [l[2:] for l in lines if l.startswith("A ")]
        get = lambda k: next((l[len(k) + 1:] for l in lines if l.startswith(k + " ")), None)
        if fn.endswith(".tmp"):
            continue
        if fn.startswith("profdata."):
            merges.append({"argv": argv, "paths": [l[2:] for l in lines if l.startswith("P ")],
                           "ids": [l[2:] for l in lines if l.startswith("C ")],
                           "hashes": [l[2:] for l in lines if l.startswith("H ")], "token": get("TOKEN"), "rc": int(get("RC")), "warned": get("WARN") == "1"})
        else:
            exports.append({"argv": argv, "id": get("ID"), "token": get("TOKEN"), "rc": int(get("RC")), "warned": get("WARN") == "1"})
    return merges, exports


# ----------------------------------------------------------------------------
# LLVM stream: layouts
# ----------------------------------------------------------------------------

PROF_NAMES = ["a", "b", "default", "a_1", "a_1_1", "run.2", "x-y"]
SUBDIRS = ["", "", "sub", "sub/deep", "t_1", ".hid"]
COLLIDING = [["a/b", "a_b"], ["run/1", "run_1"], ["sub/deep/x", "sub_deep/x", "sub/deep_x"], ["t/1/default", "t_1/default", "t_1_default"]]
NOISE = ["notes.txt", "a.profraw.bak", "b.PROFRAW", "c.prof", "d.profdatax", "profraw"]


def gen_layout(rng, force_kind=None):
    """inputs: list of {"kind": dir|zip|plain, "name", "files": [[relpath, id]], "noise": [...]}; ids are unique."""
    nid = [0]

    def pid():
        nid[0] += 1
        return "P%d" % nid[0]
    inputs = []
    kinds = ["profraw", "profdata"] if force_kind is None else [force_kind]
    for i in range(rng.choice([1, 2, 2, 3, 4])):
        k = rng.choice(["dir", "dir", "zip", "plain"])
        if k == "plain":
            inputs.append({"kind": "plain", "name": "pl%d_%s.%s" % (i, rng.choice(PROF_NAMES), rng.choice(kinds)), "files": [], "noise": []})
            inputs[-1]["files"] = [[inputs[-1]["name"], pid()]]
            continue
        files, seen = [], set()
        if rng.random() < 0.2:
            # names that differ only by '/' versus '_' (a/b and a_b): their temporary names must stay distinct
            kk = rng.choice(kinds)
            for rel in rng.choice(COLLIDING):
                seen.add(rel + "." + kk)
                files.append([rel + "." + kk, pid()])
        for _ in range(rng.choice([0, 1, 2, 3, 4])):
            rel = os.path.join(rng.choice(SUBDIRS), rng.choice(PROF_NAMES) + "." + rng.choice(kinds))
            if rel not in seen:
                seen.add(rel)
                files.append([rel, pid()])
        noise = [os.path.join(rng.choice(SUBDIRS), n) for n in rng.sample(NOISE, rng.randrange(0, 3))]
        if k == "dir" and rng.random() < 0.15:
            noise.append("adir.profraw/")          # a directory carrying the extension
        inputs.append({"kind": k, "name": ("d%d" % i) if k == "dir" else ("z%d.zip" % i), "files": files, "noise": noise})
    if not any(inp["files"] for inp in inputs):
        inputs.append({"kind": "plain", "name": "only.%s" % rng.choice(kinds), "files": [], "noise": []})
        inputs[-1]["files"] = [[inputs[-1]["name"], pid()]]
    return inputs


def profile_bytes(i):
    """unique content per generated profile: the id line plus bytes derived from it"""
    import hashlib
    return (i + "\n").encode() + hashlib.sha256(i.encode()).digest() * 3


def profile_hash(i):
    import hashlib
    return hashlib.sha1(profile_bytes(i)).hexdigest()


def write_layout(root, inputs):
    """materialise under root; returns the command-line arguments (relative to root)."""
    args = []
    for inp in inputs:
        p = os.path.join(root, inp["name"])
        if inp["kind"] == "plain":
            with open(p, "wb") as f:
                f.write(profile_bytes(inp["files"][0][1]))
        elif inp["kind"] == "dir":
            os.makedirs(p, exist_ok=True)
            for rel, i in inp["files"]:
                os.makedirs(os.path.dirname(os.path.join(p, rel)), exist_ok=True)
                with open(os.path.join(p, rel), "wb") as f:
                    f.write(profile_bytes(i))
            for rel in inp["noise"]:
                if rel.endswith("/"):
                    os.makedirs(os.path.join(p, rel), exist_ok=True)
                    continue
                os.makedirs(os.path.dirname(os.path.join(p, rel)), exist_ok=True)
                with open(os.path.join(p, rel), "w") as f:
                    f.write("noise\n")
        else:
            with zipfile.ZipFile(p, "w") as z:
                for rel in inp["noise"]:
                    if not rel.endswith("/"):
                        z.writestr(rel, "noise\n")
                for rel, i in inp["files"]:
                    z.writestr(rel, profile_bytes(i))
        args.append(inp["name"])
    return args


def expected_profiles(inputs):
    """{kind: sorted ids} of the profiles found under the input paths."""
    out = {"profraw": [], "profdata": []}
    for inp in inputs:
        for rel, i in inp["files"]:
            out[rel.rsplit(".", 1)[1]].append(i)
    return {k: sorted(v) for k, v in out.items()}


BIN_DIRS = ["", "", "deps", "deps/x", "rel_1", ".libs", "skipme", "server/bin", "client/bin"]
SHARED_BASES = ["tool", "app", "b0"]        # base names that several directories may use (distinct executables, same file name)
BIN_KINDS = ["elf", "elf", "elf", "elf_noexec", "script", "text", "empty", "short"]


def gen_bins(rng):
    """binary tree: list of {"path", "kind", "id", "outcome": ok|fail|garbage}, flag `ignore_file`, and `single` (binary path is a file)."""
    ents, seen = [], set()
    n = rng.choice([0, 1, 2, 3, 4, 5, 6])
    for i in range(n):
        kind = rng.choice(BIN_KINDS)
        d = rng.choice(BIN_DIRS)
        r = rng.random()
        base = ("b%d" % i) if r < 0.4 else (rng.choice(SHARED_BASES) if r < 0.85 else (".b%d" % i))
        if rng.random() < 0.1:
            base += ".skip"
        path = os.path.join(d, base)
        if path in seen:
            continue
        seen.add(path)
        oc = "ok"
        if kind in ("elf", "elf_noexec"):
            oc = rng.choice(["ok", "ok", "ok", "fail", "garbage"])
        ents.append({"path": path, "kind": kind, "id": "B%d" % i, "outcome": oc})
    ignore_file = rng.random() < 0.5
    single = None
    if ents and rng.random() < 0.08:
        single = rng.choice(ents)["path"]
    # symbolic links to binaries (libfoo.so -> libfoo.so.1 -> the real file), to a directory, and a dangling one:
    # a link is not an executable of its own, the file it points to is exported once
    links = []
    if ents and rng.random() < 0.35:
        tgt = rng.choice(ents)
        d = os.path.dirname(tgt["path"])
        b = os.path.basename(tgt["path"])
        l1 = os.path.join(d, "lnk1_" + b.lstrip("."))
        links.append([l1, b])                                  # same directory, relative target
        if rng.random() < 0.6:
            links.append([os.path.join(d, "lnk2_" + b.lstrip(".")), os.path.basename(l1)])   # link to the link
        if rng.random() < 0.4:
            links.append(["toplnk_%s" % tgt["id"], tgt["path"]])                  # from the root of the tree
        if rng.random() < 0.3:
            links.append(["dangling_lnk", "no/such/file"])
        if d and rng.random() < 0.3:
            links.append(["dirlnk", d.split("/")[0]])                             # link to a directory
    return {"ents": ents, "ignore_file": ignore_file, "single": single, "links": links}


def bin_content(e):
    k = e["kind"]
    if k in ("elf", "elf_noexec"):
        return b"\x7fELF\n" + e["id"].encode() + b"\n" + b"\0" * 160
    if k == "script":
        return b"#!/bin/sh\n" + e["id"].encode() + b"\nexit 0\n"
    if k == "text":
        return b"hello\n" + e["id"].encode() + b"\n"
    if k == "short":
        return b"\x7f"
    return b""


def write_bins(root, bins):
    os.makedirs(root, exist_ok=True)
    for e in bins["ents"]:
        p = os.path.join(root, e["path"])
        os.makedirs(os.path.dirname(p), exist_ok=True)
        with open(p, "wb") as f:
            f.write(bin_content(e))
        os.chmod(p, 0o755 if e["kind"] in ("elf", "script") else 0o644)
    for lp, tgt in bins.get("links", []):
        p = os.path.join(root, lp)
        os.makedirs(os.path.dirname(p), exist_ok=True)
        if not os.path.lexists(p):
            os.symlink(tgt, p)
    if bins["ignore_file"]:
        with open(os.path.join(root, ".ignore"), "w") as f:
            f.write("skipme/\n*.skip\n")
    return os.path.join(root, bins["single"]) if bins["single"] else root


def is_executable(e):
    return e["kind"] in ("elf", "elf_noexec")


def filtered_by_walker(e, bins):
    """the class of the known finding: a path component starts with '.', or the path matches the tree's .ignore rules."""
    comps = e["path"].split("/")
    if any(c.startswith(".") for c in comps):
        return True
    if bins["ignore_file"] and ("skipme" in comps[:-1] or comps[-1].endswith(".skip")):
        return True
    return False


# ----------------------------------------------------------------------------
# GCC stream: program generator
# ----------------------------------------------------------------------------

def gen_program(rng):
    """-> {"files": {relpath: text}, "units": [relpath of .c], "runs": [arg...], "pair_line": bool}"""
    nfun = rng.randrange(2, 8)
    nmod = rng.choice([1, 2, 2, 3, 3, 4, 5])
    use_hdr = rng.random() < 0.75
    pair = rng.random() < 0.3
    subdir_mod = nmod > 1 and rng.random() < 0.3
    mods = [[] for _ in range(nmod)]
    for i in range(nfun):
        mods[rng.randrange(nmod)].append(i)
    protos = ["#ifndef PROTOS_H", "#define PROTOS_H"] + ["unsigned fn_%d(unsigned a);" % i for i in range(nfun)]
    if pair:
        protos += ["unsigned pa(unsigned a);", "unsigned pb(unsigned a);"]
    protos.append("#endif")
    files = {"protos.h": "\n".join(protos) + "\n"}
    if use_hdr:
        files["util.h"] = "\n".join([
            "#ifndef UTIL_H", "#define UTIL_H",
            "static inline unsigned twice(unsigned x)", "{",
            "    if (x > %d)" % rng.choice([0, 3, 50]),
            "        return x;",
            "    return 2 * x;", "}",
            "static inline unsigned never_used(unsigned x)", "{", "    return x + 1;", "}",
            "#endif"]) + "\n"

    # sources the compiler sees under an ABSOLUTE name: a header with executable code in an include directory passed as an
    # absolute -I path, and translation units compiled through their absolute path
    abs_include = rng.random() < 0.4
    if abs_include:
        files["include/absinc.h"] = "\n".join([
            "#ifndef ABSINC_H", "#define ABSINC_H",
            "static inline unsigned absinc_fn(unsigned x)", "{",
            "    if (x %% %d == 0)" % rng.choice([2, 3, 5]),
            "        return x + %d;" % rng.randrange(1, 9),
            "    return x;", "}",
            "#endif"]) + "\n"
    abs_units = []

    shapes = {"fragment": 0, "xmacro": 0, "stmtmacro": 0}

    def body(i, udir=""):
        kind = rng.choice(["straight", "ifelse", "for", "while", "switch", "nested", "ternary"])
        k, c, c2 = rng.randrange(2, 6), rng.randrange(1, 20), rng.randrange(1, 9)
        L = ["unsigned fn_%d(unsigned a)" % i, "{", "    unsigned r = a;"]
        pre = udir + "/" if udir else ""
        # files that own executable lines although no function starts in them (gcov JSON: "functions": []):
        # a fragment of statements #included inside the body, an X-macro table expanded inside the body;
        # and a header that only contributes a macro expanding to statements (its lines are attributed to the use site)
        if rng.random() < 0.18:
            shapes["fragment"] += 1
            files[pre + "frag_%d.inc" % i] = "\n".join(["    r += a * %d;" % k, "    if (r > %d)" % c, "        r -= %d;" % c2,
                                                          "    else", "        r += 1;"]) + "\n"
            L += ['#include "frag_%d.inc"' % i]
        if rng.random() < 0.18:
            shapes["xmacro"] += 1
            files[pre + "ops_%d.def" % i] = "".join("OP(%d, %d)\n" % (j, rng.randrange(1, 30)) for j in range(rng.randrange(2, 5)))
            L += ["    switch (a %% %d) {" % (k + 1), "#define OP(k, v) case k: \\", "        r += v; \\", "        break;",
                  '#include "ops_%d.def"' % i, "#undef OP", "    default:", "        r ^= 1;", "    }"]
        if rng.random() < 0.18:
            shapes["stmtmacro"] += 1
            files[pre + "mac_%d.h" % i] = "\n".join(["#ifndef MAC_%d_H" % i, "#define MAC_%d_H" % i, "#define BUMP_%d(r, a) do { \\" % i,
                                                       "    if ((a) > %d) \\" % c2, "        (r) += 2; \\", "    else \\",
                                                       "        (r) += 1; \\", "} while (0)", "#endif"]) + "\n"
            L = ['#include "mac_%d.h"' % i] + L + ["    BUMP_%d(r, a);" % i]
        if kind == "straight":
            L += ["    r = r * %d + %d;" % (k, c), "    r ^= %d;" % c2]
        elif kind == "ifelse":
            L += ["    if (a %% %d == %d)" % (k, c % k), "        r += %d;" % c, "    else", "        r -= %d;" % c2]
        elif kind == "for":
            L += ["    for (unsigned i = 0; i < a %% %d; i++) {" % (k + 2), "        r += i * %d;" % c, "    }"]
        elif kind == "while":
            L += ["    unsigned n = a %% %d;" % (k + 1), "    while (n > 0) {", "        r += n;", "        n--;", "    }"]
        elif kind == "switch":
            L += ["    switch (a %% %d) {" % k, "    case 0:", "        r += %d;" % c, "        break;", "    case 1:",
                  "        r *= %d;" % c2, "        break;", "    default:", "        r -= 1;", "    }"]
        elif kind == "nested":
            L += ["    for (unsigned i = 0; i < a %% %d; i++) {" % (k + 1), "        if (i %% 2 == 0 && a > %d)" % c2,
                  "            r += i;", "        else if (i == %d)" % k, "            r = 0;", "    }"]
        else:
            L += ["    r = a > %d ? r + %d : r - %d;" % (c2, c, c2)]
        callees = [j for j in range(i + 1, nfun) if rng.random() < 0.35]
        for j in callees:
            if rng.random() < 0.5:
                L += ["    if (r %% %d == 0)" % rng.randrange(1, 4), "        r += fn_%d(r & 7);" % j]
            else:
                L += ["    r += fn_%d(r & 7);" % j]
        if use_hdr and rng.random() < 0.5:
            L += ["    r += twice(r & 63);"]
        if pair and rng.random() < 0.5:
            L += ["    r += pa(r & 3);"]
        L += ["    return r;", "}"]
        return L

    units = []
    for m, fs in enumerate(mods):
        name = ("sub/m%d.c" % m) if (subdir_mod and m == nmod - 1) else ("m%d.c" % m)
        if m > 0 and not name.startswith("sub/") and rng.random() < 0.4:
            # a file name with an extra dot: stats.v2.c -> stats.v2.gcno
            name = rng.choice(["m%d.v2.c", "unit%d.test.c", "m%d.x.y.c", "a.m%d.c"]) % m
        is_abs = rng.random() < 0.25
        if is_abs:
            abs_units.append(name)
        # (a unit compiled by absolute path would see util.h under a second, absolute spelling: it does not include it)
        hdr_ok = use_hdr and not name.startswith("sub/") and not is_abs
        inc_ok = abs_include and (m == 0 or rng.random() < 0.6)
        L = ["#include <stdio.h>", "#include <stdlib.h>",
             '#include "%sprotos.h"' % ("../" if name.startswith("sub/") else "")]
        if hdr_ok:
            L.append('#include "util.h"')
        if inc_ok:
            L.append('#include "absinc.h"')
        for i in fs:
            b = body(i, os.path.dirname(name))
            if not hdr_ok:
                b = [x for x in b if "twice(" not in x]
            if inc_ok and rng.random() < 0.7:
                b = b[:-2] + ["    r += absinc_fn(r & 15);"] + b[-2:]
            L += b
        if pair and m == 0:
            # two functions defined on one source line
            L.append("unsigned pa(unsigned a) { return a + %d; } unsigned pb(unsigned a) { return a * 2; }" % rng.randrange(1, 5))
        if m == 0:
            L += ["int main(int argc, char **argv)", "{",
                  "    unsigned n = argc > 1 ? (unsigned)atoi(argv[1]) : 0;",
                  "    unsigned acc = 0;",
                  "    for (unsigned i = 0; i < n; i++) {",
                  "        acc += fn_0(i);",
                  "    }"]
            for j in range(1, nfun):
                if rng.random() < 0.6:
                    L += ["    if (n > %d)" % rng.choice([0, 1, 2, 4, 100]), "        acc += fn_%d(n);" % j]
            if pair:
                L += ["    if (n > %d)" % rng.choice([0, 2, 100]), "        acc += pb(n);"]
            if inc_ok:
                L += ["    acc += absinc_fn(n);"]
            L += ['    printf("%u\\n", acc);', "    return 0;", "}"]
        files[name] = "\n".join(L) + "\n"
        units.append(name)
    runs = [str(rng.choice([0, 1, 2, 3, 5, 8, 13])) for _ in range(rng.randrange(0, 4))]
    # stale units: recompiled (after a source change) once the program has run, without running it again: their .gcda no
    # longer matches the .gcno, gcov fails on them ("stamp mismatch") although it still writes its output file
    stale = []
    if runs and rng.random() < 0.35:
        stale = rng.sample(units, min(len(units), rng.choice([1, 1, 2])))
    # a unit whose .gcda gets one arc counter overwritten with 2^64-1 after the runs: gcov succeeds but prints "count": -1,
    # which grcov's parser rejects - the unit must contribute nothing and must not disturb the units handled after it
    corrupt = []
    if runs and rng.random() < 0.3:
        cand = [u for u in units if u not in stale]
        if cand:
            corrupt = [rng.choice(cand)]
    return {"files": files, "units": units, "runs": runs, "pair_line": pair, "stale": stale, "corrupt": corrupt,
            "abs_include": abs_include, "abs_units": abs_units, "shapes": shapes}


def corrupt_gcda(path):
    """overwrite the first arc counter (record GCOV_TAG_COUNTER_ARCS = 0x01a10000) with 2^64-1; False if there is none"""
    d = bytearray(open(path, "rb").read())
    i = d.find(b"\x00\x00\xa1\x01")
    if i < 0 or len(d) < i + 16:
        return False
    d[i + 8:i + 16] = b"\xff" * 8
    with open(path, "wb") as f:
        f.write(d)
    return True


def json_rejected(js):
    """does gcov's JSON carry a negative counter (which grcov's u64 fields reject)?"""
    for f in js["files"]:
        for l in f["lines"]:
            if l["count"] < 0 or any(b["count"] < 0 for b in l["branches"]):
                return True
        if any(fn["execution_count"] < 0 for fn in f["functions"]):
            return True
    return False


# ----------------------------------------------------------------------------
# GCC stream: readers of gcov's own output
# ----------------------------------------------------------------------------

_line_re = re.compile(r"^\s*([0-9]+|#####|=====|-)\*?:\s*(\d+):")
_fn_re = re.compile(r"^function (\S+) called (\d+) ")


def read_gcov_text(path):
    """one X.gcov text file -> (source name, {line: count} first (aggregate) occurrence, {function: called})."""
    src, lines, fns = None, {}, {}
    for l in open(path, errors="replace"):
        m = _line_re.match(l)
        if m:
            n = int(m.group(2))
            if n == 0:
                if ":Source:" in l:
                    src = l.split(":Source:", 1)[1].strip()
                continue
            if m.group(1) == "-":
                continue
            c = 0 if m.group(1) in ("#####", "=====") else int(m.group(1))
            lines.setdefault(n, c)
            continue
        m = _fn_re.match(l)
        if m:
            fns[m.group(1)] = fns.get(m.group(1), 0) + int(m.group(2))
    return src, lines, fns


def read_gcov_json(path):
    return json.load(gzip.open(path))


def json_account(js):
    """toolchain's account from gcov JSON: per file line counts summed over the entries of a line; function executed flags."""
    out = {}
    for f in js["files"]:
        lines, multi = {}, set()
        for l in f["lines"]:
            n = l["line_number"]
            if n in lines:
                multi.add(n)
            lines[n] = lines.get(n, 0) + l["count"]
        fns = {}
        for fn in f["functions"]:
            fns[fn["demangled_name"]] = fns.get(fn["demangled_name"], False) or fn["execution_count"] > 0
        out[f["file"]] = {"lines": lines, "funcs": fns, "multi": multi}
    return out


def json_as_grcov(js):
    """what parse_gcov_gz makes of the JSON (data fed to the glue model): the entries of a line add up (clamped at 2^64-1) and
    their branch outcomes are concatenated in entry order (since fix dd2649f), files without lines dropped."""
    out = []
    for f in js["files"]:
        lines, br = {}, {}
        for l in f["lines"]:
            lines[l["line_number"]] = min(lines.get(l["line_number"], 0) + l["count"], gen.U64)
            if l["branches"]:
                br.setdefault(l["line_number"], []).extend(b["count"] > 0 for b in l["branches"])
        if not lines:
            continue
        fns = {}
        for fn in f["functions"]:
            fns[fn["demangled_name"]] = [fn["start_line"], fn["execution_count"] > 0]
        out.append([f["file"], {"lines": sorted([a, b] for a, b in lines.items()),
                                "branches": sorted([a, b] for a, b in br.items()),
                                "funcs": sorted([[gen.hexname(n), s, e] for n, (s, e) in fns.items()], key=lambda x: bytes.fromhex(x[0]))}])
    return out
