"""Shared helpers of the gcno/gcda checks (C08, C15, C14 gcno part): fixtures, malformed-stream generators,
guarded execution of the `gcno` harness engine (address-space limit, crash attribution by bisection),
model evaluation and canonical forms."""
import json, os, resource, struct, subprocess, time
import vlib

REPO = vlib.REPO
TAGS = [0x01000000, 0x01410000, 0x01430000, 0x01450000, 0x01a10000, 0xa1000000, 0xa3000000]
BOUNDARY = [0, 1, 2, 3, 2**31 - 1, 2**31, 2**32 - 1]
AS_LIMIT = 1 << 30          # RLIMIT_AS for the child: 1 GiB
CASE_SECONDS = 5.0          # a single case slower than this is a violation

SMALL = [("test/llvm/file.gcno", "test/llvm/file.gcda"),
         ("test/llvm/file_branch.gcno", "test/llvm/file_branch.gcda"),
         ("test/llvm/reader.gcno", "test/llvm/reader.gcda")]
GCC = [("test/reader_gcc-%s.gcno" % v, "test/reader_gcc-%s.gcda" % v) for v in ("6", "7", "8", "9", "10")]
LARGE = [("test/%s.gcno" % n, "test/%s.gcda" % n) for n in
         ("nsMaiInterfaceValue", "nsGnomeModule", "nsMaiInterfaceDocument", "Platform", "64bit_count",
          "mozillavpn_serverconnection", "prova", "Unified_cpp_netwerk_base0", "negative_counts")]


def rd(rel):
    return open(os.path.join(REPO, rel), "rb").read()


def fixture(pair):
    return rd(pair[0]), rd(pair[1])


def words(buf, le=True):
    n = len(buf) // 4
    return list(struct.unpack(("<" if le else ">") + "%dI" % n, buf[:4 * n]))


def block_counts(buf):
    """distinct block counts announced by BLOCKS records of a (valid) gcno, by a plain scan for the tag"""
    le = buf[:4] == b"oncg"
    ws = words(buf, le)
    out = set()
    for i, w in enumerate(ws[:-2]):
        if w == 0x01410000:
            out.add(ws[i + 1])
            out.add(ws[i + 2])
    return sorted(x for x in out if 0 < x < 100000)[:6]


def subst_values(buf):
    return sorted(set(BOUNDARY + block_counts(buf) + TAGS))


def put_word(buf, i, v):
    le = buf[:4] in (b"oncg", b"adcg")
    return buf[:4 * i] + struct.pack("<I" if le else ">I", v) + buf[4 * i + 4:]


def case(gcno, gcdas, branch=True, **meta):
    c = {"gcno": gcno.hex(), "gcdas": [g.hex() for g in gcdas], "branch": branch, "stem": "s"}
    c.update(meta)
    return c


def sweep(gcno, gcda, target, prefixes=True, substitutions=True, values=None, label=""):
    """malformed stream derived from a valid pair: every prefix and every single-word substitution of `target`"""
    out = []
    buf = gcno if target == "gcno" else gcda
    mk = (lambda b: case(b, [gcda] if gcda is not None else [])) if target == "gcno" else (lambda b: case(gcno, [b]))
    if prefixes:
        for n in range(len(buf)):
            c = mk(buf[:n])
            c["mut"] = [label, target, "prefix", n]
            out.append(c)
    if substitutions:
        vals = values if values is not None else subst_values(gcno)
        ws = words(buf, buf[:4] in (b"oncg", b"adcg"))
        for i in range(len(buf) // 4):
            for v in vals:
                if ws[i] == v:
                    continue
                c = mk(put_word(buf, i, v))
                c["mut"] = [label, target, "word", i, v]
                out.append(c)
    return out


# ---- guarded execution ------------------------------------------------------------------------------

def _limits():
    resource.setrlimit(resource.RLIMIT_AS, (AS_LIMIT, AS_LIMIT))
    resource.setrlimit(resource.RLIMIT_CORE, (0, 0))


def _run_file(exe, cases, sc, tag, timeout):
    cf = os.path.join(sc, "g_%s.jsonl" % tag)
    with open(cf, "w") as f:
        for c in cases:
            f.write(json.dumps({k: c[k] for k in ("gcno", "gcdas", "branch", "stem")}) + "\n")
    t0 = time.time()
    try:
        p = subprocess.run([exe, "gcno", cf], cwd=sc, stdout=subprocess.PIPE, stderr=subprocess.PIPE,
                           timeout=timeout, preexec_fn=_limits)
        rc, out, err = p.returncode, p.stdout.decode(errors="replace"), p.stderr.decode(errors="replace")
    except subprocess.TimeoutExpired as e:
        rc, out, err = "timeout", (e.stdout or b"").decode(errors="replace"), "timeout after %.0fs" % timeout
    dt = time.time() - t0
    res = []
    for l in out.split("\n"):
        if l.strip():
            try:
                res.append(json.loads(l))
            except Exception:
                res.append({"error": "unparsable " + l[:100]})
    return rc, res, err, dt


import itertools
_seq = itertools.count()


def run_guarded(cases, pid, batch=400, parallel=6):
    """Run cases through the gcno engine in child processes limited to AS_LIMIT address space.
    A batch whose process dies (abort, OOM, SIGSEGV on stack overflow) or exceeds its time budget is bisected
    until the offending single case is isolated; that case gets {"crash": ...} or {"timeout": ...}."""
    import concurrent.futures
    exe = vlib.build_harness()
    sc = vlib.scratch("gcno_guard_%s" % pid, clean=False)

    def go(cs):
        tag = "%d_%d" % (os.getpid(), next(_seq))
        budget = 20 + CASE_SECONDS * (1 if len(cs) == 1 else 0) + 0.05 * len(cs)
        rc, res, err, dt = _run_file(exe, cs, sc, tag, budget)
        if rc == 0 and len(res) == len(cs):
            return res
        if len(cs) == 1:
            if rc == "timeout":
                return [{"timeout": "no result within %.0f s" % budget}]
            return [{"crash": "process ended with status %s: %s" % (rc, err[-300:])}]
        h = len(cs) // 2
        return go(cs[:h]) + go(cs[h:])

    chunks = [cases[i:i + batch] for i in range(0, len(cases), batch)]
    out = []
    with concurrent.futures.ThreadPoolExecutor(max_workers=parallel) as ex:
        for r in ex.map(go, chunks):
            out.extend(r)
    return out


def klass(r):
    for k in ("ok", "err", "panic", "crash", "timeout"):
        if k in r:
            return k
    return "error"


# ---- model side ---------------------------------------------------------------------------------------

MODEL_CLASS = {0: "ok", 1: "err", 2: "panic", 3: "outoffuel"}


def model_expr(c, fn="run_gcno"):
    return vlib.app(fn, list(bytes.fromhex(c["gcno"])), [list(bytes.fromhex(g)) for g in c["gcdas"]], bool(c["branch"]))


def run_model(pid, cases, fn="run_gcno", shard_size=60):
    return vlib.run_model(pid, "Run.ShowGcno", [model_expr(c, fn) for c in cases], shard_size=shard_size)


def canon_impl(r):
    """impl {"ok": [[hexname, cov]..]} -> sorted canonical list"""
    import gen
    return sorted([[n, gen.cov_canon(c)] for n, c in r["ok"]], key=lambda x: bytes.fromhex(x[0]))


def canon_model(v):
    """parsed (tag, [(name, cov_l)..]) -> (class, canonical list)"""
    import gen
    tag, rs = v
    return MODEL_CLASS[tag], sorted([[bytes(n).hex(), gen.cov_from_coq(c)] for n, c in rs], key=lambda x: bytes.fromhex(x[0]))


# ---- synthesised gcno/gcda (LLVM layout, version *204 = 42 by default) ---------------------------------

def _s(b):
    b = b + b"\0" * (4 - len(b) % 4)
    return struct.pack("<I", len(b) // 4) + b


def _ver(version):
    """version number as reader.rs computes it from the four bytes in little-endian file order ('*', c0, c1, c2)"""
    c0, c1, c2 = version[1], version[2], version[3]
    if c2 >= 65:
        return 100 * (c2 - 65) + 10 * (c1 - 48) + (c0 - 48)
    return 10 * (c2 - 48) + (c0 - 48)


def synth_gcno(funcs, version=b"*204", checksum=0x1234):
    """funcs: list of dict(ident, name, file, start, nblocks, arcs=[(src, [(dst, flags)..])..], lines={block: [line..]}, lsum, csum,
    optional no_blocks_record=True).  version < 8.0: LLVM/old GCC layout; >= 8.0 (b"*008", b"*009"...): GCC 8/9 layout
    (unexecuted-blocks flag, artificial/column/end-line fields, BLOCKS record = one count word; >= 9.0: cwd string, end column)."""
    ver = _ver(version)
    out = b"oncg" + version + struct.pack("<I", checksum)
    if ver >= 90:
        out += _s(b"/cwd")
    if ver >= 80:
        out += struct.pack("<I", 0)
    for f in funcs:
        body = struct.pack("<II", f["ident"], f.get("lsum", 7))
        if ver >= 47:
            body += struct.pack("<I", f.get("csum", 9))
        body += _s(f["name"])
        if ver >= 80:
            body += struct.pack("<I", 0) + _s(f["file"]) + struct.pack("<III", f["start"], 1, f.get("end", f["start"] + 1000))
            if ver >= 90:
                body += struct.pack("<I", 1)
        else:
            body += _s(f["file"]) + struct.pack("<I", f["start"])
        out += struct.pack("<II", 0x01000000, len(body) // 4) + body
        if not f.get("no_blocks_record"):
            if ver >= 80:
                out += struct.pack("<III", 0x01410000, 1, f["nblocks"])
            else:
                out += struct.pack("<II", 0x01410000, f["nblocks"]) + b"\0\0\0\0" * f["nblocks"]
        for src, dsts in f["arcs"]:
            out += struct.pack("<III", 0x01430000, 1 + 2 * len(dsts), src)
            for dst, fl in dsts:
                out += struct.pack("<II", dst, fl)
        for blk, lines in sorted(f.get("lines", {}).items()):
            body = struct.pack("<I", blk) + struct.pack("<I", 0) + _s(f["file"])
            for ln in lines:
                body += struct.pack("<I", ln)
            body += struct.pack("<II", 0, 0)
            out += struct.pack("<II", 0x01450000, len(body) // 4) + body
    out += struct.pack("<II", 0, 0)
    return out


def synth_gcda(funcs, counters, version=b"*204", checksum=0x1234):
    """counters: {ident: [u64 per non-tree arc in arc order]}"""
    ver = _ver(version)
    out = b"adcg" + version + struct.pack("<I", checksum)
    for f in funcs:
        if f["ident"] not in counters:
            continue
        body = struct.pack("<II", f["ident"], f.get("lsum", 7))
        if ver >= 47:
            body += struct.pack("<I", f.get("csum", 9))
        out += struct.pack("<II", 0x01000000, len(body) // 4) + body
        cs = counters[f["ident"]]
        out += struct.pack("<II", 0x01a10000, 2 * len(cs))
        for c in cs:
            out += struct.pack("<II", c & 0xffffffff, c >> 32)
    out += struct.pack("<II", 0, 0)
    return out


def dense_cycle_function(n, line=5):
    """n blocks 1..n on ONE source line, an arc between every ordered pair: the circuit enumeration of
    get_line_count visits every simple cycle (F20).  Block 0 = entry, block n+1 = exit."""
    nb = n + 2
    arcs = [(0, [(1, 0)])]
    for i in range(1, n + 1):
        arcs.append((i, [(j, 0) for j in range(1, n + 1) if j != i] + ([(n + 1, 0)] if i == n else [])))
    f = dict(ident=1, name=b"f", file=b"a.c", start=1, nblocks=nb, arcs=arcs,
             lines={0: [1], **{i: [line] for i in range(1, n + 1)}, n + 1: [9]})
    nreal = sum(len(d) for _, d in arcs)
    return f, nreal


def chain_function(n):
    """n blocks in a chain of ON_TREE arcs: propagate_counts recurses n deep (F20)."""
    arcs = [(i, [(i + 1, 1)]) for i in range(n - 1)]
    return dict(ident=1, name=b"f", file=b"a.c", start=1, nblocks=n, arcs=arcs, lines={0: [1]})


def flow_function(rng, ident, nblocks=None, walks=None, tree=False, order="shuffle", first_line=1, file=b"s.c"):
    """A random CFG with a REAL profile: blocks 0 (entry) .. n-1 (exit, the last block as in formats < 4.8), every
    block on its own source line; the arc counts are those of `walks` random walks entry -> exit, hence conserving.
    The arcs of a block are listed in shuffled / descending destination order (clang <= 10 lists them in the order of
    the terminator's successors).  tree=True marks a spanning tree (with the virtual exit -> entry arc) ON_TREE.
    Returns (func dict for synth_gcno, counters of the measured arcs in notes-file order, expected) where expected =
    {"lines": {line: count}, "executed": bool, "branches": {line: [taken per arc in ascending destination order]}}."""
    n = nblocks or rng.randrange(4, 12)
    walks = rng.randrange(0, 9) if walks is None else walks
    succ = {}
    for b in range(n - 1):
        k = 1 if b == 0 else rng.choice([1, 1, 2, 2, 3])    # the entry block has one successor, as in compiler output
        cand = [b + 1] if b == 0 else list(range(b + 1, n))
        ds = set(rng.sample(cand, min(k, len(cand))))
        if b > 1 and rng.random() < 0.25:
            ds.add(rng.randrange(1, b))                     # a loop back (never into the entry block, no self loop)
        if not any(d > b for d in ds):
            ds.add(b + 1)
        succ[b] = sorted(ds)
    cnt = {(b, d): 0 for b in succ for d in succ[b]}
    visits = [0] * n
    for _ in range(walks):
        b, steps = 0, 0
        while b != n - 1:
            visits[b] += 1
            steps += 1
            fwd = [d for d in succ[b] if d > b]
            d = rng.choice(succ[b]) if steps < 60 else rng.choice(fwd)
            cnt[(b, d)] += 1
            b = d
        visits[n - 1] += 1
    on_tree = set()
    if tree:
        comp = list(range(n))

        def find(x):
            while comp[x] != x:
                comp[x] = comp[comp[x]]
                x = comp[x]
            return x
        comp[find(n - 1)] = find(0)                         # the virtual exit -> entry arc is on the tree
        arcs = list(cnt)
        rng.shuffle(arcs)
        for (b, d) in arcs:
            if find(b) != find(d):
                comp[find(b)] = find(d)
                on_tree.add((b, d))
    arcs_out, counters = [], []
    for b in range(n - 1):
        ds = list(succ[b])
        if order == "desc":
            ds.sort(reverse=True)
        elif order == "shuffle":
            rng.shuffle(ds)
        arcs_out.append((b, [(d, 1 if (b, d) in on_tree else 0) for d in ds]))
        counters += [cnt[(b, d)] for d in ds if (b, d) not in on_tree]
    f = dict(ident=ident, name=b"f%d" % ident, file=file, start=first_line, nblocks=n, arcs=arcs_out,
             lines={b: [first_line + b] for b in range(n)})
    exp = {"lines": {first_line + b: visits[b] for b in range(n)}, "executed": walks > 0,
           "branches": {first_line + b: [cnt[(b, d)] > 0 for d in succ[b]] for b in succ if len(succ[b]) >= 2}}
    return f, counters, exp


# ---- record walks (well-formed files) and foreign-function mutations ---------------------------------------

def records(buf):
    """[(tag, index of the tag word, length)] of a well-formed gcno/gcda (version < 80 gcno, any gcda), by the length words"""
    le = buf[:4] in (b"oncg", b"adcg")
    ws = words(buf, le)
    out, i = [], 3
    while i + 1 < len(ws) and ws[i] != 0:
        out.append((ws[i], i, ws[i + 1]))
        i += 2 + ws[i + 1]
    return out


def function_idents(buf):
    """identifier words of the FUNCTION records: [(word index, identifier)]"""
    le = buf[:4] in (b"oncg", b"adcg")
    ws = words(buf, le)
    return [(i + 2, ws[i + 2]) for tag, i, ln in records(buf) if tag == 0x01000000 and ln >= 2]


def gcno_idents_scan(buf):
    """identifiers announced by a gcno, by a plain scan for the FUNCTION tag (works for every layout)"""
    le = buf[:4] == b"oncg"
    ws = words(buf, le)
    return {ws[i + 2] for i in range(len(ws) - 2) if ws[i] == 0x01000000}


def absent_ident(known, rng=None):
    for v in (0x7fffff01, 0x12345678, 0xfffffffe, 77777):
        if v not in known:
            return v


def with_foreign_function(gcda, known):
    """after the first (function record, counter record) pair insert a copy of both whose identifier the gcno does not
    have: a function the notes file does not describe, with as many counters as the function before it"""
    le = gcda[:4] == b"adcg"
    recs = records(gcda)
    for k, (tag, i, ln) in enumerate(recs[:-1]):
        if tag == 0x01000000 and ln >= 2 and recs[k + 1][0] == 0x01a10000:
            end = recs[k + 1][1] + 2 + recs[k + 1][2]
            chunk = gcda[4 * i:4 * end]
            chunk = chunk[:8] + struct.pack("<I" if le else ">I", absent_ident(known)) + chunk[12:]
            return gcda[:4 * end] + chunk + gcda[4 * end:]
    return None


def degenerate_cases():
    """gcno files whose functions declare 0, 1 or 2 basic blocks (arcs only where legal), in formats 4.2 / 4.7 / 4.8 / 8.0,
    alone, next to a normal function, with and without gcda: a result or an error, never a panic"""
    out = []
    for version in (b"*204", b"*704", b"*804", b"*008"):
        for nb in (0, 1, 2):
            variants = [[]]
            if nb == 1:
                variants.append([(0, [(0, 0)])])                      # a self arc
                variants.append([(0, [(0, 1)])])
            if nb == 2:
                variants = [[(0, [(1, 0)])], [(0, [(1, 1)])], [(0, [(1, 0)]), (1, [(0, 0)])], []]
            for arcs in variants:
                for with_normal in (False, True):
                    for no_rec in ((False, True) if nb == 0 else (False,)):
                        f = dict(ident=1, name=b"tiny", file=b"a.c", start=1, nblocks=nb, arcs=arcs,
                                 lines={b: [b + 1] for b in range(nb)}, no_blocks_record=no_rec)
                        funcs = [f]
                        if with_normal:
                            funcs = [dict(ident=2, name=b"norm", file=b"a.c", start=10, nblocks=3, arcs=[(0, [(1, 0)]), (1, [(2, 1)])], lines={0: [10], 1: [11]}), f]
                        gcno = synth_gcno(funcs, version=version)
                        nreal = {g["ident"]: sum(1 for _s_, ds in g["arcs"] for _d, fl in ds if fl & 1 == 0) for g in funcs}
                        gcda = synth_gcda(funcs, {i: [3] * n for i, n in nreal.items()}, version=version)
                        for ds in ([], [gcda], [gcda, gcda]):
                            c = case(gcno, ds, True)
                            c["mut"] = ["degenerate", "gcno", "degen", [version.decode(), nb, len(arcs), with_normal, no_rec, len(ds)]]
                            out.append(c)
    return out


def counter_records(gcda):
    """[(index of the length word, length)] of the COUNTER_ARCS records of a well-formed gcda"""
    return [(i + 1, ln) for tag, i, ln in records(gcda) if tag == 0x01a10000]
