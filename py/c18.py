"""C18 - reports stay well-formed whatever the names and source text contain.
Proofs (Props/C18.v) + template-hole extraction + escaper correspondence (quick-xml / serde_json / tera vs Gallina)
+ oracle on real reports (expat, json, html.parser; same skeleton and same content, modulo the renaming, as the report
generated from benign names of the same shape)."""
import glob, html, json, os, re
import xml.etree.ElementTree as ET
from html.parser import HTMLParser
import vlib
import c18gen as g

ENV = {"GIT_DIR": "/nonexistent-for-grcov-verif"}     # output_coveralls runs `git status`; keep it out of any repository
ABS_PREFIX = "https://host.example/cov"
WITNESS_DIR = 'd"><img src=x onerror=alert(1)>'
SVG_IDENTS = {"width", "position", "text_length", "color", "current"}


# ---------------------------------------------------------------- templates
def strip_safe(expr):
    return re.sub(r"\s*\|\s*safe$", "", expr)


def scan_templates():
    """every {{ expr }} of src/templates/*.html: (template, normalised expr, last filter is `safe`), first occurrence order."""
    holes, seen = [], set()
    for path in sorted(glob.glob(os.path.join(vlib.REPO, "src", "templates", "*.html"))):
        txt = re.sub(r"\{#.*?#\}", "", open(path, encoding="utf-8").read(), flags=re.S)
        for m in re.finditer(r"\{\{-?(.*?)-?\}\}", txt, re.S):
            expr = " ".join(m.group(1).split())
            safe = re.search(r"\|\s*safe$", expr) is not None        # Tera: only the LAST filter being `safe` switches escaping off
            key = (os.path.basename(path), strip_safe(expr))
            if key not in seen:
                seen.add(key)
                holes.append((key[0], key[1], safe))
            elif safe and (key[0], key[1], False) in holes:
                holes[holes.index((key[0], key[1]))] = (key[0], key[1], True)
    return holes


def scan_svg():
    bad = []
    for path in sorted(glob.glob(os.path.join(vlib.REPO, "src", "templates", "badges", "*.svg"))):
        txt = re.sub(r"\{#.*?#\}", "", open(path, encoding="utf-8").read(), flags=re.S)
        for m in re.finditer(r"\{\{-?(.*?)-?\}\}", txt, re.S):
            e = m.group(1).strip()
            if not re.fullmatch(r"(%s)( *[-+] *\d+)?" % "|".join(sorted(SVG_IDENTS)), e):
                bad.append((os.path.basename(path), e))
    return bad


def check_templates(chk):
    """(is `parent.0` marked safe, violation record or None).  Strict in the unsafe direction: a hole that is not in the model's
    list, or that is marked `safe` while the model has it escaped, is a violation; a hole that stopped being `safe` (or vanished)
    is only noted.  The record is emitted by the caller AFTER the report oracle, so that failing inputs are printed first."""
    chk.count()
    found = scan_templates()
    rm = vlib.run_model(chk.pid, "Run.ShowEscape", ["show_holes"])[0]
    if isinstance(rm, tuple) and rm and rm[0] == "@@ERROR":
        return True, {"kind": "correspondence", "engine": "templates", "model": rm}
    model = {(bytes(t).decode(), strip_safe(bytes(e).decode())): (s, o) for t, e, s, o in rm}
    problems, stricter = [], []
    for t, e, s in found:
        if (t, e) not in model:
            problems.append({"template": t, "expr": e, "safe": s, "why": "hole not in Model/Escape.v html_holes"})
        elif s and not model[(t, e)][0]:
            problems.append({"template": t, "expr": e, "why": "marked `safe` in the template, escaped in the model (C18_unescaped_holes_trusted is about the model's list)"})
        elif model[(t, e)][0] and not s:
            stricter.append([t, e])
    for (t, e) in model:
        if (t, e) not in {(a, b) for a, b, _ in found}:
            stricter.append([t, e, "no longer in the template"])
    for t, e in scan_svg():
        problems.append({"template": t, "expr": e, "why": "badge templates are not auto-escaped; only numeric/colour variables expected"})
    src = "".join(open(p, encoding="utf-8").read() for p in glob.glob(os.path.join(vlib.REPO, "src", "*.rs")))
    for word in ("autoescape_on", "set_escape_fn", "reset_escape_fn"):
        if word in vlib.strip_comments(src):
            problems.append({"why": "src/*.rs calls Tera::%s: the escaping discipline modelled no longer applies" % word})
    chk.extra["template_holes"] = {"found": len(found), "safe": [[t, e] for t, e, s in found if s],
                                   "model_safe_now_escaped_or_gone": stricter}
    rec = None
    if problems:
        rec = {"kind": "correspondence", "engine": "templates", "problems": problems,
               "theorems_at_stake": "C18_unescaped_holes_trusted (the list of template holes in Model/Escape.v no longer matches src/templates)"}
    return ("macros.html", "parent.0", True) in found, rec


# ---------------------------------------------------------------- escapers
def py_xml_attr(esc):
    el = ET.fromstring(b'<a v="' + esc + b'" w=\'' + esc + b"'>" + esc + b"</a>")
    return el.attrib.get("v"), el.attrib.get("w"), el.text or "", len(el), sorted(el.attrib)


class Ev(HTMLParser):
    def __init__(self):
        super().__init__(convert_charrefs=True)
        self.ev = []

    def handle_starttag(self, tag, attrs):
        self.ev.append(["s", tag, [[k, v] for k, v in attrs]])

    def handle_startendtag(self, tag, attrs):
        self.ev.append(["s", tag, [[k, v] for k, v in attrs]])
        self.ev.append(["e", tag])

    def handle_endtag(self, tag):
        self.ev.append(["e", tag])

    def handle_data(self, data):
        if self.ev and self.ev[-1][0] == "d":
            self.ev[-1][1] += data
        else:
            self.ev.append(["d", data])

    def handle_comment(self, data):
        self.ev.append(["c", data])

    def handle_decl(self, decl):
        self.ev.append(["decl", decl])

    def handle_pi(self, data):
        self.ev.append(["pi", data])

    def unknown_decl(self, data):
        self.ev.append(["unk", data])


def html_events(text):
    p = Ev()
    p.feed(text)
    p.close()
    return p.ev


def check_escapers(chk, strings):
    cases = [{"op": "esc", "s": [s.encode().hex() for s in strings[i:i + 200]]} for i in range(0, len(strings), 200)]
    res = vlib.run_impl("escape", cases, chk.pid, extra_env=ENV)
    lib = []
    for r in res:
        if "xml" not in r:
            chk.violation({"kind": "oracle", "engine": "escape", "impl": r, "clause": "escaper engine must not fail"}, tag="esc")
            return
        lib += list(zip(r["xml"], r["json"], r["html"]))
    exprs = []
    for s, (x, j, h) in zip(strings, lib):
        exprs.append(vlib.app("run_escape", list(s.encode())))
        exprs.append(vlib.app("run_decode3", list(bytes.fromhex(x)), list(bytes.fromhex(j)[1:-1]), list(bytes.fromhex(h))))
    model = vlib.run_model(chk.pid, "Run.ShowEscape", exprs, shard_size=400)
    dis = []
    stats = {"strings": len(strings), "in_domain": 0, "with_meta": 0, "non_ascii": 0, "with_control": 0, "max_bytes": 0,
             "changed_by_xml": 0, "changed_by_json": 0, "changed_by_html": 0}
    for i, (s, (x, j, h)) in enumerate(zip(strings, lib)):
        chk.count()
        sb = s.encode()
        xb, jb, hb = bytes.fromhex(x), bytes.fromhex(j), bytes.fromhex(h)
        dom = g.in_domain(s)
        stats["in_domain"] += dom
        stats["with_meta"] += any(c in s for c in "&<>\"'/\\")
        stats["non_ascii"] += any(ord(c) > 127 for c in s)
        stats["with_control"] += any(ord(c) < 32 for c in s)
        stats["max_bytes"] = max(stats["max_bytes"], len(sb))
        stats["changed_by_xml"] += xb != sb
        stats["changed_by_json"] += jb[1:-1] != sb
        stats["changed_by_html"] += hb != sb
        # --- oracle on the library output (independent of the model): standard decoders give back the exact string,
        #     in an attribute of either quote and as text, without creating elements or attributes
        fails = []
        try:
            if json.loads(jb.decode()) != s:
                fails.append("json.loads(serde_json(s)) != s")
        except Exception as ex:
            fails.append("serde_json output is not valid JSON: %s" % ex)
        try:
            ev = None if not dom else html_events('<a title="%s" id=\'%s\'>%s</a>' % (hb.decode(), hb.decode(), hb.decode()))
            want = [["s", "a", [["title", s], ["id", s]]]] + ([["d", s]] if s else []) + [["e", "a"]]
            if dom and ev != want:
                fails.append("HTML parse of tera-escaped text differs: %r" % (ev,))
        except Exception as ex:
            fails.append("html parse failed: %s" % ex)
        if dom:
            try:
                v, w, t, n, keys = py_xml_attr(xb)
                if (v, w, t, n, keys) != (s, s, s, 0, ["v", "w"]):
                    fails.append("expat parse of quick-xml-escaped text differs: %r" % ((v, w, t, n, keys),))
            except Exception as ex:
                fails.append("quick-xml output is not well-formed: %s" % ex)
        if fails:
            chk.violation({"kind": "oracle", "engine": "escape", "case": {"op": "esc", "s": [sb.hex()]}, "string": s, "fails": fails,
                           "impl": {"xml": xb.decode(), "json": jb.decode(), "html": hb.decode()},
                           "clause": "escaped text decodes to the exact string and cannot leave its context"}, tag="esc")
            continue
        # --- correspondence with the Gallina escapers and decoders
        m1, m2 = model[2 * i], model[2 * i + 1]
        if (isinstance(m1, tuple) and m1 and m1[0] == "@@ERROR") or (isinstance(m2, tuple) and m2 and m2[0] == "@@ERROR"):
            dis.append({"string": s, "model": [m1, m2]})
            continue
        mx, mj, mh = (bytes(v) for v in m1)
        some = ("Some", list(sb))
        if (mx, mj, mh) != (xb, jb, hb) or list(m2) != [some, some, some]:
            dis.append({"string": s, "hex": sb.hex(), "impl": [x, j, h], "model": [mx.hex(), mj.hex(), mh.hex()], "model_decode": m2})
            continue
        if xb != sb or hb != sb or jb[1:-1] != sb:
            chk.nontrivial(["esc", s])
        chk.sample({"string": s[:80], "xml": xb.decode()[:120], "json": jb.decode()[:120], "html": hb.decode()[:120]}, limit=3)
    for d in dis[:3]:
        d.update({"kind": "correspondence", "engine": "escape",
                  "theorems_at_stake": "C18_*_inverse, C18_*_no_meta, C18_*_skeleton (Model/Escape.v no longer describes the library escapers)"})
        chk.violation(d, has_input=False, tag="esc-corr")
    chk.extra["escaper_strings"] = stats


# ---------------------------------------------------------------- reports
def unhex_map(d):
    return {bytes.fromhex(k).decode(): bytes.fromhex(v) for k, v in d.items()}


TOK = re.compile(r"Z([qsfd])\d{4}\1Z(\.c)?")


def rename(s, back):
    """benign text -> hostile text (tokens are unique alphanumeric words; a file token with extension carries its .c)"""
    if not isinstance(s, str) or not back:
        return s

    def sub(m):
        t = m.group(0)
        if t in back:
            return back[t]
        if m.group(2) and t[:-2] in back:
            return back[t[:-2]] + ".c"
        return t
    return TOK.sub(sub, s)


def rename_json(v, back, drop=("source_digest",)):
    if isinstance(v, dict):
        return {rename(k, back): rename_json(x, back, drop) for k, x in v.items() if k not in drop}
    if isinstance(v, list):
        return [rename_json(x, back, drop) for x in v]
    return rename(v, back)


def xml_tree(el, back=None, top=True):
    at = {k: (rename(v, back) if back else v) for k, v in el.attrib.items() if not (top and k == "timestamp")}
    kids = [xml_tree(c, back, False) for c in el]
    if el.tag == "methods":
        kids.sort(key=lambda k: json.dumps(k, sort_keys=True))
    text = "" if len(el) else (el.text or "")       # container elements only carry indentation
    return [el.tag, at, rename(text, back) if back else text, kids]


def sort_rows(ev):
    """index pages list BTreeMap entries by name: order the rows canonically; white-space-only text is dropped."""
    ev = [e for e in ev if e[0] != "d" or e[1].strip()]
    out, i = [], 0
    while i < len(ev):
        e = ev[i]
        out.append(e)
        i += 1
        if e[0] == "s" and e[1] == "tbody":
            rows = []
            while i < len(ev) and not (ev[i][0] == "e" and ev[i][1] == "tbody"):
                if ev[i][0] == "s" and ev[i][1] == "tr":
                    rows.append([])
                (rows[-1] if rows else out).append(ev[i])
                i += 1
            rows.sort(key=json.dumps)
            for r in rows:
                out.extend(r)
    return out


def rename_events(ev, back):
    out = []
    for e in ev:
        if e[0] == "s":
            out.append(["s", e[1], [[k, rename(v, back)] for k, v in e[2]]])
        elif e[0] == "d":
            out.append(["d", rename(e[1], back)])
        else:
            out.append(e)
    return out


def skeleton(ev):
    return [[e[0], e[1], [k for k, _ in e[2]]] if e[0] == "s" else ([e[0], e[1]] if e[0] == "e" else [e[0]]) for e in ev if e[0] != "d"]


def out_name(comps):
    n = comps[-1]
    # add_html_ext: name.ext -> name.ext.html; without extension -> name.html (since fix: 36cd83e; it was name..html)
    return "/".join(comps[:-1] + [n + ".html"])


def oracle_reports(case, bcase, abs_prefix, rh, rb, back, counters):
    """rh / rb: engine results for the hostile case and the benign one.  Returns list of (clause, detail)."""
    fails = []
    files = case["files"]
    rels = ["/".join(f["comps"]) for f in files]
    exact = not case["demangle"]

    # ---- Cobertura
    try:
        xb = bytes.fromhex(rh["cobertura"])
        root = ET.fromstring(xb)
        broot = ET.fromstring(bytes.fromhex(rb["cobertura"]))
        pk = root.findall("./packages/package")
        if [p.get("name") for p in pk] != rels:
            fails.append(("cobertura: package names are not the exact paths", [p.get("name") for p in pk]))
        for p, f, rel in zip(pk, files, rels):
            cl = p.findall("./classes/class")
            if len(cl) != 1 or cl[0].get("filename") != rel or cl[0].get("name") != g.stem(f["comps"][-1]):
                fails.append(("cobertura: class name/filename are not the exact names", [c.attrib for c in cl]))
            ms = sorted(m.get("name") for m in cl[0].findall("./methods/method")) if cl else None
            if exact and ms != sorted(n for n, _, _ in f["funcs"]):
                fails.append(("cobertura: method names are not the exact function names", ms))
        src = [s.text or "" for s in root.findall("./sources/source")]
        if src != [case["source_dir"] if case["source_dir"] is not None else "."]:
            fails.append(("cobertura: <source> text is not the exact source dir", src))
        if exact and xml_tree(root) != xml_tree(broot, back):
            fails.append(("cobertura: element/attribute tree differs from the benign report of the same shape (modulo renaming)", None))
        if not exact and blank_names(xml_tree(root)) != blank_names(xml_tree(broot)):
            fails.append(("cobertura (demangled): skeleton differs from the benign report", None))
    except ET.ParseError as ex:
        fails.append(("cobertura: not well-formed XML: %s" % ex, None))

    # ---- JSON reports
    def loadj(name, lines=False):
        t = bytes.fromhex(rh[name]).decode("utf-8")
        tb = bytes.fromhex(rb[name]).decode("utf-8")
        if lines:
            return [json.loads(l) for l in t.split("\n") if l], [json.loads(l) for l in tb.split("\n") if l]
        return json.loads(t), json.loads(tb)
    try:
        cv, cvb = loadj("coveralls")
        sf = cv["source_files"]
        if [x["name"] for x in sf] != rels:
            fails.append(("coveralls: source file names are not the exact paths", [x["name"] for x in sf]))
        for x, f in zip(sf, files):
            if exact and sorted(y["name"] for y in x["functions"]) != sorted(n for n, _, _ in f["funcs"]):
                fails.append(("coveralls: function names are not exact", x["functions"]))
        if exact and canon_fn(rename_json(cvb, back)) != canon_fn(rename_json(cv, {})):
            fails.append(("coveralls: differs from the benign report modulo renaming (extra or missing records/keys)", None))
        if not exact and canon_fn(json_shape(cv)) != canon_fn(json_shape(cvb)):
            fails.append(("coveralls (demangled): shape differs from the benign report", None))
    except ValueError as ex:
        fails.append(("coveralls: not valid JSON: %s" % ex, None))
    try:
        cd, cdb = loadj("covdir")
        for f in files:
            node = cd
            for c in f["comps"]:
                node = (node.get("children") or {}).get(c)
                if node is None or node.get("name") != c:
                    fails.append(("covdir: path component missing or renamed", f["comps"]))
                    break
        if rename_json(cdb, back) != cd:
            fails.append(("covdir: differs from the benign report modulo renaming", None))
    except ValueError as ex:
        fails.append(("covdir: not valid JSON: %s" % ex, None))
    try:
        ad, adb = loadj("ade", lines=True)
        want = sorted(([rel, n] for f, rel in zip(files, rels) for n in [x[0] for x in f["funcs"]] + [None]), key=json.dumps)
        got = sorted(([r["file"]["name"], r["method"].get("name")] for r in ad), key=json.dumps)
        if exact and got != want:
            fails.append(("activedata: records do not carry exactly the names (one per function and one per file)", got))
        if len(ad) != len(want):
            fails.append(("activedata: number of records depends on the names", len(ad)))
        key = lambda r: json.dumps(r, sort_keys=True)
        if exact and sorted(map(key, rename_json(adb, back))) != sorted(map(key, ad)):
            fails.append(("activedata: differs from the benign report modulo renaming", None))
    except ValueError as ex:
        fails.append(("activedata: not valid JSON (line-delimited): %s" % ex, None))

    # ---- HTML
    hh, hb = unhex_map(rh["html"]), unhex_map(rb["html"])
    try:
        if json.loads(hh["coverage.json"]) != json.loads(hb["coverage.json"]):
            fails.append(("coverage.json depends on the names", None))
    except (ValueError, KeyError) as ex:
        fails.append(("coverage.json: missing or not valid JSON: %s" % ex, None))
    pages = [("index.html", "index.html", ["index"])]
    bfiles = {tuple(f["comps"]): bf["comps"] for f, bf in zip(files, bcase["files"])}
    dirs = {}
    for f in files:
        dirs[tuple(f["comps"][:-1])] = bfiles[tuple(f["comps"])][:-1]
        pages.append((out_name(f["comps"]), out_name(bfiles[tuple(f["comps"])]), f["comps"]))
    for d, bd in dirs.items():
        if d:
            pages.append(("/".join(d) + "/index.html", "/".join(bd) + "/index.html", list(d) + ["index.html"]))
    for hp, bp, comps in pages:
        counters["pages"] += 1
        if hp not in hh or bp not in hb:
            fails.append(("html: page missing", [hp, hp in hh, bp, bp in hb]))
            continue
        try:
            eh = html_events(hh[hp].decode("utf-8"))
            eb = html_events(hb[bp].decode("utf-8"))
        except Exception as ex:
            fails.append(("html: page cannot be parsed: %s" % ex, hp))
            continue
        if skeleton(eh) != skeleton(eb):
            fails.append(("html: tag/attribute skeleton of %s differs from the benign page (a name or source line produced markup)" % hp,
                          first_diff(skeleton(eh), skeleton(eb))))
        elif sort_rows(eh) != sort_rows(rename_events(eb, back)):
            fails.append(("html: text/attribute values of %s are not the benign ones modulo renaming (names not shown exactly as data)" % hp,
                          first_diff(sort_rows(eh), sort_rows(rename_events(eb, back)))))
    extra = set(hh) - {p for p, _, _ in pages} - {k for k in hh if k.startswith("badges/") or k == "coverage.json"}
    if extra:
        fails.append(("html: unexpected output files", sorted(extra)))
    for k in hh:
        if k.startswith("badges/") and hh[k] != hb.get(k):
            fails.append(("html: badge depends on the names", k))
    return fails


def first_diff(a, b):
    for i, (x, y) in enumerate(zip(a, b)):
        if x != y:
            return {"index": i, "hostile": a[max(0, i - 1):i + 3], "benign": b[max(0, i - 1):i + 3]}
    return {"len_hostile": len(a), "len_benign": len(b), "tail": (a[len(b):] or b[len(a):])[:4]}


def blank_names(t):
    tag, at, text, kids = t
    return [tag, {k: ("" if k in ("name", "filename", "signature") else v) for k, v in at.items()}, "" if tag == "source" else text,
            sorted((blank_names(k) for k in kids), key=lambda k: json.dumps(k, sort_keys=True)) if tag == "methods" else [blank_names(k) for k in kids]]


def json_shape(v):
    if isinstance(v, dict):
        return {k: json_shape(x) for k, x in v.items() if k != "source_digest"}
    if isinstance(v, list):
        return [json_shape(x) for x in v]
    return "" if isinstance(v, str) else v


def canon_fn(v):
    """function lists come in hash-map order"""
    if isinstance(v, dict):
        return {k: (sorted((canon_fn(x) for x in w), key=lambda z: json.dumps(z, sort_keys=True)) if k == "functions" else canon_fn(w)) for k, w in v.items()}
    if isinstance(v, list):
        return [canon_fn(x) for x in v]
    return v


MAX_REPORT_VIOLATIONS = 3      # further failing report sets are only counted (evidence: reports.failing_report_sets)


def report_fails(chk, case, ap):
    """oracle verdict on one generator-level case (runs the writers on it and on its benign twin)."""
    bcase, back = g.benign_of(case)
    res = vlib.run_impl("escape", [g.to_engine(case, ap), g.to_engine(bcase, ap)], chk.pid, extra_env=ENV)
    if "cobertura" not in res[0] or "cobertura" not in res[1]:
        return [("the report writers must not fail", res[0] if "cobertura" not in res[0] else res[1])]
    return oracle_reports(case, bcase, ap, res[0], res[1], back, {"pages": 0})


def strings_of(case):
    out = []
    for f in case["files"]:
        out += [("comp", c) for c in f["comps"]] + [("func", n) for n, _, _ in f["funcs"]] + [("line", l) for l in f["lines"] if l]
    if case["source_dir"] is not None:
        out.append(("source_dir", case["source_dir"]))
    seen, res = set(), []
    for x in out:
        if x not in seen:
            seen.add(x)
            res.append(x)
    return res


def substitute(case, sub):
    """case with every string replaced through sub[(kind, string)] where present"""
    files = []
    for f in case["files"]:
        files.append(dict(f, comps=[sub.get(("comp", c), c) for c in f["comps"]], lines=[sub.get(("line", l), l) for l in f["lines"]],
                          funcs=[[sub.get(("func", n), n), a, b] for n, a, b in f["funcs"]]))
    sd = case["source_dir"]
    return dict(case, files=files, source_dir=sub.get(("source_dir", sd), sd))


def shrink(chk, case, ap):
    """smallest failing case found: one file, all strings but one made plain, that one shortened.  Returns (case, culprit or None)."""
    budget = [60]

    def bad(c):
        if budget[0] <= 0:
            return False
        budget[0] -= 1
        try:
            return bool(report_fails(chk, c, ap))
        except Exception:
            return False
    best = case
    for f in case["files"]:
        c1 = dict(case, files=[f])
        if len(case["files"]) > 1 and bad(c1):
            best = c1
            break
    strs = strings_of(best)
    files_names = {f["comps"][-1] for f in best["files"]}
    plain = {}
    for i, (kind, v) in enumerate(strs):
        plain[(kind, v)] = "n%d" % i + (".c" if kind == "comp" and v in files_names and g.has_ext(v) else "")
    for key in sorted(strs, key=lambda kv: not any(ch in kv[1] for ch in "&<>\"'\\")):
        sub = {k: w for k, w in plain.items() if k != key}
        c2 = substitute(best, sub)
        if bad(c2):
            kind, v = key
            # shorten the culprit (delta debugging on its characters)
            n = 2
            while len(v) >= 2 and budget[0] > 0:
                chunk = max(1, len(v) // n)
                for i in range(0, len(v), chunk):
                    t = v[:i] + v[i + chunk:]
                    if t and t not in (".", "..") and bad(substitute(c2, {(kind, v): t})):
                        c2 = substitute(c2, {(kind, v): t})
                        v = t
                        n = max(n - 1, 2)
                        break
                else:
                    if chunk == 1:
                        break
                    n = min(n * 2, len(v))
            return c2, {"kind": kind, "string": v}
    return best, None


def run_reports(chk, cases, parent_safe, label="rep"):
    eng, meta = [], []
    for case in cases:
        bcase, back = g.benign_of(case)
        for ap in (None, ABS_PREFIX):
            eng.append(g.to_engine(case, ap))
            eng.append(g.to_engine(bcase, ap))
            meta.append((case, bcase, back, ap))
    res = vlib.run_impl("escape", eng, chk.pid, extra_env=ENV, parallel=4)
    counters = {"cases": len(cases), "report_sets": len(meta), "pages": 0, "failing_report_sets": 0,
                "files": 0, "demangled": 0, "names_with_markup_meta": 0, "names_with_json_meta": 0, "names_non_ascii": 0, "source_lines": 0}
    bc_exprs, bc_meta = [], []
    st_exprs, st_meta = [], []
    for k, (case, bcase, back, ap) in enumerate(meta):
        chk.count()
        rh, rb = res[2 * k], res[2 * k + 1]
        if "cobertura" not in rh or "cobertura" not in rb:
            chk.violation({"kind": "oracle", "engine": "escape", "case": eng[2 * k], "impl": rh if "cobertura" not in rh else rb,
                           "clause": "the report writers must not fail (panic/crash) on printable names"}, tag=label)
            continue
        fails = oracle_reports(case, bcase, ap, rh, rb, back, counters)
        if fails:
            counters["failing_report_sets"] += 1
            if counters["failing_report_sets"] <= MAX_REPORT_VIOLATIONS:
                rec = {"kind": "oracle", "engine": "escape", "abs_link_prefix": ap, "gen_case": case, "fails": [[c, d] for c, d in fails[:6]],
                       "clause": "well-formed, exact names, same skeleton and content as the benign report of the same shape"}
                if counters["failing_report_sets"] == 1 and label == "rep":
                    small, culprit = shrink(chk, case, ap)
                    rec.update({"gen_case": small, "original_gen_case": case, "hostile_name": culprit,
                                "fails": [[c, d] for c, d in report_fails(chk, small, ap)[:6]]})
                rec["case"] = g.to_engine(rec["gen_case"], ap)
                rec["benign_case"] = g.to_engine(g.benign_of(rec["gen_case"])[0], ap)
                chk.violation(rec, tag=label)
            continue
        if ap is None:
            names = [c for f in case["files"] for c in f["comps"]] + [n for f in case["files"] for n, _, _ in f["funcs"]]
            counters["files"] += len(case["files"])
            counters["demangled"] += case["demangle"]
            counters["names_with_markup_meta"] += sum(any(c in n for c in "&<>\"'") for n in names)
            counters["names_with_json_meta"] += sum(any(c in n for c in "\"\\") for n in names)
            counters["names_non_ascii"] += sum(any(ord(c) > 127 for c in n) for n in names)
            counters["source_lines"] += sum(len(f["lines"]) for f in case["files"])
            if any(any(c in n for c in "&<>\"'\\") for n in names):
                chk.nontrivial(["rep", eng[2 * k]["files"]])
            chk.sample({"paths": ["/".join(f["comps"])[:100] for f in case["files"]][:2], "functions": [n[:60] for f in case["files"] for n, _, _ in f["funcs"]][:2]}, limit=5)
        # Cobertura start tags vs the model (quick-xml push_attribute = ` key="xml_escape value"`)
        if ap is None:
            cob = bytes.fromhex(rh["cobertura"])
            B = lambda t: list(t.encode())
            for f in case["files"]:
                rel = "/".join(f["comps"])
                tags = [("package", [("name", rel)]), ("class", [("name", g.stem(f["comps"][-1])), ("filename", rel)])]
                if not case["demangle"]:
                    tags += [("method", [("name", n), ("signature", "")]) for n, _, _ in f["funcs"]]
                for tag, attrs in tags:
                    st_exprs.append(vlib.app("run_start_tag", B(tag), [(B(k), B(v)) for k, v in attrs]))
                    st_meta.append((cob, eng[2 * k], tag, attrs))
        # breadcrumb entry of every file page vs the model (escaping discipline of one real hole, both settings of the prefix)
        hh = unhex_map(rh["html"])
        for f in case["files"]:
            page = hh.get(out_name(f["comps"]))
            if page is not None:
                parent = "/".join(f["comps"][:-1])
                bc_exprs.append(vlib.app("run_breadcrumb", parent_safe, vlib.Raw("Some " + vlib.coq(list(ABS_PREFIX.encode()))) if ap else None,
                                         list(parent.encode())))
                bc_meta.append((page, eng[2 * k], parent, ap))
    if bc_exprs:
        bm = vlib.run_model(chk.pid, "Run.ShowEscape", bc_exprs, shard_size=400)
        bad = 0
        for m, (page, ecase, parent, ap) in zip(bm, bc_meta):
            chk.count()
            if (isinstance(m, tuple) and m and m[0] == "@@ERROR") or bytes(m) not in page:
                bad += 1
                if bad <= 2:
                    chk.violation({"kind": "correspondence", "engine": "escape/breadcrumb", "case": ecase, "parent": parent, "abs_link_prefix": ap,
                                   "model": bytes(m).decode("utf-8", "replace") if not isinstance(m, tuple) else m,
                                   "theorems_at_stake": "C18_breadcrumb_* (Model/Escape.v breadcrumb / parent_link no longer describe macros.html + html.rs)"},
                                  has_input=False, tag=label + "-bc")
        counters["breadcrumb_entries_compared"] = len(bc_exprs)
    if st_exprs:
        sm = vlib.run_model(chk.pid, "Run.ShowEscape", st_exprs, shard_size=400)
        bad = 0
        for m, (cob, ecase, tag, attrs) in zip(sm, st_meta):
            chk.count()
            if (isinstance(m, tuple) and m and m[0] == "@@ERROR") or bytes(m)[:-1] not in cob:
                bad += 1
                if bad <= 2:
                    chk.violation({"kind": "correspondence", "engine": "escape/cobertura-tag", "case": ecase, "tag": tag, "attrs": attrs,
                                   "model": bytes(m).decode("utf-8", "replace") if not isinstance(m, tuple) else m,
                                   "theorems_at_stake": "C18_start_tag_tokens, C18_xml_* (Model/Escape.v xml_start_tag no longer describes how cobertura.rs writes attributes)"},
                                  has_input=False, tag=label + "-tag")
        counters["cobertura_start_tags_compared"] = len(st_exprs)
    return counters


def witness_case():
    return {"files": [{"comps": [WITNESS_DIR, "a.c"], "lines": ["int main() {", "  return 0;", "}"], "cov_lines": [[1, 1], [2, 1]],
                       "branches": [], "funcs": [["main", 1, True]]}],
            "source_dir": None, "demangle": False, "pretty": False, "branch": False}


def cli_witness(chk):
    """the F13 witness (fixed by 6a2db8b) on the real CLI: a directory name must not become an element of the file page,
    with or without --abs-link-prefix."""
    chk.count()
    exe = vlib.build_cli()
    sc = vlib.scratch("c18_witness")
    d = os.path.join(sc, "src", WITNESS_DIR)
    os.makedirs(d)
    with open(os.path.join(d, "a.c"), "w") as f:
        f.write("int main() {\n  return 0;\n}\n")
    with open(os.path.join(sc, "in.info"), "w") as f:
        f.write("TN:\nSF:%s/a.c\nFN:1,main\nFNDA:1,main\nDA:1,1\nDA:2,1\nend_of_record\n" % d)
    for tag, extra in (("prefix", ["--abs-link-prefix", ABS_PREFIX]), ("plain", [])):
        o = os.path.join(sc, "out_" + tag)
        p = vlib.sh([exe, os.path.join(sc, "in.info"), "-t", "html", "-o", o, "-s", os.path.join(sc, "src")] + extra, cwd=sc, env=ENV, timeout=120)
        page = os.path.join(o, WITNESS_DIR, "a.c.html")
        if not os.path.exists(page):
            chk.violation({"kind": "oracle", "engine": "cli", "cmd": extra, "stderr": p.stderr[-800:], "clause": "grcov -t html must write the file page"}, tag="cli")
            return
        tags = [e[1] for e in html_events(open(page, encoding="utf-8").read()) if e[0] == "s"]
        if "img" in tags:
            chk.violation({"kind": "oracle", "engine": "cli", "case": {"dir": WITNESS_DIR, "options": extra}, "tags": tags,
                           "clause": "a directory name must not produce an element (img) in the file page"}, tag="cli")
    chk.extra["f13_witness_rerun_on_cli"] = True


def make_strings(chk, n):
    rng = chk.rng
    out = ["", '"><script>alert(1)</script>', "a&b<c>'d\"", "日本語/é😀", "\\", '\\"', "&amp;", "'", "/", "\x7f"]
    out += [chr(c) for c in range(32, 127)]
    metas = "&<>\"'/\\;#"
    out += [a + b for a in metas for b in metas]
    out += g.PAYLOADS + g.META + [s for s in g.NONASCII if s]
    while len(out) < n:
        r = rng.random()
        s = g.hostile(rng, 200 if r < 0.1 else 40)
        if r > 0.93:     # outside the property's domain (control characters): correspondence and the JSON/HTML oracles still apply
            k = rng.randrange(0, len(s) + 1)
            s = s[:k] + chr(rng.choice(list(range(0, 32)) + [127])) + s[k:]
        out.append(s)
    return out


def run(chk):
    chk.proofs()
    parent_safe, tpl = check_templates(chk)
    quick = chk.tier == "quick"
    check_escapers(chk, make_strings(chk, 1500 if quick else 12000))
    cli_witness(chk)
    cases = [witness_case()] + [g.gen_case(chk.rng) for _ in range(70 if quick else 700)]
    counters = run_reports(chk, cases, parent_safe)
    chk.extra["reports"] = counters
    if tpl:      # after the report oracle: a change of the templates that matters has produced failing inputs above
        chk.violation(tpl, has_input=False, tag="tpl")
    chk.cov["rule"] = ("(a) strings of printable Unicode (all ASCII characters singly, all pairs of the metacharacters & < > \" ' / \\ ; #, injection payloads, "
                       "2-4 byte UTF-8, up to 800 characters; 7% with one control character as an out-of-domain probe): quick-xml escape, serde_json to_string and "
                       "tera escape_html vs the Gallina escapers byte for byte, the Gallina decoders on the library output, and Python's expat / json / html.parser "
                       "decoders give back the exact string in attribute (both quotes) and text position; non-trivial = string changed by an escaper. "
                       "(b) report sets (1-4 files in 1-3 directories up to depth 3, hostile directory/file/function names, source dir and source lines, "
                       "boundary counts, with and without --abs-link-prefix, demangling on in 20%): output_cobertura, output_coveralls, output_covdir, "
                       "output_activedata_etl, output_html each parsed by a standard parser, names compared exactly, and the whole parsed report compared with "
                       "the report of a benign case of the same shape modulo the renaming (HTML: tag/attribute skeleton equal, then all text and attribute values equal); "
                       "the package/class/method start tags of every Cobertura report and the breadcrumb entry of every file page vs the Gallina rendering; non-trivial = report set with a metacharacter in some name. "
                       "(c) the {{ }} holes and their `safe` marks extracted from src/templates vs Model/Escape.v html_holes; (d) the witness of the fixed defect F13 re-run on the real CLI.")
    chk.cov["trusted_base"] = ["Coq kernel; vm_compute for the correspondence", "Tera's template expansion (which holes are escaped: renderer/processor.rs:444) - "
                               "checked behaviourally on every generated page, not modelled", "quick-xml Writer / serde_json serializer framing around the escaped strings "
                               "(checked by the parsers on every report)", "Python xml.etree(expat), json, html.parser as the standard readers", "impl_run harness"]
    chk.assumptions = ["names and source lines are strings of printable Unicode characters (categories L, M, N, P, S, Zs); control characters are outside the property "
                       "(XML 1.0 cannot carry most of them; quick-xml copies them raw)",
                       "path components are valid on the file system (no '/', no NUL, at most 200 bytes) because output_html creates directories named after them",
                       "--abs-link-prefix, BULMA_VERSION and --output-config-file are trusted option values",
                       "exact function names are compared with demangling off; with demangling on only well-formedness and skeleton are checked"]


def replay(chk, path):
    r = json.load(open(path))
    c = r.get("case")
    if isinstance(c, dict) and c.get("op") == "esc":
        check_escapers(chk, [bytes.fromhex(x).decode() for x in c["s"]])
    elif "gen_case" in r:
        parent_safe, _ = check_templates(chk)
        run_reports(chk, [r["gen_case"]], parent_safe, label="replay")
    else:
        run(chk)
