"""C03 / C13 shared: result-set generator, the two property oracles (evaluated on the decoded real outputs),
and the model/implementation correspondence for the formats modelled in Coq (Model/Reports.v, Model/Stats.v)."""
import json
from fractions import Fraction

import vlib
import reportdec as D

U64 = 2**64 - 1
I63 = 2**63
TYPES = ["lcov", "coveralls", "coveralls+", "covdir", "ade", "files", "markdown", "cobertura", "cobertura-pretty", "html"]
COUNTS = [0, 0, 1, 1, 2, 3, 2**32 - 1, 2**32, 2**32 + 1, 2**53 + 1, I63 - 1, I63, I63 + 1, U64 - 1, U64]
FN_NAMES = ["f", "main", "_ZN3foo3barEv", "a,b", "op<T, U>", "café", "日本", "x y", "f\"q'", "a&b<c>", "Class#method",
            "Outer$Inner#<init>", "\U0001f600", "long_" + "n" * 40, "operator|", "{closure#0}", "[x]", "a:b", "-", "0"]
DIRS = ["", "", "src", "src", "src/sub", "src/sub/deep/er/est", "lib", "a b", "dé", "a&b", "x.d", "src/other"]
FILES = ["a.c", "b.rs", "x y.cpp", "ü.c", "Top.java", "noext", "m.in.c", "z.h", "<t>.hpp", "q'.c"]
ABS = ["/abs/p.c", "/abs/q/r.c", "/o.c", "/abs/q/s t.c"]


def hx(s):
    return (s if isinstance(s, bytes) else s.encode()).hex()


def gen_count(rng, big=True):
    r = rng.random()
    if big and r < 0.30:
        return rng.choice(COUNTS)
    if r < 0.55:
        return 0
    if r < 0.9:
        return rng.randrange(1, 60)
    return rng.randrange(0, U64 + 1) if big else rng.randrange(0, I63)


def gen_cov(rng, big=True, branch_only=True):
    r = rng.random()
    if r < 0.08:
        nl = 0
    elif r < 0.8:
        nl = rng.randrange(1, 9)
    else:
        nl = rng.randrange(9, 25)
    hi = rng.choice([6, 12, 30, 30, 60, 200])
    pool = list(range(1, hi + 1))
    lines = sorted(rng.sample(pool, min(nl, len(pool))))
    if lines and rng.random() < 0.3:                      # contiguous block, all missed or all hit (ranges in markdown)
        a = rng.randrange(1, hi)
        lines = sorted(set(lines) | set(range(a, min(hi, a + rng.randrange(1, 6)) + 1)))
    lc = []
    mode = rng.random()
    for l in lines:
        if mode < 0.1:
            c = 0
        elif mode < 0.2:
            c = rng.randrange(1, 9)
        else:
            c = gen_count(rng, big)
        lc.append([l, c])
    nb = rng.choice([0, 0, 1, 2, 3, 5])
    bl = set()
    for _ in range(nb):
        if lines and (not branch_only or rng.random() < 0.7):
            bl.add(rng.choice(lines))
        elif branch_only:
            bl.add(rng.randrange(1, hi + 3))
    branches = [[l, [rng.random() < 0.5 for _ in range(rng.randrange(1, 7))]] for l in sorted(bl)]
    nf = rng.choice([0, 0, 1, 2, 3, 4])
    names = rng.sample(FN_NAMES, nf)
    funcs = []
    for n in sorted(names, key=lambda s: s.encode()):
        st = rng.choice(lines) if lines and rng.random() < 0.6 else rng.randrange(1, hi + 5)
        if funcs and rng.random() < 0.2:
            st = funcs[-1][1]                               # two functions starting on one line
        if rng.random() < 0.08:
            st = 0                                          # a function recorded without a source line (FN:0,name is accepted by the readers)
        funcs.append([hx(n), st, rng.random() < 0.5])
    return {"lines": lc, "branches": branches, "funcs": funcs}


def gen_resultset(rng, big=True, branch_only=True, root_files=True, abs_paths=True):
    r = rng.random()
    nfiles = 0 if r < 0.04 else 1 if r < 0.2 else rng.randrange(2, 7)
    paths = set()
    tries = 0
    while len(paths) < nfiles and tries < 100:
        tries += 1
        if abs_paths and rng.random() < 0.12:
            p = rng.choice(ABS)
        else:
            d = rng.choice(DIRS)
            if not root_files and d == "":
                d = "src"
            p = (d + "/" if d else "") + rng.choice(FILES)
        # a path may not be a directory prefix of another one
        if any(q.startswith(p + "/") or p.startswith(q + "/") for q in paths):
            continue
        paths.add(p)
    paths = list(paths)
    rng.shuffle(paths)
    out = []
    for p in paths:
        cov = gen_cov(rng, big, branch_only)
        hi = max([l for l, _ in cov["lines"]] + [0])
        src = hi + rng.choice([0, 0, 1, 3])
        ab = p if p.startswith("/") else "/w/" + p
        out.append([hx(ab), hx(p), cov, src])
    return out


def make_case(rng, **kw):
    return {"results": gen_resultset(rng, **kw), "types": TYPES, "precision": rng.choice([0, 1, 2, 2, 3, 4]), "branch": rng.random() < 0.8,
            "src_style": rng.choice([0, 0, 1, 2, 2])}


def fixed_cases():
    """boundary result sets that every run starts with (they also re-confirm the known findings)"""
    h = hx
    full = {"lines": [[1, U64], [2, I63], [3, 0], [5, 7], [6, I63 - 1], [7, 2**32]], "branches": [[2, [True, False]], [4, [False, True, True]]],
            "funcs": [[h("f<T>"), 1, True], [h("g"), 3, False]]}
    empty = {"lines": [], "branches": [], "funcs": []}
    one = {"lines": [[1, 1]], "branches": [], "funcs": []}
    zero = {"lines": [[1, 0], [2, 0], [3, 0], [5, 0], [6, 1], [8, 0]], "branches": [], "funcs": [[h("only"), 9, False]]}
    cs = []

    def case(results, p=2, br=True):
        cs.append({"results": results, "types": TYPES, "precision": p, "branch": br})
    case([])                                                                        # the empty result set
    case([[h("/w/e.c"), h("e.c"), empty, 2]])                                       # a file without lines (root directory)
    case([[h("/w/src/e.c"), h("src/e.c"), empty, 0]], p=0)                          # same, in a directory; empty source
    case([[h("/w/src/a.c"), h("src/a.c"), full, 8]])                                # boundary counts, branch-only line 4
    case([[h("/w/src/a.c"), h("src/a.c"), full, 8], [h("/w/e.c"), h("e.c"), empty, 2], [h("/abs/p.c"), h("/abs/p.c"), one, 1]], p=3)
    case([[h("/w/src/z.c"), h("src/z.c"), zero, 9], [h("/w/src/sub/o.c"), h("src/sub/o.c"), one, 1],
          [h("/w/src/sub/deep/er/q.c"), h("src/sub/deep/er/q.c"), one, 4], [h("/w/lib/l.c"), h("lib/l.c"), zero, 8]], p=4, br=False)
    case([[h("/w/src/t.c"), h("src/t.c"), {"lines": [[i, 1 if i % 3 else 0] for i in range(1, 8)], "branches": [], "funcs": []}, 7]], p=1)   # 4/7: rounding
    case([[h("/w/src/t.c"), h("src/t.c"), {"lines": [[i, 1 if i <= 29 else 0] for i in range(1, 201)], "branches": [], "funcs": []}, 200]], p=1)  # 14.5 %: half-way
    twins = {"lines": [[1, 1], [2, 3], [3, 0], [4, 2], [6, 0], [7, 1]], "branches": [],
             "funcs": [[h("_ZN5ShapeC1Ev"), 2, True], [h("_ZN5ShapeC2Ev"), 2, False], [h("area"), 6, True], [h("late"), 9, False]]}
    case([[h("/w/src/shape.cpp"), h("src/shape.cpp"), twins, 8]])                    # two functions starting on one line, one past the last line
    line0 = {"lines": [[1, 1], [2, 0], [3, 5], [5, 0]], "branches": [[3, [True, False]]],
             "funcs": [[h("thunk"), 0, True], [h("init0"), 0, False], [h("first"), 1, True], [h("second"), 3, True]]}
    case([[h("/w/src/l0.c"), h("src/l0.c"), line0, 6], [h("/w/src/sub/o.c"), h("src/sub/o.c"), one, 1],
          [h("/w/lib/only0.c"), h("lib/only0.c"), {"lines": [[2, 1]], "branches": [], "funcs": [[h("ghost"), 0, True]]}, 2]])   # functions at line 0 (executed and not) next to ordinary ones
    return cs


BIG_TYPES = ["covdir", "coveralls", "coveralls+", "lcov", "ade", "files", "markdown", "cobertura"]


def big_cases(thorough):
    """size / boundary sets for the dense-array formats: a line number just above a power of two (one array slot per line up to
    the last one), next to small files so that directory and root totals are affected.  HTML is left out: its page has one
    ~700-byte row per source line (0.7 GB for 2^20 lines)."""
    h = hx
    small = {"lines": [[1, 1], [2, 0], [3, 4]], "branches": [[2, [True, False]]], "funcs": [[h("g"), 1, True]]}
    cs = []
    for top, p in [(65536 + 1, 2), (2**20, 3), (2**20 + 1, 4)] + ([(2**24 + 1, 2)] if thorough else []):
        big = {"lines": [[1, 2], [2, 0], [200, 1], [top - 1, 0], [top, 7]] if top % 2 else [[1, 2], [2, 0], [200, 1], [top - 3, 5], [top, 0]],
               "branches": [[top, [True, False, True]]], "funcs": [[h("f"), 1, True], [h("tail"), top - 1, False]]}
        types = BIG_TYPES if top <= 2**16 + 1 else [t for t in BIG_TYPES if t != "coveralls+"] if top <= 2**20 + 1 else ["covdir", "coveralls"]
        cs.append({"results": [[h("/w/src/big.c"), h("src/big.c"), big, 0], [h("/w/src/sub/s.c"), h("src/sub/s.c"), small, 0],
                               [h("/w/lib/t.c"), h("lib/t.c"), small, 0]], "types": types, "precision": p, "branch": True, "top_line": top})
    return cs


# ----------------------------------------------------------------------------------------------------------------
# truth and classes
# ----------------------------------------------------------------------------------------------------------------
def truth(e):
    ab, rel, cov, src = e
    return {"abs": bytes.fromhex(ab), "rel": bytes.fromhex(rel), "lines": {l: c for l, c in cov["lines"]},
            "branches": {l: list(v) for l, v in cov["branches"] if v}, "funcs": {bytes.fromhex(n): (s, x) for n, s, x in cov["funcs"]}, "src": src}


def stats_of(t):
    return {"lines": (sum(1 for c in t["lines"].values() if c > 0), len(t["lines"])),
            "functions": (sum(1 for s, x in t["funcs"].values() if x), len(t["funcs"])),
            "branches": (sum(sum(v) for v in t["branches"].values()), sum(len(v) for v in t["branches"].values()))}


def add_stats(a, b):
    return {k: (a[k][0] + b[k][0], a[k][1] + b[k][1]) for k in a}


ZERO_STATS = {"lines": (0, 0), "functions": (0, 0), "branches": (0, 0)}

# known-finding keys
K_I64 = "i64-cast"                    # C03 + C13: count >= 2^63 in covdir / html
K_COB = "cobertura-branch-only-line"  # C03
K_ROOT = "html-root-index-overwritten"  # C03 + C13
K_ABS = "html-absolute-path-omitted"  # C03
K_NOEXT = "html-no-extension-page-name"  # C03
K_NAN = "zero-total-nan"              # C13: markdown / activedata percentage with denominator 0


class Findings:
    def __init__(self):
        self.items = []

    def add(self, prop, fmt, clause, detail, known=None):
        if len(detail) > 3000:           # the big-array cases would otherwise put megabytes into a replay file
            detail = detail[:1500] + " ...[%d characters]... " % (len(detail) - 3000) + detail[-1500:]
        self.items.append({"property": prop, "format": fmt, "clause": clause, "detail": detail, "known": known})


def within(num, exact, p):
    """printed number within 10^-p of the exact rational"""
    return num.finite() and abs(num.frac - exact) <= Fraction(1, 10**p)


def decimals_of(text):
    """number of decimals a printed plain decimal carries: ('12.50' -> 2 printed, 1 significant)"""
    t = text.strip()
    if "e" in t.lower() or "." not in t:
        return 0, 0
    frac = t.split(".", 1)[1]
    return len(frac), len(frac.rstrip("0"))


def rate_ok(F, prop_fmt, what, num, c, t, scale, p, zero_value, lo=0, dec=None):
    """C13 clauses for one printed rate. scale = 1 or 100.
    dec = "eq": the format prints exactly p decimals ({:.p$}); "le": at most p significant decimals (a rounded float
    printed in shortest form).  This is what makes the requested --precision observable even where a coarser or finer
    rounding would still be 'close'."""
    fmt = prop_fmt
    if dec and num.finite():
        printed, signif = decimals_of(num.text)
        if (dec == "eq" and printed != p) or (dec == "le" and signif > p):
            F.add("C13", fmt, "rate is printed with the requested precision", "%s = %s, requested precision %d" % (what, num.text, p))
    if not num.finite():
        F.add("C13", fmt, "rate is a finite number", "%s printed as %r (covered=%d total=%d)" % (what, num.text, c, t), K_NAN if t == 0 and fmt in ("markdown", "ade") else None)
        return
    if not (0 <= num.frac <= scale):
        F.add("C13", fmt, "rate in range", "%s = %s outside [0,%d]" % (what, num.text, scale))
    if t == 0:
        if zero_value is not None and num.frac != zero_value:
            F.add("C13", fmt, "rate when total is zero", "%s = %s, the format's convention is %s" % (what, num.text, zero_value))
        return
    if not within(num, Fraction(scale * c, t), p):
        F.add("C13", fmt, "rate agrees with covered/total to the printed precision", "%s = %s but %d/%d*%d = %s (precision %d)" % (what, num.text, c, t, scale, float(Fraction(scale * c, t)), p))


# ----------------------------------------------------------------------------------------------------------------
# the oracles: one function per format; F collects C03 and C13 findings
# ----------------------------------------------------------------------------------------------------------------
def by_name(F, fmt, names, ts, key="rel"):
    """file set clause: no file added, dropped or duplicated.  Returns {name: index in decoded list}"""
    exp = sorted(t[key] for t in ts)
    got = sorted(names)
    if exp != got:
        F.add("C03", fmt, "file set", "expected %s got %s" % (exp, got))
    idx = {}
    for i, n in enumerate(names):
        idx.setdefault(n, i)
    return idx


def o_lcov(F, data, ts):
    secs = D.read_lcov(data)
    idx = by_name(F, "lcov", [s["name"] for s in secs], ts)
    for t in ts:
        if t["rel"] not in idx:
            continue
        s = secs[idx[t["rel"]]]
        if s["dup"]:
            F.add("C03", "lcov", "no duplicated record", str(s["dup"]))
        if s["lines"] != t["lines"]:
            F.add("C03", "lcov", "lines and counts", "%s: expected %s got %s" % (t["rel"], t["lines"], s["lines"]))
        bv, prob = D.branch_vectors([(l, b, n, bool(tk)) for l, b, n, tk in s["brda"]])
        if prob or bv != t["branches"]:
            F.add("C03", "lcov", "branch outcomes", "%s: expected %s got %s %s" % (t["rel"], t["branches"], bv, prob))
        fn = {n: (st, s["fnda"].get(n, 0) > 0) for n, st in s["fn"].items()}
        if fn != t["funcs"] or set(s["fnda"]) != set(s["fn"]):
            F.add("C03", "lcov", "functions", "%s: expected %s got %s" % (t["rel"], t["funcs"], fn))
        # C13: summaries against the records of the same section
        sm = s["summ"]
        exp = {"LF": len(s["lines"]), "LH": sum(1 for c in s["lines"].values() if c > 0),
               "BRF": len(s["brda"]), "BRH": sum(1 for x in s["brda"] if x[3])}
        if s["fn"] or "FNF" in sm or "FNH" in sm:
            exp["FNF"] = len(s["fn"])
            exp["FNH"] = sum(1 for n in s["fn"] if s["fnda"].get(n, 0) > 0)
        if sm != exp:
            F.add("C13", "lcov", "LF/LH/BRF/BRH/FNF/FNH equal the counts of the listed records", "%s: printed %s, records imply %s" % (t["rel"], sm, exp))
        for a, b in (("LH", "LF"), ("BRH", "BRF"), ("FNH", "FNF")):
            if a in sm and sm[a] > sm[b]:
                F.add("C13", "lcov", "covered <= total", "%s: %s=%d > %s=%d" % (t["rel"], a, sm[a], b, sm[b]))
    return secs


def o_coveralls(F, data, ts, plus):
    fmt = "coveralls+" if plus else "coveralls"
    doc, files = D.read_coveralls(data)
    idx = by_name(F, fmt, [f["name"] for f in files], ts)
    for t in ts:
        if t["rel"] not in idx:
            continue
        f = files[idx[t["rel"]]]
        if f["lines"] != t["lines"]:
            F.add("C03", fmt, "lines and counts (null = not instrumented)", "%s: expected %s got %s" % (t["rel"], t["lines"], f["lines"]))
        if len(f["raw_cov"]) != max(list(t["lines"]) + [0]):
            F.add("C03", fmt, "coverage array ends at the last instrumented line", "%s: length %d" % (t["rel"], len(f["raw_cov"])))
        bv, prob = D.branch_vectors(f["quads"])
        if prob or bv != t["branches"]:
            F.add("C03", fmt, "branch outcomes", "%s: expected %s got %s %s" % (t["rel"], t["branches"], bv, prob))
        if plus:
            fn = {n: (s, x) for n, s, x in (f["funcs"] or [])}
            if f["funcs"] is None or len(f["funcs"]) != len(fn) or fn != t["funcs"]:
                F.add("C03", fmt, "functions", "%s: expected %s got %s" % (t["rel"], t["funcs"], f["funcs"]))
        elif f["funcs"] is not None:
            F.add("C03", fmt, "no function detail without the option", "%s" % t["rel"])
    return files


def covdir_path(t):
    p = t["rel"] if not t["rel"].startswith(b"/") else t["abs"]
    comps = [c for c in p.split(b"/") if c]
    return tuple((["/"] if p.startswith(b"/") else []) + [c.decode() for c in comps])


def _show_arr(arr):
    """a long dense array is shown as its length and its data slots (1-based line, value)"""
    if len(arr) <= 300:
        return str(arr)
    return "<%d slots, data at %s>" % (len(arr), [(i + 1, v) for i, v in enumerate(arr) if v != -1][:60])


def o_covdir(F, data, ts, p):
    root = D.read_covdir(data)
    files, dirs = D.covdir_files(root)
    exp = {covdir_path(t): t for t in ts}
    got = [pth for pth, _ in files]
    if sorted(got) != sorted(exp):
        F.add("C03", "covdir", "file set / each file sits at its path", "expected %s got %s" % (sorted(exp), sorted(got)))
    for pth, n in files + dirs:
        if pth and n.get("name") != pth[-1]:
            F.add("C03", "covdir", "node name equals its key", "%s vs %r" % (pth, n.get("name")))
    for pth, n in files:
        t = exp.get(pth)
        arr = n["coverage"]
        dec = {i + 1: v for i, v in enumerate(arr) if v != -1}
        if t is not None:
            big = {l for l, c in t["lines"].items() if c >= I63}
            if dec != t["lines"] or len(arr) != max(list(t["lines"]) + [0]):
                # is the difference confined to the lines of the known class?
                a = {l: c for l, c in dec.items() if l not in big}
                b = {l: c for l, c in t["lines"].items() if l not in big}
                known = K_I64 if big and a == b and len(arr) == max(list(t["lines"]) + [0]) else None
                F.add("C03", "covdir", "lines and counts (-1 = not instrumented)", "%s: expected %s got array %s" % (pth, t["lines"], _show_arr(arr)), known)
        # C13 file level: figures against the listed array
        tot, cov_, mis = n["linesTotal"], n["linesCovered"], n["linesMissed"]
        d_tot, d_cov = sum(1 for v in arr if v != -1), sum(1 for v in arr if v > 0)
        if (tot, cov_) != (d_tot, d_cov):
            known = None
            if t is not None and any(c >= I63 for c in t["lines"].values()) and (tot, cov_) == (len(t["lines"]), sum(1 for c in t["lines"].values() if c > 0)):
                known = K_I64
            F.add("C13", "covdir", "linesTotal/linesCovered equal the counts of the listed lines", "%s: printed %d/%d, array %s implies %d/%d" % (pth, cov_, tot, _show_arr(arr), d_cov, d_tot), known)
        covdir_node_figs(F, pth, n, p)
    for pth, n in dirs:
        ch = list(n["children"].values())
        for k in ("linesTotal", "linesCovered", "linesMissed"):
            s = sum(c[k] for c in ch)
            if n[k] != s:
                F.add("C13", "covdir", "directory total is the sum of its children", "%s: %s=%d, children sum to %d" % (pth, k, n[k], s))
        covdir_node_figs(F, pth, n, p)
    return root, files, dirs


def covdir_node_figs(F, pth, n, p):
    tot, cov_, mis = n["linesTotal"], n["linesCovered"], n["linesMissed"]
    if cov_ > tot:
        F.add("C13", "covdir", "covered <= total", "%s: %d > %d" % (pth, cov_, tot))
    if cov_ + mis != tot:
        F.add("C13", "covdir", "covered + missed = total", "%s: %d + %d != %d" % (pth, cov_, mis, tot))
    rate_ok(F, "covdir", "coveragePercent of %s" % (pth,), D.as_num(n["coveragePercent"]), cov_, tot, 100, p, 0, dec="le")


def ade_ranges(t):
    return None


def o_ade(F, data, ts):
    recs = D.read_ade(data)
    per = {}
    for r in recs:
        per.setdefault(r["file"]["name"].encode(), []).append(r)
    by_name(F, "ade", list(per), ts)
    for t in ts:
        rs = per.get(t["rel"])
        if rs is None:
            continue
        frecs = [r for r in rs if r.get("is_file")]
        mrecs = [r for r in rs if not r.get("is_file")]
        cov_ = sorted(l for l, c in t["lines"].items() if c > 0)
        unc = sorted(l for l, c in t["lines"].items() if c == 0)
        if len(frecs) != 1:
            F.add("C03", "ade", "one file record per file", "%s: %d" % (t["rel"], len(frecs)))
            continue
        f = frecs[0]
        if sorted(f["file"]["covered"]) != cov_ or sorted(f["file"]["uncovered"]) != unc:
            F.add("C03", "ade", "covered / uncovered lines of the file", "%s: expected %s / %s got %s / %s" % (t["rel"], cov_, unc, f["file"]["covered"], f["file"]["uncovered"]))
        names = sorted(r["method"]["name"].encode() for r in mrecs)
        if names != sorted(t["funcs"]):
            F.add("C03", "ade", "functions", "%s: expected %s got %s" % (t["rel"], sorted(t["funcs"]), names))
        # every line is reported in a method record or as an orphan, with its own covered/uncovered status
        seen_c, seen_u = set(f["method"]["covered"]), set(f["method"]["uncovered"])
        for r in mrecs:
            m = r["method"]
            seen_c |= set(m["covered"])
            seen_u |= set(m["uncovered"])
            st = t["funcs"].get(m["name"].encode())
            if st is not None and any(l < st[0] for l in m["covered"] + m["uncovered"]):
                F.add("C03", "ade", "a method's lines do not precede its start line", "%s %s" % (t["rel"], m["name"]))
            if len(set(m["covered"])) != len(m["covered"]) or len(set(m["uncovered"])) != len(m["uncovered"]):
                F.add("C03", "ade", "no duplicated line", "%s %s" % (t["rel"], m["name"]))
            if st is not None:
                # the format's convention: a function extends from its start line to the next greater function start (or past the last line);
                # its record lists exactly the file's instrumented lines in that range - none of them handed to "no function"
                later = [s2[0] for s2 in t["funcs"].values() if s2[0] > st[0]]
                hi_ = min(later) if later else (max(t["lines"]) + 1 if t["lines"] else 1)
                wc = [l for l in cov_ if st[0] <= l < hi_]
                wu = [l for l in unc if st[0] <= l < hi_]
                if sorted(m["covered"]) != wc or sorted(m["uncovered"]) != wu:
                    F.add("C03", "ade", "a method record lists the file's lines from its start line up to the next function start",
                          "%s %s: expected %s / %s got %s / %s" % (t["rel"], m["name"], wc, wu, m["covered"], m["uncovered"]))
        if seen_c != set(cov_) or seen_u != set(unc):
            F.add("C03", "ade", "method and orphan lines cover exactly the file's lines", "%s: %s/%s vs %s/%s" % (t["rel"], sorted(seen_c), sorted(seen_u), cov_, unc))
        orphan_in_methods = (set(f["method"]["covered"]) | set(f["method"]["uncovered"])) & {l for r in mrecs for l in r["method"]["covered"] + r["method"]["uncovered"]}
        if orphan_in_methods:
            F.add("C03", "ade", "orphan lines belong to no method", "%s: %s" % (t["rel"], sorted(orphan_in_methods)))
        # C13
        for what, o in [("file", f["file"]), ("orphan", f["method"])] + [("method " + r["method"]["name"], r["method"]) for r in mrecs]:
            c, u = len(o["covered"]), len(o["uncovered"])
            if (o["total_covered"], o["total_uncovered"]) != (c, u):
                F.add("C13", "ade", "total_covered/total_uncovered equal the listed lines", "%s %s: %s/%s vs %d/%d" % (t["rel"], what, o["total_covered"], o["total_uncovered"], c, u))
            rate_ok(F, "ade", "percentage_covered of %s %s" % (t["rel"], what), D.as_num(o["percentage_covered"]), c, c + u, 1, 6, None)
    return recs


def o_files(F, data, ts):
    got = D.read_files(data)
    by_name(F, "files", got, ts)
    return got


def o_markdown(F, data, ts, p):
    rows, total = D.read_markdown(data)
    idx = by_name(F, "markdown", [r["file"] for r in rows], ts)
    for t in ts:
        if t["rel"] not in idx:
            continue
        r = rows[idx[t["rel"]]]
        c = sum(1 for v in t["lines"].values() if v > 0)
        n = len(t["lines"])
        if (r["covered"], r["total"]) != (c, n):
            F.add("C03", "markdown", "covered / total", "%s: expected %d / %d got %d / %d" % (t["rel"], c, n, r["covered"], r["total"]))
        inr = {l for l in t["lines"] if any(a <= l <= b for a, b in r["ranges"])}
        missed = {l for l, v in t["lines"].items() if v == 0}
        ends = {x for ab in r["ranges"] for x in ab}
        if inr != missed or not ends <= missed or any(a > b for a, b in r["ranges"]):
            F.add("C03", "markdown", "missed ranges cover exactly the instrumented lines with count 0", "%s: ranges %s missed %s" % (t["rel"], r["ranges"], sorted(missed)))
        if r["covered"] > r["total"]:
            F.add("C13", "markdown", "covered <= total", "%s" % t["rel"])
        rate_ok(F, "markdown", "coverage of %s" % t["rel"], D.pct_text(r["coverage"]), r["covered"], r["total"], 100, p, None, dec="eq")
    if total is None:
        F.add("C13", "markdown", "total line present", "missing")
    else:
        rate_ok(F, "markdown", "Total coverage", D.pct_text(total), sum(r["covered"] for r in rows), sum(r["total"] for r in rows), 100, p, None, dec="eq")
    return rows, total


def o_cobertura(F, data, ts, fmt):
    doc = D.read_cobertura(data)
    idx = by_name(F, fmt, [p["name"] for p in doc["packages"]], ts)
    g = [0, 0, 0, 0]
    for pk in doc["packages"]:
        if len(pk["classes"]) != 1:
            F.add("C03", fmt, "one class per file", "%s" % pk["name"])
    for t in ts:
        if t["rel"] not in idx:
            continue
        pk = doc["packages"][idx[t["rel"]]]
        cl = pk["classes"][0]
        if cl["filename"] != t["rel"]:
            F.add("C03", fmt, "class filename", "%s vs %s" % (cl["filename"], t["rel"]))
        nums = [l["number"] for l in cl["lines"]]
        lines = {l["number"]: l["hits"] for l in cl["lines"]}
        if len(nums) != len(lines) or lines != t["lines"]:
            F.add("C03", fmt, "lines and counts", "%s: expected %s got %s" % (t["rel"], t["lines"], [(l["number"], l["hits"]) for l in cl["lines"]]))
        bv = {}
        bad = []
        for l in cl["lines"]:
            if l["conds"] is not None:
                if [c[0] for c in l["conds"]] != list(range(len(l["conds"]))) or any(c[2].frac not in (0, 1) for c in l["conds"]):
                    bad.append(l["number"])
                bv[l["number"]] = [c[2].frac == 1 for c in l["conds"]]
        if bad or bv != t["branches"]:
            only = {l: v for l, v in t["branches"].items() if l not in t["lines"]}
            rest = {l: v for l, v in t["branches"].items() if l in t["lines"]}
            known = K_COB if only and not bad and bv == rest else None
            F.add("C03", fmt, "branch outcomes", "%s: expected %s got %s" % (t["rel"], t["branches"], bv), known)
        names = sorted(m["name"] for m in cl["methods"])
        if names != sorted(t["funcs"]):
            F.add("C03", fmt, "functions", "%s: expected %s got %s" % (t["rel"], sorted(t["funcs"]), names))
        for m in cl["methods"]:
            for l in m["lines"]:
                if lines.get(l["number"]) != l["hits"]:
                    F.add("C03", fmt, "method lines are lines of the file with the same count", "%s %s line %d" % (t["rel"], m["name"], l["number"]))
            st = t["funcs"].get(m["name"])
            if st is not None and any(l["number"] < st[0] for l in m["lines"]):
                F.add("C03", fmt, "a method's lines do not precede its start line", "%s %s" % (t["rel"], m["name"]))
        # C13: rates of class / package / methods against their own listed lines
        def figs(ls):
            d = {l["number"]: l for l in ls}
            return (sum(1 for l in d.values() if l["hits"] > 0), len(d),
                    sum(sum(1 for c in l["conds"] if c[2].frac == 1) for l in d.values() if l["conds"] is not None),
                    sum(len(l["conds"]) for l in d.values() if l["conds"] is not None))
        lc, lv, bc, bvv = figs(cl["lines"])
        g = [g[0] + lc, g[1] + lv, g[2] + bc, g[3] + bvv]
        for what, node, (a, b, c, d) in [("class", cl, (lc, lv, bc, bvv)), ("package", pk, (lc, lv, bc, bvv))] + [("method %s" % m["name"], m, figs(m["lines"])) for m in cl["methods"]]:
            rate_ok(F, fmt, "line-rate of %s %s" % (what, t["rel"]), node["rates"]["line-rate"], a, b, 1, 12, 0)
            rate_ok(F, fmt, "branch-rate of %s %s" % (what, t["rel"]), node["rates"]["branch-rate"], c, d, 1, 12, 0)
    at = doc["attrs"]
    printed = []
    for k in ("lines-covered", "lines-valid", "branches-covered", "branches-valid"):
        n = D.Num(at.get(k, ""))
        printed.append(n.frac if n.finite() else None)
    if printed != g:
        F.add("C13", fmt, "global totals are the sums over the packages", "printed %s, packages sum to %s" % ([at.get(k) for k in ("lines-covered", "lines-valid", "branches-covered", "branches-valid")], g))
    else:
        if g[0] > g[1] or g[2] > g[3]:
            F.add("C13", fmt, "covered <= total", str(g))
        rate_ok(F, fmt, "global line-rate", doc["rates"]["line-rate"], g[0], g[1], 1, 12, 0)
        rate_ok(F, fmt, "global branch-rate", doc["rates"]["branch-rate"], g[2], g[3], 1, 12, 0)
    return doc


def html_label(c):
    return c


def o_html(F, pages, ts, p, branch):
    """pages: {relative path (str): bytes}"""
    kinds = ["lines", "functions"] + (["branches"] if branch else [])
    shown = [t for t in ts if not t["rel"].startswith(b"/")]
    omitted = [t for t in ts if t["rel"].startswith(b"/")]
    exp_pages = {t["rel"].decode() + ".html": t for t in shown}
    file_pages = {k: v for k, v in pages.items() if k.endswith(".html") and not k.endswith("index.html")}
    for name, t in list(exp_pages.items()):
        base = name[:-5]
        if name not in file_pages and "." not in base.rpartition("/")[2] and base + "..html" in file_pages:
            F.add("C03", "html", "the page of a file is where the index links to", "%s is written as %s..html, the directory index links to %s" % (base, base, name), K_NOEXT)
            file_pages[name] = file_pages.pop(base + "..html")
    if sorted(file_pages) != sorted(exp_pages):
        F.add("C03", "html", "file set (one page per file)", "expected %s got %s" % (sorted(exp_pages), sorted(file_pages)))
    for t in omitted:
        F.add("C03", "html", "no file dropped", "%s (absolute path) has no page and is not counted" % t["rel"], K_ABS)
    dec_file_stats = {}
    hd = {"files": {}, "dirs": {}, "global": None, "badges": [], "covjson": None}
    for name, t in exp_pages.items():
        if name not in file_pages:
            continue
        pg = D.read_html_file(file_pages[name])
        rows = pg["rows"]
        if [r[0] for r in rows] != list(range(1, t["src"] + 1)):
            F.add("C03", "html", "one row per source line, numbered from 1", "%s: %s" % (name, [r[0] for r in rows]))
        dec = {n: v for n, v, _ in rows if v is not None}
        big = {l for l, c in t["lines"].items() if c >= I63}
        if dec != t["lines"]:
            a = {l: c for l, c in dec.items() if l not in big}
            b = {l: c for l, c in t["lines"].items() if l not in big}
            F.add("C03", "html", "lines and counts (no coverage = not instrumented)", "%s: expected %s got %s" % (name, t["lines"], dec), K_I64 if big and a == b else None)
        st = stats_of(t)
        sm = pg["summary"]
        dec_file_stats[name] = sm
        hd["files"][t["rel"]] = {"rows": [v for _, v, _ in rows], "summary": sm}
        if sorted(sm) != sorted(kinds):
            F.add("C13", "html", "summary items", "%s: %s" % (name, sorted(sm)))
            F.add("C03", "html", "the file page shows line and function figures and, exactly when branch coverage is enabled, branch figures", "%s: %s, branch enabled: %s" % (name, sorted(sm), branch))
        for k in kinds:
            if k not in sm:
                continue
            c, n, pct = sm[k]
            if (c, n) != st[k]:
                F.add("C03", "html", "file %s figures" % k, "%s: expected %s got %s" % (name, st[k], (c, n)))
            if k == "lines":
                d = (sum(1 for v in dec.values() if v > 0), len(dec))
                if (c, n) != d:
                    F.add("C13", "html", "file stats equal the counts of the listed lines", "%s: printed %d / %d, rows imply %d / %d" % (name, c, n, d[0], d[1]),
                          K_I64 if big and (c, n) == st[k] else None)
            html_figs(F, "%s %s" % (name, k), c, n, pct, p)
    # directory pages
    dirs = {}
    for t in shown:
        d = t["rel"].decode().rpartition("/")[0]
        dirs.setdefault(d, []).append(t)
    root_clash = "" in dirs
    dir_stats = {}
    for d, fts in dirs.items():
        key = (d + "/" if d else "") + "index.html"
        if key not in pages:
            F.add("C03", "html", "one index per directory", "missing %s" % key)
            continue
        ix = D.read_html_index(pages[key])
        if ix["kind"] != "File":
            F.add("C03", "html", "directory index lists files", "%s: kind %s" % (key, ix["kind"]))
            continue
        names = sorted(i["name"] for i in ix["items"])
        if names != sorted(t["rel"].decode().rpartition("/")[2] for t in fts):
            F.add("C03", "html", "directory index lists exactly its files", "%s: %s" % (key, names))
        tot = dict(ZERO_STATS)
        for it in ix["items"]:
            t = next((t for t in fts if t["rel"].decode().rpartition("/")[2] == it["name"]), None)
            got = {"lines": it["lines"], "functions": it["funcs"], "branches": it["branches"]}
            for k in kinds:
                if got[k] is None:
                    F.add("C13", "html", "branch columns present", key)
                    continue
                c, n, pct = got[k]
                tot = dict(tot, **{k: (tot[k][0] + c, tot[k][1] + n)})
                if t is not None:
                    pgs = dec_file_stats.get(t["rel"].decode() + ".html", {}).get(k)
                    if pgs is not None and (c, n) != pgs[:2]:
                        F.add("C13", "html", "index row equals the file page's figures", "%s %s %s: %s vs %s" % (key, it["name"], k, (c, n), pgs[:2]))
                html_figs(F, "%s row %s %s" % (key, it["name"], k), c, n, pct, p)
            if it["progress"].finite() and it["lines"][1] and not within(it["progress"], Fraction(100 * it["lines"][0], it["lines"][1]), 9):
                F.add("C13", "html", "progress value", "%s %s" % (key, it["name"]))
        for k in kinds:
            if k in ix["summary"]:
                c, n, pct = ix["summary"][k]
                if (c, n) != tot[k]:
                    F.add("C13", "html", "directory total is the sum of its files", "%s %s: printed %s, rows sum to %s" % (key, k, (c, n), tot[k]))
                html_figs(F, "%s summary %s" % (key, k), c, n, pct, p)
        dir_stats[d] = {k: ix["summary"][k][:2] for k in kinds if k in ix["summary"]}
        hd["dirs"][d.encode()] = ix["summary"]
    # global index
    gl = dict(ZERO_STATS)
    for t in shown:
        gl = add_stats(gl, stats_of(t))
    if "index.html" not in pages:
        F.add("C03", "html", "top-level index present", "missing")
    elif root_clash:
        ix = D.read_html_index(pages["index.html"])
        if ix["kind"] != "Directory":
            F.add("C03", "html", "top-level index lists every directory with the global totals",
                  "index.html is the page of the root directory (kind %s): the directory list and the global totals are not in the report" % ix["kind"], K_ROOT)
            if {k: ix["summary"][k][:2] for k in kinds if k in ix["summary"]} != {k: gl[k] for k in kinds}:
                F.add("C13", "html", "badge / coverage.json figures derive from the same global totals as the index",
                      "index.html shows %s, global totals are %s" % ({k: ix["summary"][k][:2] for k in kinds if k in ix["summary"]}, {k: gl[k] for k in kinds}), K_ROOT)
    else:
        ix = D.read_html_index(pages["index.html"])
        hd["global"] = ix["summary"]
        if ix["kind"] != "Directory":
            F.add("C03", "html", "top-level index lists directories", ix["kind"])
        names = sorted(i["name"] for i in ix["items"])
        if names != sorted(dirs):
            F.add("C03", "html", "top-level index lists exactly the directories", "%s vs %s" % (names, sorted(dirs)))
        tot = dict(ZERO_STATS)
        for it in ix["items"]:
            got = {"lines": it["lines"], "functions": it["funcs"], "branches": it["branches"]}
            for k in kinds:
                if got[k] is None:
                    continue
                c, n, pct = got[k]
                tot = dict(tot, **{k: (tot[k][0] + c, tot[k][1] + n)})
                ds = dir_stats.get(it["name"], {}).get(k)
                if ds is not None and (c, n) != ds:
                    F.add("C13", "html", "index row equals the directory page's figures", "%s %s: %s vs %s" % (it["name"], k, (c, n), ds))
                html_figs(F, "index row %s %s" % (it["name"], k), c, n, pct, p)
        for k in kinds:
            if k in ix["summary"]:
                c, n, pct = ix["summary"][k]
                if (c, n) != tot[k]:
                    F.add("C13", "html", "global total is the sum of the directories", "%s: printed %s, rows sum to %s" % (k, (c, n), tot[k]))
                if (c, n) != gl[k]:
                    F.add("C03", "html", "global figures", "%s: %s vs %s" % (k, (c, n), gl[k]))
                html_figs(F, "index summary %s" % k, c, n, pct, p)
    # coverage.json and badges: same global line totals
    c, n = gl["lines"]
    exact = Fraction(100 * c, n) if n else Fraction(100)
    if "coverage.json" in pages:
        num, _ = D.read_coverage_json(pages["coverage.json"])
        hd["covjson"] = num
        if not num.finite() or abs(num.frac - exact) > Fraction(1, 10**p):
            F.add("C13", "html", "coverage.json figure derives from the global totals", "%s vs %d/%d" % (num.text, c, n))
        elif decimals_of(num.text)[0] != p:
            F.add("C13", "html", "rate is printed with the requested precision", "coverage.json message %s, requested precision %d" % (num.text, p))
    else:
        F.add("C13", "html", "coverage.json present", "missing")
    badges = [k for k in pages if k.startswith("badges/")]
    if len(badges) != 5:
        F.add("C13", "html", "five badges", str(badges))
    for b in badges:
        num = D.read_badge(pages[b])
        hd["badges"].append(num)
        if not num.finite() or not (-Fraction(1, 10**9) <= exact - num.frac <= 1) or num.frac.denominator != 1:
            F.add("C13", "html", "badge figure derives from the global totals (whole percent, rounded down)", "%s: %s vs %d/%d" % (b, num.text, c, n))


    return hd


def html_figs(F, what, c, n, pct, p):
    if c > n:
        F.add("C13", "html", "covered <= total", "%s: %d > %d" % (what, c, n))
    rate_ok(F, "html", what, pct, c, n, 100, p, 100, dec="le")


def evaluate_case(case, res):
    """-> Findings for one case (C03 and C13 clauses on every format)."""
    F = Findings()
    ts = [truth(e) for e in case["results"]]
    p = case["precision"]
    decoded = {}
    for ty in case["types"]:
        v = res.get(ty)
        if isinstance(v, dict) and ("panic" in v or "error" in v):
            F.add("C03", ty, "the report is produced", "%s" % v)
            continue
        if v is None:
            F.add("C03", ty, "the report is produced", "no output file")
            continue
        try:
            if ty == "html":
                pages = {bytes.fromhex(k).decode(): bytes.fromhex(c) for k, c in v.items() if c is not None}
                decoded[ty] = o_html(F, pages, ts, p, case["branch"])
                continue
            data = bytes.fromhex(v)
            if ty == "lcov":
                decoded[ty] = o_lcov(F, data, ts)
            elif ty in ("coveralls", "coveralls+"):
                decoded[ty] = o_coveralls(F, data, ts, ty == "coveralls+")
            elif ty == "covdir":
                decoded[ty] = o_covdir(F, data, ts, p)
            elif ty == "ade":
                decoded[ty] = o_ade(F, data, ts)
            elif ty == "files":
                decoded[ty] = o_files(F, data, ts)
            elif ty == "markdown":
                decoded[ty] = o_markdown(F, data, ts, p)
            elif ty in ("cobertura", "cobertura-pretty"):
                decoded[ty] = o_cobertura(F, data, ts, ty)
        except Exception as ex:  # an undecodable report is a fidelity failure, with the reader's complaint
            import traceback
            F.add("C03", ty, "the report can be decoded by an independent reader", "%s: %s" % (type(ex).__name__, traceback.format_exc()[-600:]))
    if "cobertura" in decoded and "cobertura-pretty" in decoded:
        a, b = decoded["cobertura"], decoded["cobertura-pretty"]
        a = dict(a, attrs={k: v for k, v in a["attrs"].items() if k != "timestamp"})
        b = dict(b, attrs={k: v for k, v in b["attrs"].items() if k != "timestamp"})
        if json.dumps(a, default=str, sort_keys=True) != json.dumps(b, default=str, sort_keys=True):
            F.add("C03", "cobertura-pretty", "pretty printing does not change the content", "differs from the compact report")
    return F, decoded


def classes_of(case):
    """which known classes a case falls into (input predicates)"""
    ts = [truth(e) for e in case["results"]]
    out = set()
    for t in ts:
        if any(c >= I63 for c in t["lines"].values()):
            out.add(K_I64)
        if any(l not in t["lines"] for l in t["branches"]):
            out.add(K_COB)
        if b"/" not in t["rel"]:
            out.add(K_ROOT)
        if b"." not in t["rel"].rpartition(b"/")[2]:
            out.add(K_NOEXT)
        if t["rel"].startswith(b"/"):
            out.add(K_ABS)
    out.add(K_NAN)   # almost every ActiveData file record has an empty orphan part; not an interesting class split
    return out


def report_findings(chk, F, prop, known, stats, replay, label):
    """findings of `prop`: inside a known class -> KNOWN-FINDING (once) and counted; any other -> one violation for the case"""
    bad = []
    for it in F.items:
        if it["property"] != prop:
            continue
        if it["known"] and it["known"] in known:
            chk.known(known[it["known"]])
            stats["findings_in_known_classes"][it["known"]] = stats["findings_in_known_classes"].get(it["known"], 0) + 1
            continue
        bad.append(it)
    if bad:
        chk.violation(dict(replay, clause=bad[0]["clause"], format=bad[0]["format"], findings=bad[:6]), tag=label)
    return bad


def run_cases(chk, cases, prop, label):
    """run the implementation on the cases, evaluate both oracles, report the findings of `prop`.  Returns (impl results, decoded per case)."""
    impl = vlib.run_impl("report", cases, chk.pid, parallel=4, extra_env={"GIT_DIR": "/nonexistent"})
    known = {e["key"]: e for e in vlib.known_findings(prop) if e.get("status") == "known"}
    decs = []
    stats = {"findings_in_known_classes": {}, "formats": {}}
    for case, res in zip(cases, impl):
        chk.count()
        if "panic" in res or "crash" in res or "error" in res:
            chk.violation({"kind": "oracle", "engine": "report", "case": case, "impl": res, "clause": "reports are produced"}, tag=label)
            decs.append(None)
            continue
        F, dec = evaluate_case(case, res)
        decs.append(dec)
        report_findings(chk, F, prop, known, stats, {"kind": "oracle", "engine": "report", "case": case}, label)
    return impl, decs, stats


# ----------------------------------------------------------------------------------------------------------------
# correspondence with the Gallina encoders (Run/ShowReport.v : run_report)
# ----------------------------------------------------------------------------------------------------------------
def _comps(p):
    return ([b"/"] if p.startswith(b"/") else []) + [c for c in p.split(b"/") if c]


def coq_case(case):
    import gen
    fs = []
    for ab, rel, cov, src in case["results"]:
        a, r = bytes.fromhex(ab), bytes.fromhex(rel)
        fs.append(([list(c) for c in _comps(a)], [list(c) for c in _comps(r)], list(r), gen.cov_coq(cov), src))
    return vlib.app("run_report", case["precision"], fs)


def _opt(v):
    """parsed Coq option -> python (None / value)"""
    if isinstance(v, tuple) and v and v[0] == "None":
        return None
    if isinstance(v, tuple) and v and v[0] == "Some":
        return v[1]
    raise ValueError("not an option: %r" % (v,))


def _z(v):
    neg, mag = v
    return -mag if neg else mag


def _units_ok(num, units, p, slack=1):
    """printed Num against the model's rate in units of 10^-p (None = NaN); one unit of slack for float rounding"""
    if units is None:
        return not num.finite()
    return num.finite() and abs(num.frac * 10**p - _z(units)) <= slack


def _hs(v):
    """(cl, tl, u, (cf, tf, u), (cb, tb, u)) -> {'lines': (c, t, units), ...}"""
    cl, tl, u, f, b = v
    return {"lines": (cl, tl, _opt(u)), "functions": (f[0], f[1], _opt(f[2])), "branches": (b[0], b[1], _opt(b[2]))}


def compare_model(case, dec, mv):
    """-> list of (format, text) disagreements between the decoded real reports and the model's documents"""
    out = []
    p = case["precision"]
    ts = [truth(e) for e in case["results"]]
    m_cd, m_cv, m_md, m_cob, m_html, m_lcov, m_files, m_ade = mv
    # covdir
    if "covdir" in dec:
        root, files, dirs = dec["covdir"]
        real = {}
        for pth, n in files:
            real[pth] = (0, (n["linesTotal"], n["linesCovered"], n["linesMissed"]), D.as_num(n["coveragePercent"]), list(n["coverage"]))
        for pth, n in dirs:
            real[pth] = (1, (n["linesTotal"], n["linesCovered"], n["linesMissed"]), D.as_num(n["coveragePercent"]), [])
        mod = {}
        for path, kind, st, units, cv in m_cd:
            mod[tuple(bytes(c).decode() for c in path[1:])] = (kind, tuple(st), _opt(units), [_z(x) for x in cv])
        if sorted(real) != sorted(mod):
            out.append(("covdir", "tree shape: real %s model %s" % (sorted(real), sorted(mod))))
        else:
            for k in real:
                r, m = real[k], mod[k]
                if r[0] != m[0] or r[1] != m[1] or r[3] != m[3] or not _units_ok(r[2], m[2], p):
                    out.append(("covdir", "node %s: real %s model %s" % (k, (r[0], r[1], r[2].text, r[3]), m)))
    # coveralls+
    if "coveralls+" in dec:
        real = [(f["name"], f["raw_cov"], f["raw_br"], sorted(f["funcs"] or [])) for f in dec["coveralls+"]]
        mod = [(bytes(n), [_opt(x) for x in cv], list(br), sorted((bytes(a), s, e) for a, s, e in (_opt(fn) or []))) for n, cv, br, fn in m_cv]
        if real != mod:
            out.append(("coveralls+", "real %s model %s" % (real, mod)))
    if "coveralls" in dec:
        real = [(f["name"], f["raw_cov"], f["raw_br"]) for f in dec["coveralls"]]
        mod = [(bytes(n), [_opt(x) for x in cv], list(br)) for n, cv, br, fn in m_cv]
        if real != mod:
            out.append(("coveralls", "real %s model %s" % (real, mod)))
    # markdown
    if "markdown" in dec:
        rows, total = dec["markdown"]
        mrows, mtot = m_md
        if len(rows) != len(mrows):
            out.append(("markdown", "row count"))
        else:
            for r, (f, c, t, rg, u) in zip(rows, mrows):
                if (r["file"], r["covered"], r["total"], r["ranges"]) != (bytes(f), c, t, [tuple(x) for x in rg]) or not _units_ok(D.pct_text(r["coverage"]), _opt(u), p):
                    out.append(("markdown", "row real %s model %s" % (r, (bytes(f), c, t, rg, u))))
            if total is None or not _units_ok(D.pct_text(total), _opt(mtot), p):
                out.append(("markdown", "total real %s model %s" % (total, mtot)))
    # cobertura
    for ty in ("cobertura", "cobertura-pretty"):
        if ty not in dec:
            continue
        doc = dec[ty]
        mp, mg = m_cob
        if len(mp) != len(doc["packages"]):
            out.append((ty, "package count"))
            continue
        for pk, (n, ls, st) in zip(doc["packages"], mp):
            cl = pk["classes"][0]
            real = sorted((l["number"], l["hits"], None if l["conds"] is None else [c[2].frac == 1 for c in l["conds"]]) for l in cl["lines"])
            mod = sorted((a, b, (lambda o: None if o is None else list(o))(_opt(c))) for a, b, c in ls)
            if pk["name"] != bytes(n) or real != mod:
                out.append((ty, "class lines of %s: real %s model %s" % (pk["name"], real, mod)))
            lc, lv, bc, bv = st
            for key, a, b in (("line-rate", lc, lv), ("branch-rate", bc, bv)):
                exact = Fraction(a, b) if b else Fraction(0)
                if not within(pk["rates"][key], exact, 12):
                    out.append((ty, "%s of %s: real %s model %s" % (key, pk["name"], pk["rates"][key].text, exact)))
        at = doc["attrs"]
        real = [at.get(k) for k in ("lines-covered", "lines-valid", "branches-covered", "branches-valid")]
        if real != [str(x) for x in mg]:
            out.append((ty, "global totals real %s model %s" % (real, mg)))
    # html
    if "html" in dec:
        hd = dec["html"]
        mfiles, mdirs, mglob, mbadge = m_html
        kinds = ["lines", "functions"] + (["branches"] if case["branch"] else [])

        def cmp_summary(what, sm, hs):
            for k in kinds:
                if k not in sm:
                    out.append(("html", "%s: no %s figure" % (what, k)))
                    continue
                c, n, pct = sm[k]
                mc, mn, mu = hs[k]
                if (c, n) != (mc, mn) or not _units_ok(pct, mu, p):
                    out.append(("html", "%s %s: real %s model %s" % (what, k, (c, n, pct.text), hs[k])))
        if sorted(hd["files"]) != sorted(bytes(n) for n, _, _ in mfiles):
            out.append(("html", "reported files: real %s model %s" % (sorted(hd["files"]), sorted(bytes(n) for n, _, _ in mfiles))))
        else:
            for n, rows, hs in mfiles:
                f = hd["files"][bytes(n)]
                mod = [(None if _z(x) < 0 else _z(x)) for x in rows]
                if f["rows"] != mod:
                    out.append(("html", "rows of %s: real %s model %s" % (bytes(n), f["rows"], mod)))
                cmp_summary("file %s" % bytes(n), f["summary"], _hs(hs))
        md = {bytes(n): _hs(hs) for n, hs in mdirs}
        if sorted(md) != sorted(hd["dirs"]):
            out.append(("html", "directories: real %s model %s" % (sorted(hd["dirs"]), sorted(md))))
        else:
            for d in md:
                cmp_summary("directory %s" % d, hd["dirs"][d], md[d])
        if hd["global"] is not None:
            cmp_summary("global", hd["global"], _hs(mglob))
        g = _hs(mglob)["lines"]
        if hd["covjson"] is not None and not _units_ok(hd["covjson"], g[2], p):
            out.append(("html", "coverage.json real %s model %s" % (hd["covjson"].text, g[2])))
        for b in hd["badges"]:
            if not _units_ok(b, _opt(mbadge), 0):
                out.append(("html", "badge real %s model %s" % (b.text, mbadge)))
    # lcov summaries
    if "lcov" in dec:
        for s, ms in zip(dec["lcov"], m_lcov):
            lf, lh, brf, brh, fn = ms
            exp = {"LF": lf, "LH": lh, "BRF": brf, "BRH": brh}
            fn = _opt(fn)
            if fn is not None:
                exp["FNF"], exp["FNH"] = fn
            if s["summ"] != exp:
                out.append(("lcov", "summaries of %s: real %s model %s" % (s["name"], s["summ"], exp)))
        if len(dec["lcov"]) != len(m_lcov):
            out.append(("lcov", "section count"))
    if "files" in dec and dec["files"] != [bytes(x) for x in m_files]:
        out.append(("files", "real %s model %s" % (dec["files"], m_files)))
    # ActiveData-ETL: per file, the method records (any order), the file record and the orphan part, exact lists and totals
    if "ade" in dec:
        def part(o):
            return (list(o["covered"]), list(o["uncovered"]), o["total_covered"], o["total_uncovered"])
        real = {}
        order = []
        for r in dec["ade"]:
            nm = r["file"]["name"].encode()
            if nm not in real:
                real[nm] = {"methods": [], "file": [], "orphan": []}
                order.append(nm)
            if r.get("is_file"):
                real[nm]["file"].append(part(r["file"]))
                real[nm]["orphan"].append(part(r["method"]))
            else:
                real[nm]["methods"].append((r["method"]["name"].encode(), part(r["method"])))
        mod_order = [bytes(f[0]) for f in m_ade]
        if order != mod_order:
            out.append(("ade", "files: real %s model %s" % (order, mod_order)))
        else:
            for n, ms, fp, op in m_ade:
                r = real[bytes(n)]
                mm = sorted((bytes(a), (list(b[0]), list(b[1]), b[2], b[3])) for a, b in ms)
                mf = (list(fp[0]), list(fp[1]), fp[2], fp[3])
                mo = (list(op[0]), list(op[1]), op[2], op[3])
                if sorted(r["methods"]) != mm:
                    out.append(("ade", "method records of %s: real %s model %s" % (bytes(n), sorted(r["methods"]), mm)))
                if r["file"] != [mf]:
                    out.append(("ade", "file record of %s: real %s model %s" % (bytes(n), r["file"], mf)))
                if r["orphan"] != [mo]:
                    out.append(("ade", "orphan part of %s: real %s model %s" % (bytes(n), r["orphan"], mo)))
    return out


def correspondence(chk, cases, decs, label, limit=None):
    """evaluate the Gallina encoders on the same result sets and compare the documents"""
    idx = [i for i, d in enumerate(decs) if d is not None]
    if limit is not None:
        idx = idx[:limit]
    model = vlib.run_model(chk.pid, "Run.ShowReport", [coq_case(cases[i]) for i in idx], shard_size=60)
    nbad = 0
    agree = 0
    for i, mv in zip(idx, model):
        chk.count()
        if isinstance(mv, tuple) and mv and mv[0] == "@@ERROR":
            nbad += 1
            if nbad <= 2:
                chk.violation({"kind": "correspondence", "engine": "report", "case": cases[i], "model": mv[1][-1500:]}, has_input=False, tag=label + "-corr")
            continue
        try:
            dis = compare_model(cases[i], decs[i], mv)
        except Exception:
            import traceback
            dis = [("driver", traceback.format_exc()[-800:])]
        if dis:
            nbad += 1
            if nbad <= 3:
                chk.violation({"kind": "correspondence", "engine": "report", "case": cases[i], "disagreements": [list(d) for d in dis[:5]],
                               "theorems_at_stake": "the encoders of Model/Reports.v / Model/Stats.v no longer describe the writers"}, has_input=False, tag=label + "-corr")
        else:
            agree += 1
    return agree, nbad


# ----------------------------------------------------------------------------------------------------------------
# size / boundary result sets for the dense-array formats (oracle on the real reports; model via run_report_sparse)
# ----------------------------------------------------------------------------------------------------------------
def _sparse(arr, empty):
    return (len(arr), [(i + 1, v) for i, v in enumerate(arr) if v != empty])


def compare_model_sparse(case, dec, mv):
    out = []
    mfiles, mroot = mv
    if "covdir" in dec:
        root, files, dirs = dec["covdir"]
        real = {"/".join(pth).encode(): n for pth, n in files}
        for rel, st, cd, cv in mfiles:
            n = real.get(bytes(rel))
            if n is None:
                out.append(("covdir", "no node for %s" % bytes(rel)))
                continue
            m_arr = (cd[0], [(i, _z(z)) for i, z in cd[1]])
            if _sparse(n["coverage"], -1) != m_arr or (n["linesTotal"], n["linesCovered"], n["linesMissed"]) != tuple(st):
                r = _sparse(n["coverage"], -1)
                out.append(("covdir", "%s: real length %d data %s stats %s, model length %d data %s stats %s" % (
                    bytes(rel), r[0], r[1][:20], (n["linesTotal"], n["linesCovered"], n["linesMissed"]), m_arr[0], m_arr[1][:20], tuple(st))))
        if (root["linesTotal"], root["linesCovered"], root["linesMissed"]) != tuple(mroot):
            out.append(("covdir", "root totals real %s model %s" % ((root["linesTotal"], root["linesCovered"], root["linesMissed"]), tuple(mroot))))
    for ty in ("coveralls", "coveralls+"):
        if ty not in dec:
            continue
        real = {f["name"]: f["raw_cov"] for f in dec[ty]}
        for rel, st, cd, cv in mfiles:
            arr = real.get(bytes(rel))
            m_arr = (cv[0], [(i, _opt(o)) for i, o in cv[1]])
            if arr is None or _sparse(arr, None) != m_arr:
                r = _sparse(arr or [], None)
                out.append((ty, "%s: real length %d data %s, model length %d data %s" % (bytes(rel), r[0], r[1][:20], m_arr[0], m_arr[1][:20])))
    return out


def big_stream(chk, prop, thorough):
    """a line number just above 2^16 / at 2^20 / just above 2^20 (thorough: 2^24): the dense arrays of covdir and coveralls(+), and the
    sparse formats next to them; oracle on the real reports, model through line_array_n with the arrays printed summarised"""
    cases = big_cases(thorough)
    impl, decs, stats = run_cases(chk, cases, prop, "big")
    idx = [i for i, d in enumerate(decs) if d is not None and (thorough or cases[i]["top_line"] != 2**20)]
    exprs = [vlib.Raw(coq_case(cases[i]).replace("run_report ", "run_report_sparse ", 1)) for i in idx]
    model = vlib.run_model(chk.pid, "Run.ShowReport", exprs, shard_size=2, timeout=1500)
    agree = bad = 0
    for i, mv in zip(idx, model):
        chk.count()
        if isinstance(mv, tuple) and mv and mv[0] == "@@ERROR":
            dis = [("model", mv[1][-800:])]
        else:
            try:
                dis = compare_model_sparse(cases[i], decs[i], mv)
            except Exception:
                import traceback
                dis = [("driver", traceback.format_exc()[-800:])]
        if dis:
            bad += 1
            chk.violation({"kind": "correspondence", "engine": "report", "case": cases[i], "disagreements": [list(d) for d in dis[:5]],
                           "theorems_at_stake": "line_array / cd_file_stats / cd_set_stats of Model/Reports.v, Model/Stats.v no longer describe the writers for long arrays"},
                          has_input=False, tag="big-corr")
        else:
            agree += 1
        chk.nontrivial(["big", cases[i]["top_line"]])
    chk.extra["size_boundary_sets"] = {
        "top_lines": [c["top_line"] for c in cases], "types": {str(c["top_line"]): c["types"] for c in cases},
        "oracle": "all sets, every listed type (C03 exact lines, C13 totals and rates)",
        "model": "sets %s through run_report_sparse (line_array_n = line_array by C03_line_array_n; arrays compared as length + data slots; file stats and root totals exact): %d agree, %d disagree"
                 % ([cases[i]["top_line"] for i in idx], agree, bad),
        "not_covered": "html (one ~700-byte row per source line: 0.7 GB for 2^20 lines); the full run_report documents for these sets (printing 2^16+ slots does not scale; "
                       "the tree / percent / other formats of the model are exercised by the ordinary sets); in the quick tier the 2^20 set is judged by the oracle only",
        "known_class_findings": stats["findings_in_known_classes"]}
    return agree, bad
